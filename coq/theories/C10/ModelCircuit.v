(* C10 — executable model: NNF circuits as ProbLog's DDNNF/LogicNNF stores them,
   CNFs, semiring evaluation, weighted model counting, and the d-DNNF checker.
   NO proofs in this file (it must keep running when a proof breaks).

   Correspondence with /repo/problog (formula.py, ddnnf_formula.py):
     * a DDNNF object holds `_nodes`, a list of namedtuples  atom(identifier=<cnf var>, probability, ...)
       | conj(children) | disj(children); node keys are 1-based positions in that list;
       a child reference is a key k>0 (the node), -k (the negation, only meaningful for atoms),
       0 (TRUE) or None (FALSE).  Here: `node`, `ref` (0-based indices), `circuit := list node`.
     * SimpleDDNNFEvaluator._get_weight / _calculate_weight: an atom contributes
       weights[atom][sign], a conj the product and a disj the sum of the children's weights, intermediate
       values are cached as (w, w).  Here: `node_val`/`vals` with a generic algebra, instantiated with a
       semiring in `c_eval`.  The root is the LAST node (`get_root_weight` uses len(formula)); an empty
       formula has root TRUE (`_get_weight(0)` = one). *)
From Coq Require Import List Bool Arith.
Import ListNotations.

(* ------------------------------------------------------------------ semirings *)
Record sr_ops : Type := {
  car :> Type;
  s0 : car;
  s1 : car;
  sadd : car -> car -> car;
  smul : car -> car -> car }.

Definition ssum {S : sr_ops} (l : list S) : S := fold_right (sadd S) (s0 S) l.
Definition sprod {S : sr_ops} (l : list S) : S := fold_right (smul S) (s1 S) l.

(* ------------------------------------------------------------------ NNF as trees *)
Inductive nnf : Type :=
| NT : nnf
| NF : nnf
| NLit (v : nat) (b : bool) : nnf
| NAnd (l : list nnf) : nnf
| NOr (l : list nnf) : nnf.

(* an "algebra": how to interpret each node shape in a carrier A *)
Record alg (A : Type) : Type := {
  fT : A; fF : A; fL : nat -> bool -> A; fA : list A -> A; fO : list A -> A }.
Arguments fT {A}. Arguments fF {A}. Arguments fL {A}. Arguments fA {A}. Arguments fO {A}.

Fixpoint fold {A} (g : alg A) (t : nnf) : A :=
  match t with
  | NT => fT g
  | NF => fF g
  | NLit v b => fL g v b
  | NAnd l => fA g (map (fold g) l)
  | NOr l => fO g (map (fold g) l)
  end.

Definition asg := nat -> bool.
Definition idb (b : bool) := b.

(* Boolean meaning *)
Definition alg_bool (a : asg) : alg bool :=
  {| fT := true; fF := false; fL := fun v b => Bool.eqb (a v) b;
     fA := forallb idb; fO := existsb idb |}.
Definition evalb (a : asg) (t : nnf) : bool := fold (alg_bool a) t.

(* variables (with repetitions; only membership matters) *)
Definition alg_vars : alg (list nat) :=
  {| fT := []; fF := []; fL := fun v _ => [v]; fA := @concat nat; fO := @concat nat |}.
Definition tvars (t : nnf) : list nat := fold alg_vars t.

(* does literal (v,b) occur *)
Definition alg_occurs (v : nat) (b : bool) : alg bool :=
  {| fT := false; fF := false; fL := fun v' b' => Nat.eqb v' v && Bool.eqb b' b;
     fA := existsb idb; fO := existsb idb |}.
Definition occurs (v : nat) (b : bool) (t : nnf) : bool := fold (alg_occurs v b) t.

(* semiring evaluation with literal weights w *)
Definition alg_sr (S : sr_ops) (w : nat -> bool -> S) : alg S :=
  {| fT := s1 S; fF := s0 S; fL := w; fA := sprod; fO := ssum |}.
Definition eval (S : sr_ops) (w : nat -> bool -> S) (t : nnf) : S := fold (alg_sr S w) t.

(* ------------------------------------------------------------------ circuits as DAGs (ProbLog layout) *)
Inductive ref : Type := RT | RF | RPos (i : nat) | RNeg (i : nat).
Inductive node : Type := Atom (v : nat) | Conj (ch : list ref) | Disj (ch : list ref).
Definition circuit := list node.

Section Dag.
  Context {A : Type} (g : alg A).
  (* value of a reference given the (positive, negative) values of the nodes computed so far *)
  Definition ref_val (acc : list (A * A)) (r : ref) : A :=
    match r with
    | RT => fT g
    | RF => fF g
    | RPos i => fst (nth i acc (fF g, fF g))
    | RNeg i => snd (nth i acc (fF g, fF g))
    end.
  Definition node_val (acc : list (A * A)) (n : node) : A * A :=
    match n with
    | Atom v => (fL g v true, fL g v false)
    | Conj ch => let x := fA g (map (ref_val acc) ch) in (x, x)
    | Disj ch => let x := fO g (map (ref_val acc) ch) in (x, x)
    end.
  Fixpoint vals_from (acc : list (A * A)) (ns : list node) : list (A * A) :=
    match ns with
    | [] => acc
    | n :: r => vals_from (acc ++ [node_val acc n]) r
    end.
  Definition vals (C : circuit) : list (A * A) := vals_from [] C.
  Definition root_ref (C : circuit) : ref :=
    match length C with 0 => RT | S k => RPos k end.
  Definition root_val (C : circuit) : A := ref_val (vals C) (root_ref C).
End Dag.

(* the term algebra: unfolding a DAG into trees *)
Definition alg_term : alg nnf := {| fT := NT; fF := NF; fL := NLit; fA := NAnd; fO := NOr |}.
Definition unfold (C : circuit) : list (nnf * nnf) := vals alg_term C.
Definition root_tree (C : circuit) : nnf := root_val alg_term C.
Definition ref_tree (C : circuit) (r : ref) : nnf := ref_val alg_term (unfold C) r.

Definition c_evalb (a : asg) (C : circuit) : bool := root_val (alg_bool a) C.
Definition c_eval (S : sr_ops) (w : nat -> bool -> S) (C : circuit) : S := root_val (alg_sr S w) C.
Definition c_occurs (v : nat) (b : bool) (C : circuit) : bool := root_val (alg_occurs v b) C.

(* well-formedness: children precede their parent; negative references only to atoms *)
Definition is_atom (C : circuit) (i : nat) : bool :=
  match nth_error C i with Some (Atom _) => true | _ => false end.
Definition atom_var (C : circuit) (i : nat) : option nat :=
  match nth_error C i with Some (Atom v) => Some v | _ => None end.
Definition ref_okb (C : circuit) (k : nat) (r : ref) : bool :=
  match r with
  | RT | RF => true
  | RPos i => Nat.ltb i k
  | RNeg i => Nat.ltb i k && is_atom C i
  end.
Definition node_okb (C : circuit) (k : nat) (n : node) : bool :=
  match n with
  | Atom _ => true
  | Conj ch | Disj ch => forallb (ref_okb C k) ch
  end.
Fixpoint nodes_okb (C : circuit) (k : nat) (ns : list node) : bool :=
  match ns with
  | [] => true
  | n :: r => node_okb C k n && nodes_okb C (S k) r
  end.
Definition wfb (C : circuit) : bool := nodes_okb C 0 C.

(* ------------------------------------------------------------------ CNF *)
Definition lit := (nat * bool)%type.
Definition clause := list lit.
Definition cnf := list clause.
Definition lit_true (a : asg) (l : lit) : bool := Bool.eqb (a (fst l)) (snd l).
Definition sat (a : asg) (f : cnf) : bool := forallb (existsb (lit_true a)) f.

(* ------------------------------------------------------------------ weighted model count *)
Definition upd (a : asg) (v : nat) (b : bool) : asg :=
  fun x => if Nat.eqb x v then b else a x.

Section WMC.
  Variable R : sr_ops.
  Variable w : nat -> bool -> R.
  (* Shannon expansion over the variable list vs: the sum, over all assignments
     to vs, of [phi holds] * product of the literal weights (see wmc_sum below) *)
  Fixpoint wmc (vs : list nat) (phi : asg -> bool) (a : asg) : R :=
    match vs with
    | [] => if phi a then s1 R else s0 R
    | v :: r => sadd R (smul R (w v true) (wmc r phi (upd a v true)))
                       (smul R (w v false) (wmc r phi (upd a v false)))
    end.

  (* the same thing written as an explicit sum over models *)
  Fixpoint all_bools (n : nat) : list (list bool) :=
    match n with
    | 0 => [[]]
    | S k => map (cons true) (all_bools k) ++ map (cons false) (all_bools k)
    end.
  Fixpoint override (a : asg) (vs : list nat) (bs : list bool) : asg :=
    match vs, bs with
    | v :: vr, b :: br => override (upd a v b) vr br
    | _, _ => a
    end.
  Fixpoint lit_prod (vs : list nat) (bs : list bool) : R :=
    match vs, bs with
    | v :: vr, b :: br => smul R (w v b) (lit_prod vr br)
    | _, _ => s1 R
    end.
  Definition wmc_sum (vs : list nat) (phi : asg -> bool) (a : asg) : R :=
    ssum (map (fun bs => if phi (override a vs bs) then lit_prod vs bs else s0 R)
              (all_bools (length vs))).
End WMC.

(* variables are numbered 1..n (as in DIMACS / ProbLog's CNF) *)
Definition var_list (n : nat) : list nat := seq 1 n.
Definition asg0 : asg := fun _ => false.
Definition wmc_cnf (S : sr_ops) (w : nat -> bool -> S) (n : nat) (f : cnf) : S :=
  wmc S w (var_list n) (fun a => sat a f) asg0.

(* ------------------------------------------------------------------ the d-DNNF checker *)
Definition memb (l : list nat) (v : nat) : bool := existsb (Nat.eqb v) l.
Definition inclb (x y : list nat) : bool := forallb (memb y) x.
Definition same_setb (x y : list nat) : bool := inclb x y && inclb y x.
Definition disjointb (x y : list nat) : bool := forallb (fun v => negb (memb y v)) x.
Fixpoint pairwiseb {X} (r : X -> X -> bool) (l : list X) : bool :=
  match l with
  | [] => true
  | x :: t => forallb (r x) t && pairwiseb r t
  end.

(* structural pass: (variables, decomposable-and-smooth so far).  For an OR whose
   children all have the same variables the first child's list is kept, so lists stay duplicate-free. *)
Definition alg_struct : alg (list nat * bool) :=
  {| fT := ([], true); fF := ([], true); fL := fun v _ => ([v], true);
     fA := fun l => (concat (map fst l),
                     forallb idb (map snd l) && pairwiseb disjointb (map fst l));
     fO := fun l => (match l with [] => [] | x :: _ => fst x end,
                     forallb idb (map snd l) &&
                     match l with [] => true | x :: t => forallb (fun y => same_setb (fst x) (fst y)) t end) |}.

(* semantic pass for one assignment: (truth value, every OR below has at most one true child) *)
Fixpoint count_true (l : list bool) : nat :=
  match l with [] => 0 | b :: t => (if b then 1 else 0) + count_true t end.
Definition at_most_one (l : list bool) : bool := Nat.leb (count_true l) 1.
Definition alg_sem (a : asg) : alg (bool * bool) :=
  {| fT := (true, true); fF := (false, true); fL := fun v b => (Bool.eqb (a v) b, true);
     fA := fun l => (forallb idb (map fst l), forallb idb (map snd l));
     fO := fun l => (existsb idb (map fst l),
                     forallb idb (map snd l) && at_most_one (map fst l)) |}.

Definition asg_of (bs : list bool) : asg :=
  fun v => match v with 0 => false | S k => nth k bs false end.

Definition var_in_range (n v : nat) : bool := Nat.leb 1 v && Nat.leb v n.
Definition cnf_in_range (n : nat) (f : cnf) : bool :=
  forallb (forallb (fun l => var_in_range n (fst l))) f.

Definition check_ddnnf (n : nat) (C : circuit) (f : cnf) : bool :=
  wfb C &&
  cnf_in_range n f &&
  (let sv := root_val alg_struct C in
   snd sv && forallb (var_in_range n) (fst sv) && forallb (memb (fst sv)) (var_list n)) &&
  forallb (fun bs => let a := asg_of bs in
                     let r := root_val (alg_sem a) C in
                     snd r && Bool.eqb (fst r) (sat a f))
          (all_bools n).

(* individual verdicts, for diagnostics in the harness (same sub-terms as check_ddnnf) *)
Definition check_struct (n : nat) (C : circuit) : bool :=
  let sv := root_val alg_struct C in snd sv && forallb (var_in_range n) (fst sv).
Definition check_cover (n : nat) (C : circuit) : bool :=
  forallb (memb (fst (root_val alg_struct C))) (var_list n).
Definition check_det (n : nat) (C : circuit) : bool :=
  forallb (fun bs => snd (root_val (alg_sem (asg_of bs)) C)) (all_bools n).
Definition check_equiv (n : nat) (C : circuit) (f : cnf) : bool :=
  forallb (fun bs => let a := asg_of bs in Bool.eqb (fst (root_val (alg_sem a) C)) (sat a f)) (all_bools n).

(* ------------------------------------------------------------------ _load_nnf's labelling rule *)
(* a CNF-side key: 0 (TRUE), None (FALSE) or a signed variable; the NNF-side key is a `ref`.
   _load_nnf gives a name the node of its literal when that literal has an `L` line, and
   None (FALSE) when no such line exists; key 0 stays 0 and None stays None. *)
Inductive ckey : Type := KTrue | KFalse | KLit (v : nat) (b : bool).
Definition label_ok (C : circuit) (k : ckey) (r : ref) : bool :=
  match k, r with
  | KTrue, RT => true
  | KFalse, RF => true
  | KLit v b, RPos i => b && match atom_var C i with Some v' => Nat.eqb v' v | None => false end
  | KLit v b, RNeg i => negb b && match atom_var C i with Some v' => Nat.eqb v' v | None => false end
  | KLit v b, RF => negb (c_occurs v b C)
  | _, _ => false
  end.
Definition key_evalb (a : asg) (k : ckey) : bool :=
  match k with KTrue => true | KFalse => false | KLit v b => Bool.eqb (a v) b end.
