(* Refutation witness for the code AS IT IS at the pinned commit; outside the cone of Props.v.
   For the CNF consisting of the unit clause [-1] dsharp writes the NNF file `nnf 1 0 1 / L -1`.
   _load_nnf turns the line into the atom node 1 and remembers the sign only in its local
   line2node table; the DDNNF's root is implicitly its last node read positively
   (SimpleDDNNFEvaluator.get_root_weight uses len(formula)), so the returned circuit is [Atom 1]:
   the sign is lost and the circuit is not equivalent to the CNF. *)
From Coq Require Import List Bool Arith.
From PL.C10 Require Import ModelCircuit.
Import ListNotations.

Theorem C10_single_negative_literal_root_refuted :
  exists a, c_evalb a [Atom 1] <> sat a [[(1, false)]].
Proof. exists (fun _ => true). vm_compute. discriminate. Qed.
