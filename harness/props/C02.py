"""C02 — programs with a cycle through negation are rejected, never answered.

Reference: Sem.gclassify (Coq): must_answer = no cycle through negation in the ground dependency graph;
must_reject = some total choice leaves an atom in the dependency cone of a query/evidence atom undefined in
the well-founded model; either = the rest.  Theorems: C02/Props.v.  Tie: the negative-cycle stream of
gen_program through the real pipeline."""
import os
import sys

sys.path.insert(0, os.path.join(os.path.dirname(os.path.dirname(os.path.dirname(os.path.abspath(__file__)))), "gen"))
import pl
import gen_program as gp
import sem_oracle as so
import c01_common as cc

META = {
    "id": "C02",
    "level": "proof",
    "technique": "Coq: well-founded model by alternating fixpoint, stratified => two-valued in every world, decidable classification; "
                 "differential run of the real engine on a negative-cycle program stream judged by the extracted classifier",
    "design_ref": "DESIGN.md §5 C02",
    "text": "The classification must_answer/must_reject/either is defined and proved sound in Coq; the engine's detector "
            "(checkCycle/createCycle) is tied to it by correspondence only.",
    "note": "Trusted: Coq kernel, extraction + OCaml driver, generator/encoder.",
}

WITNESSES = [
    "0.5::a. p :- \\+q. q :- \\+p. r :- a. query(r).",                 # either: loop irrelevant
    "0.5::a. p :- \\+q. q :- \\+p. r :- a. r :- p. query(r).",        # must_reject
    "p :- \\+p. query(p).",                                            # must_reject
    "0.4::f. p :- f, \\+q. q :- f, \\+p. query(p).",                    # must_reject (world f)
    "0.4::f. p :- \\+q. q :- \\+p. q :- f. query(f). evidence(p,true).",  # through evidence
    "0.3::p; 0.3::t :- \\+q. q :- \\+p. query(t).",                    # through an AD
    "m(a,b). m(b,a). w(X) :- m(X,Y), \\+w(Y). query(w(a)).",           # first-order, cyclic moves
    "m(a,b). m(b,c). w(X) :- m(X,Y), \\+w(Y). query(w(a)).",           # first-order, acyclic: must_answer
    "0.5::a. 0.5::b. p :- \\+q. p :- a. q :- r. r :- q. r :- p, b. query(p).",      # positive sub-cycle below the negation
    "0.5::a. 0.5::b. r :- p, b. r :- q. q :- r. p :- a. p :- \\+q. query(p).",      # same, other clause order
    "0.5::a. 0.5::b. p :- \\+q. p :- a. q :- r. r :- q. r :- p, b. query(q).",      # entered from inside the sub-cycle
    "0.5::a. 0.5::b. 0.5::c. p :- c, \\+q. p :- a. q :- r. r :- s. s :- q. s :- p, b. query(p).",
    "0.5::a. p :- a. p :- \\+q. q :- r. r :- q. r :- p. query(p).",                 # clean tree ANSWERS p: 1.0 (known finding)
    "0.6::b. p :- \\+q. r :- b. r :- q. q :- r. q :- p. query(q).",                 # clean tree ANSWERS q: 0.6 (known finding)
    "d1 :- d1. d1 :- \\+d2. d2 :- d2. query(d1).",                      # stratified; pinned tree raises NegativeCycle
    "d0 :- f3, f1. d0 :- d1, f0. d1 :- d0, \\+d0. 0.5::f0. 0.5::f1. 0.4::f3. query(d0).",  # DESIGN §7 observation: either
]


def _eval(p):
    return cc.impl_default(p.text())


REJECT = ("NegativeCycle", "GroundingError")


def run(ctx):
    ctx.cov["rule"] = ("negative-cycle stream: a stratified base program plus 1-2 negative-loop gadgets (even/odd/3-loops, through "
                       "ADs, facts, evidence, first-order win/move), about half made relevant to a query or evidence; non-trivial = "
                       "the oracle classifies must_reject, or must_answer with a predicate-level negative loop; distinct = program texts")
    ctx.assumptions += ["the engine's cycle detector is tied to the Coq classification by differential testing only",
                        "must_reject is relative to the dependency cone of the query and evidence atoms (DESIGN C02)"]
    cc.IMPL_CPU_TIMEOUT = ctx.n(10, 20)   # CPU seconds per evaluation (a non-terminating grounding costs exactly this)
    ctx.prove("C02/Props.v")
    try:
        so.build(ctx)
    except Exception as e:
        ctx.broken.append("oracle:extraction/build failed")
        ctx.notes.append(str(e)[-2000:])
        return
    if ctx.replay:
        progs = [gp.Prog.from_json(ctx.replay["replay"]["program"])]
    else:
        progs = [gp.parse_simple(w) for w in WITNESSES] + cc.load_corpus("C02")
        progs += [gp.gen_negcycle(ctx.rng) for _ in range(ctx.n(200, 5000))]
        # the stratified stream must never be rejected with NegativeCycle either
        progs += [gp.gen_program(ctx.rng) for _ in range(ctx.n(60, 1500))]
    ctx.log("classifying %d programs" % len(progs))
    klass = so.oracle_eval(ctx, progs, "class")
    ctx.log("implementation")
    impl = pl.pmap(_eval, progs)
    answer_idx = [i for i, k in enumerate(klass) if k == ("class", "must_answer")]
    refs = dict(zip(answer_idx, so.oracle_eval(ctx, [progs[i] for i in answer_idx], "fast")))
    state = {}
    for i, (p, k, im) in enumerate(zip(progs, klass, impl)):
        if k[0] != "class" or k[1] == "fuel":
            ctx.broken.append("oracle:%s while classifying %s" % (k, p.text().replace("\n", " ")[:200]))
            continue
        c = k[1]
        obs = "answered" if im[0] == "ok" else im[1]
        ctx.count("%s/%s" % (c, obs))
        f = p.features()
        ctx.case(p.key(), c == "must_reject" or (c == "must_answer" and f["neg_pred_cycle"]),
                 sample={"program": p.text(), "class": c, "implementation": str(im)[:200]})
        if c == "must_reject":
            if im[0] == "ok":
                def bad(q):
                    kk = cc.one_oracle(ctx, q, "class")
                    return kk == ("class", "must_reject") and cc.impl_default(q.text())[0] == "ok"
                small = gp.shrink(p, bad, max_steps=150) if state.get("mr", 0) < 3 else p
                state["mr"] = state.get("mr", 0) + 1
                ctx.violation("implementation answered %r although some total choice leaves a goal-relevant atom undefined "
                              "(well-founded model not two-valued): %s" % (cc.impl_default(small.text())[1], small.text().replace("\n", " ")),
                              {"program": small.to_json(), "class": "must_reject", "implementation": cc.impl_default(small.text()),
                               "original_program": p.text()},
                              klass=("negative-loop-closed-inside-positive-subcycle-answered"
                                     if cc.feat_negloop_closed_inside_positive_subcycle(small) else "answered-although-must-reject"))
            elif im[1] not in REJECT:
                ctx.count("must_reject-not-a-grounding-error:%s" % im[1])
        elif c == "must_answer":
            ref = refs[i]
            if ref[0] == "err" and ref[1] != "InconsistentEvidence":
                ctx.broken.append("oracle:%s on must_answer program %s" % (ref[1], p.text().replace("\n", " ")[:200]))
                continue
            # includes: raised NegativeCycle while must_answer
            cc.report_vs_oracle(ctx, p, im, ref, "must_answer program", state, cc.impl_default)
        # either: recorded only
    # the fast classifier against the specification Sem.classify (small propositional instances)
    small = [i for i, p in enumerate(progs) if gp.estimate_choices(p) <= 5 and not p.features()["first_order"]][:ctx.n(40, 400)]
    spec = so.oracle_eval(ctx, [progs[i] for i in small], "classspec")
    bad = [i for i, s in zip(small, spec) if s != klass[i]]
    ctx.cov["classspec_vs_class_checked"] = len(small)
    for i in bad[:3]:
        ctx.broken.append("correspondence:SemFast.fast_classify differs from Sem.classify on %s" % progs[i].text().replace("\n", " "))
