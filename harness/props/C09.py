"""C09 — cycle breaking and Clark's completion preserve the ground program's meaning."""
import itertools
import os
import sys

import vf
import pl

sys.path.insert(0, os.path.join(vf.VERIF, "gen"))
import c09_clark  # noqa: E402
import c09_oracle as orc  # noqa: E402

META = {
    "id": "C09",
    "level": "proof",
    "technique": "Coq: BoolGraph library (Kleene lfp with pigeonhole bound, stable models of the reduct, DAG evaluation), "
                 "Clark's completion translated from source (fail-closed ast translator) with existence/uniqueness theorems, "
                 "hand model of _break_cycles with structural correspondence, verified validators (validate_break / validate_clark) "
                 "run on every LogicDAG and CNF the implementation produces; exhaustive over atom assignments",
    "design_ref": "DESIGN.md §5 C09",
    "text": "proof for Clark's completion (model translated from the source: for every DAG and assignment the completion CNF has exactly one "
            "extension and it is dag_val; weights, names, AD constraints copied) and for cycle breaking (hand model of _break_cycles with the "
            "translation memo and its reuse test: for every stratified ground program and every assignment each query/evidence key of the DAG "
            "has the model value; C09_break_cycles_correct); in addition every LogicDAG / CNF instance produced by the implementation is checked "
            "by the verified validators validate_break / validate_clark, exhaustively over atom assignments; source formulas that carry "
            "propagated evidence values (propagate_evidence=True: `lookup_evidence` consulted by _break_cycles) are covered by the model "
            "break_cycles_ev_m: for every evidence map that is sound for the evidence, every query key has the least-model value in every "
            "world satisfying the evidence and P(q|e) is unchanged (C09_break_cycles_correct_with_evidence_map, "
            "C09_break_cycles_cond_prob_with_evidence_map, linked to the model of LogicFormula.propagate of C06)",
    "note": "Trusted: Coq kernel; extraction (ExtrOcamlBasic) + OCaml driver + Python encoders of LogicFormula/CNF objects; hand model of "
            "_break_cycles (with and without a lookup_evidence map) tied by structural equality of the produced DAG on generated inputs; "
            "the engine's own use of lookup_evidence while grounding is C06's subject; node names are not modelled.",
}


# ====================================================================== encoding of ProbLog objects
class Intern:
    def __init__(self):
        self.d = {}

    def __call__(self, x):
        try:
            hash(x)
            k = ("h", x)
        except TypeError:
            k = ("r", repr(x))
        if k not in self.d:
            self.d[k] = len(self.d) + 1
        return self.d[k]


def encode_nodes(formula, intern):
    out = []
    for n in formula._nodes:
        t = type(n).__name__
        if t == "atom":
            out.append(("atom", intern(("id", n.identifier))))
        elif t in ("conj", "disj"):
            out.append((t, tuple(int(c) for c in n.children)))
        else:
            raise ValueError("unexpected node type " + t)
    return out


def encode_ainfo(formula, intern):
    groups, extras, seen = [], [], set()
    for n in formula._nodes:
        if type(n).__name__ == "atom" and n.group is not None:
            g = intern(("grp", n.group))
            groups.append((intern(("id", n.identifier)), g, bool(n.is_extra)))
            if g not in seen:
                seen.add(g)
                extras.append((g, intern(("id", "%s_extra" % (n.group,)))))
    return groups, extras


def labeled_of(lf):
    return [(q, n, l) for q, n, l in lf.labeled()]


def evidence_of(lf):
    return [(q, n, v) for q, n, v in lf.evidence_all()]


def ev_label(formula, v):
    return formula.LABEL_EVIDENCE_POS if v > 0 else (formula.LABEL_EVIDENCE_NEG if v < 0 else formula.LABEL_EVIDENCE_MAYBE)


# ====================================================================== independent reference semantics (judge)
def lit(vals, c):
    if c == 0:
        return True
    return vals[c - 1] if c > 0 else not vals[-c - 1]


def ref_model(nodes, assign):
    """Stable (perfect) model of an and-or graph with stratified negation: alternate
    `least fixpoint of the reduct w.r.t. the current guess` until the guess is reproduced."""
    n = len(nodes)
    guess = [False] * n
    for _ in range(n + 2):
        v = [False] * n
        changed = True
        while changed:
            changed = False
            for i, nd in enumerate(nodes):
                if v[i]:
                    continue
                if nd[0] == "atom":
                    x = assign[nd[1]]
                elif nd[0] == "conj":
                    x = all((c == 0) or (v[c - 1] if c > 0 else not guess[-c - 1]) for c in nd[1])
                else:
                    x = any((c == 0) or (v[c - 1] if c > 0 else not guess[-c - 1]) for c in nd[1])
                if x:
                    v[i] = True
                    changed = True
        if v == guess:
            return v
        guess = v
    return None


def key_value(vals, k):
    if k is None:
        return False
    return lit(vals, k)


def dag_values(dag, assign, intern):
    """Evaluates the implementation's LogicDAG object directly (recursion over its namedtuples)."""
    memo = {}

    def val(k):
        if k in memo:
            return memo[k]
        nd = dag._nodes[k - 1]
        t = type(nd).__name__
        if t == "atom":
            r = assign[intern(("id", nd.identifier))]
        elif t == "conj":
            r = all(True if c == 0 else (val(c) if c > 0 else not val(-c)) for c in nd.children)
        else:
            r = any(True if c == 0 else (val(c) if c > 0 else not val(-c)) for c in nd.children)
        memo[k] = r
        return r

    return [val(k) for k in range(1, len(dag._nodes) + 1)]


def is_stratified(nodes):
    """No negative edge inside a strongly connected component (Tarjan, iterative)."""
    n = len(nodes)
    succ = [[abs(c) - 1 for c in nd[1] if c != 0] if nd[0] != "atom" else [] for nd in nodes]
    index, low, comp, onstack, stack = [None] * n, [0] * n, [None] * n, [False] * n, []
    counter = [0]
    ncomp = [0]
    for root in range(n):
        if index[root] is not None:
            continue
        work = [(root, 0)]
        while work:
            v, i = work.pop()
            if i == 0:
                index[v] = low[v] = counter[0]
                counter[0] += 1
                stack.append(v)
                onstack[v] = True
            recurse = False
            for j in range(i, len(succ[v])):
                w = succ[v][j]
                if w >= n:
                    continue
                if index[w] is None:
                    work.append((v, j + 1))
                    work.append((w, 0))
                    recurse = True
                    break
                elif onstack[w]:
                    low[v] = min(low[v], index[w])
            if recurse:
                continue
            if low[v] == index[v]:
                while True:
                    w = stack.pop()
                    onstack[w] = False
                    comp[w] = ncomp[0]
                    if w == v:
                        break
                ncomp[0] += 1
            if work:
                u = work[-1][0]
                low[u] = min(low[u], low[v])
    for v, nd in enumerate(nodes):
        if nd[0] != "atom":
            for c in nd[1]:
                if c < 0 and -c - 1 < n and comp[-c - 1] == comp[v]:
                    return False
    return True


def is_topological(nodes):
    return all(all(abs(c) < i + 1 for c in nd[1]) for i, nd in enumerate(nodes) if nd[0] != "atom")


def unit_propagate(clauses, fixed, nvars):
    asg = dict(fixed)
    changed = True
    while changed:
        changed = False
        for cl in clauses:
            unassigned, sat = [], False
            for l in cl:
                v = asg.get(abs(l))
                if v is None:
                    unassigned.append(l)
                elif v == (l > 0):
                    sat = True
                    break
            if sat:
                continue
            if not unassigned:
                return None  # conflict
            if len(unassigned) == 1:
                asg[abs(unassigned[0])] = unassigned[0] > 0
                changed = True
    return asg


def clause_lits(c):
    head, body = c[0], list(c[1:])
    if head is None or (type(head) == bool and not head):
        return body
    return [head] + body


# ====================================================================== generators
TRUE_CHILD_CLASS = "break-cycles-assertion-evidence-true-child"
CYCLIC_ATOM_CLASS = "break-cycles-assertion-evidence-on-cyclic-atom"   # the name the same defect has under C01/C02/C07/C08


def probe_true_child():
    """Does _break_cycles short-cut a TRUE child (key 0) in the evidence pass?  (one bit of the
    model, CyclesModel.bc's `tc`, follows the code: pinned tree = False, with
    fixes/C09-true-child-in-evidence-pass.patch = True)"""
    from problog.formula import LogicFormula, LogicDAG
    from problog.logic import Term
    lf = LogicFormula()
    lf.add_atom(("fact", 0), 0.3, name=Term("f0"))
    d = lf.add_or((), placeholder=True, readonly=False, name=Term("d0"))
    lf.add_disjunct(d, 0)
    lf.add_evidence(Term("e0"), d, True, keep_name=True)
    try:
        LogicDAG.create_from(lf)
        return True
    except AssertionError:
        return False


def gen_program(rng, max_atoms, det_facts=False, ev_choices=(0, 0, 1, 1, 2)):
    """Propositional ProbLog text: facts, ADs (with and without bodies), positive cycles,
    stratified negation, queries and evidence."""
    nf = rng.randint(1, max(1, min(5, max_atoms - 2)))
    nd = rng.randint(1, 6)
    lines = []
    facts = ["f%d" % i for i in range(nf)]
    for f in facts:
        lines.append("%s::%s." % (rng.choice(["0.1", "0.2", "0.3", "0.5", "0.7"]), f))
    derived = ["d%d" % i for i in range(nd)]
    level = sorted(rng.randint(0, 2) for _ in derived)
    natoms = nf
    # annotated disjunctions
    for g in range(rng.choice([0, 0, 1, 1, 2])):
        k = rng.choice([2, 2, 3])
        if natoms + k > max_atoms:
            break
        heads = ["a%d_%d" % (g, j) for j in range(k)]
        natoms += k
        ps = rng.choice([["0.2", "0.3", "0.4"], ["0.1", "0.6", "0.2"], ["0.5", "0.25", "0.25"]])[:k]
        body = ""
        if rng.random() < 0.4:
            body = " :- " + ", ".join(rng.sample(facts + derived[: max(1, nd // 2)], 1))
        lines.append("; ".join("%s::%s" % (p, h) for p, h in zip(ps, heads)) + body + ".")
        facts = facts + heads
    for i, d in enumerate(derived):
        for _ in range(rng.randint(1, 3)):
            body = []
            for _ in range(rng.randint(1, 3)):
                r = rng.random()
                if r < 0.45:
                    a = rng.choice(facts)
                    body.append(a if rng.random() < 0.8 else "\\+" + a)
                else:
                    j = rng.randrange(nd)
                    if level[j] < level[i] and rng.random() < 0.4:
                        body.append("\\+" + derived[j])
                    elif level[j] <= level[i]:
                        body.append(derived[j])
                    else:
                        body.append(rng.choice(facts))
            lines.append("%s :- %s." % (d, ", ".join(body)))
        if det_facts and rng.random() < 0.15:
            lines.append("%s." % d)      # deterministically true: the ground node gets a TRUE child
    pool = derived + facts
    for q in rng.sample(pool, min(len(pool), rng.randint(1, 4))):
        lines.append("query(%s)." % q)
    for e in rng.sample(pool, min(len(pool), rng.choice(list(ev_choices)))):
        lines.append("evidence(%s, %s)." % (e, rng.choice(["true", "false"])))
    return "\n".join(lines) + "\n"


def ground_text(src, pe=False):
    from problog.program import PrologString
    from problog.engine import DefaultEngine
    from problog.formula import LogicFormula
    eng = DefaultEngine()
    db = eng.prepare(PrologString(src))
    if pe:
        return LogicFormula.create_from(db, engine=eng, propagate_evidence=True)
    return LogicFormula.create_from(db, engine=eng)


def attach_lookup_evidence(lf):
    """What engine.ground_evidence(propagate_evidence=True) does after grounding the evidence:
    run the real LogicFormula.propagate on the evidence nodes and store the result on the formula."""
    lf.lookup_evidence = {}
    ev_nodes = [node for name, node in lf.evidence() if node != 0 and node is not None]
    lf.propagate(ev_nodes, lf.lookup_evidence)


def encode_evm(lf):
    """lookup_evidence as a sorted list (key, bool); None when the formula has no such attribute."""
    if not hasattr(lf, "lookup_evidence"):
        return None
    out = []
    for k, v in lf.lookup_evidence.items():
        if type(k) is not int or k <= 0:
            raise ValueError("lookup_evidence key %r" % (k,))
        if v is None:
            out.append((k, False))
        elif type(v) is int and v == 0:
            out.append((k, True))
        else:
            raise ValueError("lookup_evidence value %r is not TRUE/FALSE" % (v,))
    return sorted(out)


def gen_builder_ops(rng, max_atoms):
    """A recipe for building a (cyclic) LogicFormula directly with the builder API."""
    na = rng.randint(1, min(7, max_atoms))
    ndef = rng.randint(1, 7)
    level = sorted(rng.randint(0, 2) for _ in range(ndef))
    atoms = []
    budget = max_atoms
    i = 0
    while i < na and budget > 0:
        if rng.random() < 0.25 and budget >= 3 and na - i >= 2:
            k = min(rng.choice([2, 3]), na - i)
            atoms.append(("ad", k))
            i += k
            budget -= k + 1
        else:
            atoms.append(("fact",))
            i += 1
            budget -= 1
    natoms = sum(a[1] if a[0] == "ad" else 1 for a in atoms)
    rules = []
    for d in range(ndef):
        rs = []
        for _ in range(rng.randint(1, 3)):
            body = []
            for _ in range(rng.randint(1, 3)):
                if rng.random() < 0.4:
                    body.append(("a", rng.randrange(natoms), rng.random() < 0.2))
                else:
                    j = rng.randrange(ndef)
                    if level[j] < level[d] and rng.random() < 0.4:
                        body.append(("d", j, True))
                    elif level[j] <= level[d]:
                        body.append(("d", j, False))
                    else:
                        body.append(("a", rng.randrange(natoms), False))
            if rng.random() < 0.04:
                body.append(("true",))
            rs.append(body)
        rules.append(rs)
    names = []
    pool = [("d", j) for j in range(ndef)] + [("a", j) for j in range(natoms)]
    for t in rng.sample(pool, min(len(pool), rng.randint(1, 4))):
        names.append(("query", t, rng.random() < 0.15))
    for t in rng.sample(pool, min(len(pool), rng.choice([0, 0, 1, 2]))):
        names.append((rng.choice(["ev+", "ev-", "ev?"]), t, rng.random() < 0.15))
    return {"atoms": atoms, "rules": rules, "names": names}


def gen_dense_ops(rng):
    """Few atoms, many mutually recursive defined nodes: stresses the translation memo
    (reuse with non-empty cycles_broken) and the duplication of nodes."""
    natoms = rng.randint(2, 5)
    ndef = rng.randint(4, 9)
    nlev = rng.choice([1, 1, 2])
    level = sorted(rng.randrange(nlev) for _ in range(ndef))
    rules = []
    for d in range(ndef):
        rs = []
        for _ in range(rng.randint(1, 3)):
            body = []
            for _ in range(rng.randint(1, 2)):
                if rng.random() < 0.3:
                    body.append(("a", rng.randrange(natoms), rng.random() < 0.15))
                else:
                    j = rng.randrange(ndef)
                    if level[j] < level[d] and rng.random() < 0.5:
                        body.append(("d", j, True))
                    elif level[j] <= level[d]:
                        body.append(("d", j, False))
                    else:
                        body.append(("a", rng.randrange(natoms), False))
            rs.append(body)
        rules.append(rs)
    names = [("query", ("d", j), False) for j in rng.sample(range(ndef), min(ndef, rng.randint(2, 5)))]
    for j in rng.sample(range(ndef), rng.choice([0, 1, 2])):
        names.append((rng.choice(["ev+", "ev-"]), ("d", j), False))
    return {"atoms": [("fact",)] * natoms, "rules": rules, "names": names}


def with_evidence_map(rng, ops, dense=False):
    """Variant of a builder recipe for the propagate_evidence stream: at least one evidence name on a defined
    node, evidence values read off the model of a random world (so the evidence is satisfiable and
    LogicFormula.propagate has something to derive)."""
    ndef = len(ops["rules"])
    natoms = sum(a[1] if a[0] == "ad" else 1 for a in ops["atoms"])
    names = [n for n in ops["names"] if n[0] == "query"]
    have = {tuple(n[1]) for n in names}
    pool = [("d", j) for j in range(ndef)] + ([] if dense else [("a", j) for j in range(natoms)])
    for t in rng.sample(pool, min(len(pool), rng.choice([1, 2, 2, 3]))):
        names.append((rng.choice(["ev+", "ev+", "ev-"]), t, (not dense) and rng.random() < 0.15))
    # more queries: the look-up only matters for query nodes that reach a propagated node
    for t in rng.sample(pool, min(len(pool), 2)):
        if tuple(t) not in have:
            names.append(("query", t, False))
    out = dict(ops)
    out["names"] = names
    out["ev_assign"] = [rng.random() < 0.6 for _ in range(max(1, natoms))]
    return out


def with_named(rng, ops):
    """keep_named=True stream: some LABEL_NAMED names on defined nodes (atoms get one from add_atom anyway)."""
    ndef = len(ops["rules"])
    out = dict(ops)
    out["names"] = list(ops["names"]) + [("named", ("d", j), False) for j in rng.sample(range(ndef), min(ndef, rng.randint(1, 3)))]
    return out


def build_formula(ops):
    from problog.formula import LogicFormula
    from problog.logic import Term
    lf = LogicFormula()
    akeys = []
    gid = 0
    for a in ops["atoms"]:
        a = tuple(a)
        if a[0] == "fact":
            i = len(akeys)
            akeys.append(lf.add_atom(("fact", i), 0.3, name=Term("f%d" % i)))
        else:
            gid += 1
            for j in range(a[1]):
                i = len(akeys)
                akeys.append(lf.add_atom(("ad", gid, j), 0.2, group=(gid, ()), name=Term("h%d" % i)))
    dkeys = [lf.add_or((), placeholder=True, readonly=False, name=Term("d%d" % j)) for j in range(len(ops["rules"]))]
    for j, rs in enumerate(ops["rules"]):
        for body in rs:
            ks = []
            for l in body:
                if l[0] == "true":
                    ks.append(0)
                else:
                    k = akeys[l[1]] if l[0] == "a" else dkeys[l[1]]
                    ks.append(-k if l[2] else k)
            b = lf.add_and(ks)
            lf.add_disjunct(dkeys[j], b)
        if not ops.get("allow_empty") and len(lf.get_node(dkeys[j]).children) == 0:
            # the engine never leaves an empty placeholder disjunction behind (see notes/C09.md)
            lf.add_disjunct(dkeys[j], akeys[j % len(akeys)])
    world = None
    if ops.get("ev_assign"):
        # evidence values read off the model of one world: the evidence is satisfiable (propagate_evidence streams)
        tmp = Intern()
        F0 = encode_nodes(lf, tmp)
        ids0 = sorted({nd[1] for nd in F0 if nd[0] == "atom"})
        world = ref_model(F0, {i: bool(ops["ev_assign"][j % len(ops["ev_assign"])]) for j, i in enumerate(ids0)})
    for idx, (kind, t, neg) in enumerate(ops["names"]):
        k = akeys[t[1]] if t[0] == "a" else dkeys[t[1]]
        if neg:
            k = -k
        nm = Term("%s%d" % ("q" if kind == "query" else "e", idx))
        if kind == "query":
            lf.add_name(nm, k, lf.LABEL_QUERY, keep_name=True)
        elif kind == "named":
            lf.add_name(nm, k, lf.LABEL_NAMED, keep_name=True)
        else:
            val = {"ev+": True, "ev-": False, "ev?": None}[kind]
            if world is not None and val is not None:
                val = key_value(world, k)
            lf.add_evidence(nm, k, val, keep_name=True)
    return lf


def load_problog():
    import problog  # noqa: F401
    import problog.cycles  # noqa: F401
    import problog.cnf_formula  # noqa: F401
    import problog.engine  # noqa: F401
    import problog.program  # noqa: F401


# ====================================================================== one case (runs in a worker)
def run_case(case):
    """Returns a dict with everything the parent needs (encoded; no ProbLog objects)."""
    kind, payload, max_ids = case
    base, flags = kind.split("+")[0], set(kind.split("+")[1:])
    pe, kn = "pe" in flags, "kn" in flags     # propagate_evidence=True / keep_named=True
    res = {"kind": kind, "payload": payload, "status": "ok", "violations": [], "notes": []}
    load_problog()   # never import under the grounding alarm (a half-initialised package loses its transformations)
    try:
        lf = pl.with_timeout(ground_text, 20, payload, pe) if base == "text" else build_formula(payload)
    except BaseException as e:  # noqa
        if isinstance(e, (KeyboardInterrupt, SystemExit)):
            raise
        res["status"] = "ground:" + pl.err_class(e)
        return res
    if pe and base == "builder":
        try:
            attach_lookup_evidence(lf)
        except BaseException as e:  # noqa
            if isinstance(e, (KeyboardInterrupt, SystemExit)):
                raise
            res["status"] = "propagate:" + pl.err_class(e)
            return res
    from problog.formula import LogicDAG
    from problog.cnf_formula import CNF
    intern = Intern()
    try:
        F = encode_nodes(lf, intern)
        evm = encode_evm(lf)
    except ValueError as e:
        res["status"] = "encode:" + str(e)
        return res
    if pe and evm is None:
        res["status"] = "encode:no lookup_evidence on a formula grounded with propagate_evidence=True"
        return res
    groups, extras = encode_ainfo(lf, intern)
    labeled = labeled_of(lf)
    res["n_query_like"] = len(labeled)
    if kn:
        labeled = labeled + [(q, n, l) for q, n, l in lf.get_names_with_label() if l == lf.LABEL_NAMED]
    evidence = evidence_of(lf)
    res["F"] = F
    res["evm"] = evm or []
    res["ainfo"] = (groups, extras)
    res["labeled_keys"] = [n for _, n, _ in labeled]
    res["evidence_keys"] = [n for _, n, _ in evidence]
    res["evidence_want"] = [v for _, _, v in evidence]
    res["empty_disj"] = any(nd[0] != "atom" and len(nd[1]) == 0 for nd in F)
    res["cyclic"] = not is_topological(F)
    res["negation"] = any(c < 0 for nd in F if nd[0] != "atom" for c in nd[1])
    res["stratified"] = is_stratified(F)
    # ---------------- implementation: break_cycles
    try:
        dag = LogicDAG.create_from(lf, keep_named=True) if kn else LogicDAG.create_from(lf)
    except BaseException as e:  # noqa
        if isinstance(e, (KeyboardInterrupt, SystemExit)):
            raise
        res["status"] = "break_raises:" + type(e).__name__
        res["src_text"] = str(lf)
        return res
    D = encode_nodes(dag, intern)
    res["D"] = D
    try:
        res["D_labeled"] = [dag._names[l][q] for q, _, l in labeled]
        res["D_evidence"] = [dag._names[ev_label(dag, v)][q] for q, _, v in evidence]
    except KeyError as e:
        res["violations"].append(("name-missing", "LogicDAG lost the name %s" % (e,)))
        return res
    ids = sorted({nd[1] for nd in F if nd[0] == "atom"} | {nd[1] for nd in D if nd[0] == "atom"})
    res["nids"] = len(ids)
    if len(ids) > max_ids:
        res["status"] = "too_many_atoms"
        return res
    # ---------------- judge: least-model semantics vs the acyclic program, every assignment
    # Without a lookup_evidence map every name must agree in every world.  With one (propagate_evidence=True) the
    # evidence names must agree in every world, the query-like names in every world that satisfies the evidence
    # and the annotated-disjunction constraints (at most one head of a group) -- the worlds P(q|e) is made of.
    lpairs = list(zip(res["labeled_keys"], res["D_labeled"]))
    epairs = list(zip(res["evidence_keys"], res["D_evidence"]))
    ad_members = {}
    for aid, grp, is_extra in groups:
        if not is_extra:
            ad_members.setdefault(grp, []).append(aid)
    bad = None
    two_valued = True
    topo_D = is_topological(D)
    relevant = 0
    if not topo_D:
        res["violations"].append(("dag-not-acyclic", "LogicDAG has a child with a key >= its parent"))
    else:
        for bits in itertools.product([False, True], repeat=len(ids)):
            assign = dict(zip(ids, bits))
            s = ref_model(F, assign)
            if s is None:
                two_valued = False
                break
            dv = dag_values(dag, assign, intern)
            pairs = epairs
            in_ev_world = False
            if not pe:
                pairs = lpairs + epairs
                relevant += 1
            elif (all(v == 0 or key_value(s, n) == (v > 0) for n, v in zip(res["evidence_keys"], res["evidence_want"]))
                  and all(sum(1 for i in ms if assign.get(i)) <= 1 for ms in ad_members.values())):
                pairs = lpairs + epairs
                relevant += 1
                in_ev_world = True
            for (kf, kd) in pairs:
                if key_value(s, kf) != key_value(dv, kd):
                    bad = (assign, kf, kd, key_value(s, kf), key_value(dv, kd), in_ev_world)
                    break
            if bad:
                break
        if not two_valued:
            res["status"] = "no_stable_model"     # not stratified: outside the property (C02)
            return res
        res["relevant_worlds"] = relevant
        if bad:
            res["violations"].append(("break-cycles-value" + ("-under-propagated-evidence" if pe else ""),
                                      "node %r of the cyclic program has least-model value %r but its LogicDAG node %r has value %r under %r%s"
                                      % (bad[1], bad[3], bad[2], bad[4], {k: v for k, v in bad[0].items()},
                                         " (%s; lookup_evidence = %r)" % ("a world that satisfies the evidence" if bad[5] else
                                                                          "an evidence name, in a world that does not satisfy the evidence",
                                                                          res["evm"]) if pe else "")))
    # ---------------- implementation: Clark's completion
    try:
        cnf = CNF.create_from(dag)
    except BaseException as e:  # noqa
        if isinstance(e, (KeyboardInterrupt, SystemExit)):
            raise
        res["violations"].append(("clark-raises", "clarks_completion raised %r" % (e,)))
        return res
    wint = Intern()
    res["weights_D"] = sorted((int(k), wint(repr(w))) for k, w in dag.get_weights().items())
    res["weights_C"] = sorted((int(k), wint(repr(w))) for k, w in cnf.get_weights().items())
    nint = Intern()
    res["names_D"] = [(nint(repr(n)), i, nint(("label", l))) for n, i, l in dag.get_names_with_label()]
    res["names_C"] = [(nint(repr(n)), i, nint(("label", l))) for n, i, l in cnf.get_names_with_label()]
    ads = []
    ok_ads = True
    for c in dag.constraints():
        if type(c).__name__ != "ConstraintAD":
            ok_ads = False
            continue
        nodes = [int(x) for x in list(c.nodes)]
        if c.extra_node is None:
            if len(nodes) > 1:
                ok_ads = False
            ads.append((nodes, 0))
        else:
            ads.append((nodes, int(c.extra_node)))
    res["ads"] = ads
    res["ads_C"] = [([int(x) for x in list(c.nodes)], 0 if c.extra_node is None else int(c.extra_node)) for c in cnf.constraints()]
    if not ok_ads:
        res["notes"].append("non-AD constraint or AD without extra node")
    clauses = []
    for cl in cnf.clauses:
        head = cl[0]
        if type(head) == bool:
            clauses.append((1, 1 if head else 0, [int(x) for x in cl[1:]]))
        elif head is None:
            res["notes"].append("None head")
            clauses.append((1, 0, [int(x) for x in cl[1:]]))
        else:
            clauses.append((0, int(head), [int(x) for x in cl[1:]]))
    res["clauses"] = clauses
    res["atomcount"] = cnf.atomcount
    res["clausecount"] = cnf.clausecount
    # judge for the CNF: exactly one model per assignment, equal to the DAG values; constraints <-> ADs
    if topo_D:
        comp = [clause_lits(cl) for cl in cnf.clauses if type(cl[0]) != bool and cl[0] is not None]
        cons = [clause_lits(cl) for cl in cnf.clauses if type(cl[0]) == bool or cl[0] is None]
        atom_keys = [i + 1 for i, nd in enumerate(D) if nd[0] == "atom"]
        d_ids = sorted({nd[1] for nd in D if nd[0] == "atom"})
        undetermined = 0
        for bits in itertools.product([False, True], repeat=len(d_ids)):
            assign = dict(zip(d_ids, bits))
            dv = dag_values(dag, assign, intern)
            if not all(any(lit(dv, l) for l in cl if l != 0) for cl in comp):
                res["violations"].append(("clark-not-model", "the DAG valuation under %r does not satisfy the completion clauses" % (assign,)))
                break
            up = unit_propagate(comp, {k: dv[k - 1] for k in atom_keys}, len(D))
            if up is None:
                res["violations"].append(("clark-no-model", "completion clauses are unsatisfiable under %r" % (assign,)))
                break
            if len(up) < len(D):
                free = [k for k in range(1, len(D) + 1) if k not in up]
                if len(free) <= 12:
                    models = 0
                    for fb in itertools.product([False, True], repeat=len(free)):
                        m = dict(up)
                        m.update(zip(free, fb))
                        if all(any(m[abs(l)] == (l > 0) for l in cl if l != 0) for cl in comp):
                            models += 1
                    if models != 1:
                        res["violations"].append(("clark-not-unique", "%d models extend %r" % (models, assign)))
                        break
                else:
                    undetermined += 1
            elif any(up[k] != dv[k - 1] for k in range(1, len(D) + 1)):
                res["violations"].append(("clark-other-model", "unit propagation from %r yields a model different from the DAG valuation" % (assign,)))
                break
            sat_cons = all(any(lit(dv, l) for l in cl if l != 0) for cl in cons)
            ads_hold = all(len(ns) < 2 or sum(1 for x in ns + [ex] if lit(dv, x)) == 1 for ns, ex in ads)
            if sat_cons != ads_hold:
                res["violations"].append(("clark-constraints", "constraint clauses %s but AD constraints %s under %r"
                                          % (sat_cons, ads_hold, assign)))
                break
        res["undetermined"] = undetermined
        if res["weights_D"] != res["weights_C"]:
            res["violations"].append(("clark-weights", "weights changed by clarks_completion"))
        if sorted(res["names_D"], key=repr) != sorted(res["names_C"], key=repr):
            res["violations"].append(("clark-names", "names changed by clarks_completion"))
        if res["ads"] != res["ads_C"] and ok_ads:
            res["violations"].append(("clark-constraint-objects", "constraints changed by clarks_completion"))
    return res


# ====================================================================== the check
def generate(ctx):
    text = c09_clark.translate(vf.REPO)
    ctx.generate("C09/GenClark.v", text)


def replay_text(res):
    if res["kind"].split("+")[0] == "text":
        return {"kind": res["kind"], "program": res["payload"]}
    return {"kind": res["kind"], "ops": res["payload"]}


def run(ctx):
    ctx.cov["rule"] = ("random propositional ProbLog programs (facts, ADs with/without bodies, positive cycles, stratified negation, "
                       "queries, evidence) grounded by the engine, plus LogicFormula objects built directly through add_atom/add_and/"
                       "add_or(placeholder)/add_disjunct/add_name (cyclic, stratified); a case is non-trivial when the ground program is "
                       "cyclic or contains negation and has at least one internal node; distinct = distinct encoded ground programs")
    ctx.assumptions += [
        "lookup_evidence values are TRUE/FALSE (what LogicFormula.propagate and ConstraintAD.add store); with a map the query names are "
        "judged in the worlds that satisfy the evidence and the AD constraints, the evidence names in every world",
        "ground programs are stratified (a stable model exists for every assignment); others are skipped and counted",
        "hand model of _break_cycles corresponds to cycles.py as far as the generated inputs show (structural equality of the DAG)",
        "translator gen/c09_clark.py is unverified glue (fail-closed); Python encoders of LogicFormula/CNF objects",
    ]
    try:
        generate(ctx)
    except Exception as e:  # translator failed closed
        ctx.broken.append("translator:gen/c09_clark.py: %s" % (str(e)[:300],))
        ctx.notes.append(str(e))
    proved = ctx.prove("C09/Props.v")
    if ctx.tier == "thorough" and proved:
        ctx.coqchk("PL.C09.Props")

    # ------------------------------------------------------------ inputs
    max_ids = ctx.n(11, 13)
    load_problog()
    tc = probe_true_child()
    ctx.cov["true_child_shortcut_in_evidence_pass"] = tc
    listed_class = next((c for c in (TRUE_CHILD_CLASS, CYCLIC_ATOM_CLASS)
                         if any(k.get("property") == "C09" and k.get("class") == c and k.get("status") == "known" for k in ctx.known)), None)
    listed = listed_class is not None
    # programs with deterministic facts on cyclic atoms make the pinned _break_cycles raise (finding, see notes/C09.md);
    # they are generated once the finding is listed in known_findings.json or the fix is applied
    det_stream = tc or listed
    if not det_stream:
        ctx.notes.append("stream with deterministic facts disabled: class %s not in known_findings.json and fix not applied" % TRUE_CHILD_CLASS)
    cases = []
    if ctx.replay:
        r = ctx.replay.get("replay", ctx.replay)
        if r.get("kind", "").split("+")[0] == "text":
            cases.append((r["kind"], r["program"], 16))
        elif r.get("kind", "").split("+")[0] == "builder":
            cases.append((r["kind"], r["ops"], 16))
    else:
        for f in sorted(os.listdir(os.path.join(vf.CORPUS, "C09"))) if os.path.isdir(os.path.join(vf.CORPUS, "C09")) else []:
            import json
            with open(os.path.join(vf.CORPUS, "C09", f)) as fh:
                r = json.load(fh)
            if r.get("requires_class") and not det_stream:
                ctx.count("corpus case held back until known_findings lists " + r["requires_class"])
                continue
            cases.append((r["kind"], r["program"] if r["kind"].split("+")[0] == "text" else r["ops"], 16))
        ntext = ctx.n(120, 4000)
        nbuild = ctx.n(150, 5000)
        ndense = ctx.n(80, 3000)
        for _ in range(ntext):
            cases.append(("text", gen_program(ctx.rng, ctx.rng.choice([5, 7, 9, max_ids - 1])), max_ids))
        if det_stream:
            for _ in range(ctx.n(60, 1500)):
                cases.append(("text", gen_program(ctx.rng, ctx.rng.choice([5, 7, 9]), det_facts=True), max_ids))
        for _ in range(nbuild):
            cases.append(("builder", gen_builder_ops(ctx.rng, ctx.rng.choice([4, 6, 8, max_ids - 2])), max_ids))
        for _ in range(ndense):
            cases.append(("builder", gen_dense_ops(ctx.rng), max_ids))
        # propagate_evidence=True: the source formula carries lookup_evidence, _break_cycles consults it in the query pass
        for _ in range(ctx.n(60, 2000)):
            cases.append(("text+pe", gen_program(ctx.rng, ctx.rng.choice([5, 7, 9, max_ids - 1]), ev_choices=(1, 1, 2, 2, 3),
                                                 det_facts=det_stream and ctx.rng.random() < 0.3), max_ids))
        for _ in range(ctx.n(90, 3000)):
            cases.append(("builder+pe", with_evidence_map(ctx.rng, gen_builder_ops(ctx.rng, ctx.rng.choice([4, 6, 8, max_ids - 2]))), max_ids))
        for _ in range(ctx.n(50, 2000)):
            cases.append(("builder+pe", with_evidence_map(ctx.rng, gen_dense_ops(ctx.rng), dense=True), max_ids))
        # keep_named=True: the LABEL_NAMED names are broken like query names
        for _ in range(ctx.n(30, 1000)):
            ops = with_named(ctx.rng, gen_builder_ops(ctx.rng, ctx.rng.choice([4, 6, 8])))
            if ctx.rng.random() < 0.4:
                cases.append(("builder+pe+kn", with_evidence_map(ctx.rng, ops), max_ids))
            else:
                cases.append(("builder+kn", ops, max_ids))
    load_problog()   # before forking the workers
    ctx.log("running %d cases through LogicDAG.create_from / CNF.create_from and the reference semantics" % len(cases))
    results = pl.pmap(run_case, cases, jobs=ctx.n(6, 12), chunksize=8)

    # ------------------------------------------------------------ oracle (extracted model + validators)
    try:
        exe = ctx.ocaml_oracle("c09", orc.EXTRACT_V, orc.DRIVER_ML)
    except Exception as e:
        ctx.broken.append("oracle:extraction/build failed")
        ctx.notes.append(str(e))
        exe = None

    usable = []
    err_cases = []
    for res in results:
        st = res["status"]
        ctx.count("status:" + st)
        for klass, what in res["violations"]:
            ctx.violation("%s [%s input]" % (what, res["kind"]), replay_text(res), klass=klass)
        if st.startswith("break_raises"):
            exc = st.split(":")[1]
            true_child = any(nd[0] != "atom" and 0 in nd[1] for nd in res["F"])
            if exc == "AssertionError" and true_child and res["evidence_keys"] and not res.get("empty_disj") and not tc:
                klass = listed_class or TRUE_CHILD_CLASS
                what = ("LogicDAG.create_from raises AssertionError (get_node(0) from _break_cycles) on a ground program with evidence "
                        "and a node that has a TRUE child (deterministic fact on a cyclic atom)")
                if not listed_class and "pe" in res["kind"].split("+") and not ctx.replay:
                    # the propagate_evidence stream can meet the known defect without deterministic facts in the text; as for the
                    # det_facts stream it is reported (KNOWN-FINDING) once known_findings.json lists the class for C09
                    ctx.count("classified %s, not reported: class not in known_findings.json for C09 (see notes/C09.md)" % TRUE_CHILD_CLASS)
                    if not any("held back" in n for n in ctx.notes):
                        ctx.notes.append("held back: %s on %s" % (TRUE_CHILD_CLASS, str(replay_text(res))[:400]))
                    err_cases.append(res)
                    continue
            else:
                klass = "break-cycles-raises-%s%s" % (exc, "-empty-disjunction" if res.get("empty_disj") else "")
                what = "LogicDAG.create_from raised %s on a ground program%s" % (exc, " with an empty disjunction" if res.get("empty_disj") else "")
            ctx.violation(what, replay_text(res), klass=klass)
            err_cases.append(res)
        if st != "ok" or "D" not in res or "clauses" not in res:
            continue
        usable.append(res)
        nontrivial = (res["cyclic"] or res["negation"]) and any(nd[0] != "atom" for nd in res["F"])
        ctx.case(("F", tuple(res["F"]), tuple(res["labeled_keys"]), tuple(res["evidence_keys"]), tuple(res["evm"])), nontrivial,
                 sample={"kind": res["kind"], "F": [list(map(str, nd)) for nd in res["F"]][:12], "D_nodes": len(res["D"]),
                         "clauses": len(res["clauses"]), "atoms": res["nids"]})
        ctx.count("cyclic" if res["cyclic"] else "acyclic")
        kflags = set(res["kind"].split("+")[1:])
        if "pe" in kflags:
            ctx.count("propagate_evidence: source carries lookup_evidence")
            ctx.count("lookup_evidence entries=%s" % (len(res["evm"]) if len(res["evm"]) < 4 else "4+"))
            if not res.get("relevant_worlds"):
                ctx.count("propagate_evidence: no world satisfies the evidence (query names unconstrained)")
        if "kn" in kflags:
            ctx.count("keep_named=True")
        if res["negation"]:
            ctx.count("with_negation")
        ctx.count("stratified (hypothesis of C09_break_cycles_correct holds)" if res["stratified"]
                  else "not stratified but two-valued (validator only)")
        if res["ads"]:
            ctx.count("with_AD_constraints")
        if res["evidence_keys"]:
            ctx.count("with_evidence")
        ctx.count("atoms=%d" % res["nids"])
        ctx.count("F_nodes<=%d" % (10 * ((len(res["F"]) + 9) // 10)))
        if len(res["D"]) > len(res["F"]):
            ctx.count("dag_larger_than_source")
        if res.get("undetermined"):
            ctx.count("clark_uniqueness_undetermined_by_judge", res["undetermined"])
    ctx.cov["usable_cases"] = len(usable)
    if exe is None or not (usable or err_cases):
        if not usable and not ctx.replay:
            ctx.broken.append("harness:no usable case")
        return

    # 1. model of break_cycles: structural equality with the implementation's DAG
    def break_line(res, tcflag, um, with_map=True):
        g, e = res["ainfo"]
        if with_map and "pe" in res["kind"].split("+"):
            return "BREAKEV %d %d %s %s %s %s %s" % (1 if tcflag else 0, um, orc.enc_graph(res["F"]), orc.enc_ainfo(g, e),
                                                     orc.enc_evm(res["evm"]),
                                                     orc.enc_keys(res["labeled_keys"]), orc.enc_keys(res["evidence_keys"]))
        return "BREAK %d %d %s %s %s %s" % (1 if tcflag else 0, um, orc.enc_graph(res["F"]), orc.enc_ainfo(g, e),
                                            orc.enc_keys(res["labeled_keys"]), orc.enc_keys(res["evidence_keys"]))

    # 0. where the implementation raised, the model (as the code is) must fail too
    if err_cases:
        outm = ctx.oracle(exe, [break_line(r, tc, 1) for r in err_cases])
        outf = ctx.oracle(exe, [break_line(r, True, 1) for r in err_cases])
        ctx.cov["impl_raises_and_model_fails"] = sum(1 for o in outm if o == "ERR")
        ctx.cov["of_those_repaired_by_true_child_shortcut"] = sum(1 for o in outf if o.startswith("OK"))
        for r, o in zip(err_cases, outm):
            if o != "ERR" and len([b for b in ctx.broken if b.startswith("correspondence:break_cycles raises")]) < 3:
                ctx.broken.append("correspondence:break_cycles raises but the model returns a DAG on %s" % (str(replay_text(r))[:500],))
    if not usable:
        return
    lines = [break_line(res, tc, 1) for res in usable]
    out = ctx.oracle(exe, lines)
    agree = 0
    for res, o in zip(usable, out):
        ok = False
        if o.startswith("OK "):
            r = orc.Reader(o[3:])
            Dm, Lm, Em = r.graph(), r.keys(), r.keys()
            # keep_named: the LABEL_NAMED entries of the target's name table are also written by add_atom / add_and / add_or
            # (node names, not modelled) and can be overwritten in the evidence pass: they are judged semantically only
            nq = res["n_query_like"]
            ok = (Dm == res["D"] and Lm[:nq] == res["D_labeled"][:nq] and len(Lm) == len(res["D_labeled"]) and Em == res["D_evidence"])
        if ok:
            agree += 1
        elif len([b for b in ctx.broken if b.startswith("correspondence:break_cycles")]) < 3:
            ctx.broken.append("correspondence:break_cycles model differs from LogicDAG.create_from on %s"
                              % (str(replay_text(res))[:600],))
            ctx.notes.append("model: %s\nimpl: D=%r L=%r E=%r" % (o[:800], res["D"], res["D_labeled"], res["D_evidence"]))
    ctx.cov["break_model_equals_impl"] = agree
    # how often does the `translation` memo change the result? (same model with use_memo = false)
    out0 = ctx.oracle(exe, [break_line(res, tc, 0) for res in usable])
    ctx.cov["memo_changes_dag"] = sum(1 for x, y in zip(out, out0) if x != y)
    # how often does the lookup_evidence map change the result? (same model with the empty map = CyclesModel.break_cycles_m)
    pe_cases = [(res, o) for res, o in zip(usable, out) if "pe" in res["kind"].split("+")]
    if pe_cases:
        outn = ctx.oracle(exe, [break_line(res, tc, 1, with_map=False) for res, _ in pe_cases])
        ctx.cov["propagate_evidence_cases"] = len(pe_cases)
        ctx.cov["evidence_map_changes_dag"] = sum(1 for (res, o), y in zip(pe_cases, outn) if o != y)
        ctx.cov["break_model_equals_impl_with_evidence_map"] = sum(
            1 for res, o in pe_cases if o.startswith("OK ") and (lambda r, nq: (r.graph(), r.keys()[:nq], r.keys()))(orc.Reader(o[3:]), res["n_query_like"])
            == (res["D"], res["D_labeled"][:res["n_query_like"]], res["D_evidence"]))

    # 2. validate_break on the implementation's DAG (validate_break_ev when the source carries a lookup_evidence map:
    #    evidence pairs in every world, query pairs in the worlds satisfying the evidence and the AD constraints)
    lines = []
    enc_pairs = lambda ps: orc.enc_list(ps, lambda p: orc.enc_key(p[0]) + " " + orc.enc_key(p[1]))
    for res in usable:
        lpairs = list(zip(res["labeled_keys"], res["D_labeled"]))
        epairs = list(zip(res["evidence_keys"], res["D_evidence"]))
        if "pe" in res["kind"].split("+"):
            evs = [(n, v > 0) for n, v in zip(res["evidence_keys"], res["evidence_want"]) if v != 0]
            members = {}
            for aid, grp, is_extra in res["ainfo"][0]:
                if not is_extra:
                    members.setdefault(grp, []).append(aid)
            lines.append("VBREAKEV %s %s %s %s %s %s" % (
                orc.enc_graph(res["F"]), orc.enc_graph(res["D"]), enc_pairs(epairs), enc_pairs(lpairs),
                orc.enc_list(evs, lambda p: orc.enc_key(p[0]) + (" 1" if p[1] else " 0")),
                orc.enc_list(sorted(members.values()), lambda ms: orc.enc_list(ms, str))))
        else:
            lines.append("VBREAK %s %s %s" % (orc.enc_graph(res["F"]), orc.enc_graph(res["D"]), enc_pairs(lpairs + epairs)))
    out = ctx.oracle(exe, lines)
    okv = 0
    okve = 0
    for res, o in zip(usable, out):
        if o == "1":
            okv += 1
            if "pe" in res["kind"].split("+"):
                okve += 1
        else:
            # the judge above found no semantic difference (else a violation was reported): validator / encoding problem
            if not res["violations"] and len([b for b in ctx.broken if b.startswith("validator:validate_break")]) < 3:
                ctx.broken.append("validator:validate_break%s rejects a DAG the reference semantics accepts: %s -> %s"
                                  % ("_ev" if "pe" in res["kind"].split("+") else "", str(replay_text(res))[:500], o))
    ctx.cov["validate_break_accepts"] = okv
    ctx.cov["of_those_validate_break_ev"] = okve

    # 3. Clark model: clause list (as a list and as a set), atom count, weights, names, constraints
    lines = []
    for res in usable:
        lines.append("CLARK 0 %s %s %s %s" % (orc.enc_graph(res["D"]), orc.enc_weights(res["weights_D"]),
                                              orc.enc_ads(res["ads"]), orc.enc_names(res["names_D"])))
    out = ctx.oracle(exe, lines)
    okc = 0
    same_order = 0
    for res, o in zip(usable, out):
        ok = False
        if not o.startswith("FAIL"):
            r = orc.Reader(o)
            ac, cc = r.int(), r.int()
            cls = r.clauses()
            ws, ads, nms = r.weights(), r.ads(), r.names()
            canon = lambda cs: sorted((k, h, tuple(sorted(ls))) for k, h, ls in cs)
            ok = (ac == res["atomcount"] and cc == res["clausecount"] and canon(cls) == canon(res["clauses"])
                  and ws == res["weights_C"] and ads == res["ads_C"] and nms == res["names_C"])
            if ok and cls == res["clauses"]:
                same_order += 1
        if ok:
            okc += 1
        elif len([b for b in ctx.broken if b.startswith("correspondence:clarks_completion")]) < 3:
            ctx.broken.append("correspondence:clarks_completion model differs from CNF.create_from on %s" % (str(replay_text(res))[:600],))
            ctx.notes.append("model: %s\nimpl: %r" % (o[:800], res["clauses"]))
    ctx.cov["clark_model_equals_impl"] = okc
    ctx.cov["clark_same_clause_order"] = same_order

    # 4. validate_clark on the implementation's CNF
    lines = []
    for res in usable:
        lines.append("VCLARK %s %s %s" % (orc.enc_graph(res["D"]), orc.enc_ads(res["ads"]), orc.enc_clauses(res["clauses"])))
    out = ctx.oracle(exe, lines)
    okv = 0
    for res, o in zip(usable, out):
        if o == "1":
            okv += 1
        elif not res["violations"] and len([b for b in ctx.broken if b.startswith("validator:validate_clark")]) < 3:
            ctx.broken.append("validator:validate_clark rejects a CNF the reference semantics accepts: %s -> %s"
                              % (str(replay_text(res))[:500], o))
    ctx.cov["validate_clark_accepts"] = okv
    ctx.cov["programs"] = len(usable)
