"""C07 — marginals do not depend on the textual order of the program.

Theorems (C07/Props.v): Sem.prob is invariant under Permutation of statements and of rule bodies.
Tie: for each generated program, k seeded permutations of the statements and of the rule bodies (negated
literals kept after the positive literals that bind their variables) through the real pipeline, compared
with the original's result and with the oracle."""
import os
import sys

sys.path.insert(0, os.path.join(os.path.dirname(os.path.dirname(os.path.dirname(os.path.abspath(__file__)))), "gen"))
import pl
import gen_program as gp
import sem_oracle as so
import c01_common as cc

META = {
    "id": "C07",
    "level": "proof",
    "technique": "Coq: permutation invariance of the distribution semantics (statements, clause bodies); differential run of "
                 "seeded permutations through the real pipeline against the original order and the extracted oracle",
    "design_ref": "DESIGN.md §5 C07",
    "text": "Order independence is a theorem about Sem.prob; the engine (clause index order, left-to-right conjunction, "
            "cycle detection) is tied to it by correspondence.",
    "note": "Trusted: Coq kernel, extraction + OCaml driver, generator/encoder/permuter.",
}

WITNESSES = [
    "0.3::e(a,a). 0.4::e(a,b). 0.5::e(b,a). loop :- e(X,X). link :- e(X,Y). both :- e(X,X), e(Y,Z). query(loop). query(link). query(both).",
    "0.3::e(a,a). 0.4::e(a,b). 0.5::e(b,a). link :- e(X,Y). loop :- e(X,X). half(X) :- e(a,X). query(e(X,X)). query(e(X,Y)). query(half(X)). query(link).",
    "0.3::d0. d1 :- d0. 0.1::a; 0.2::d1 :- d1, \\+d0, d0. query(a). query(d1).",
    "d1 :- d1. d1 :- \\+d2. d2 :- d2. query(d1).",
    "0.1::f0. d3 :- f0, d3. d3 :- \\+f0, f0. query(d3).",
]


def _eval(p):
    return cc.impl_default(p.text())


def crosses_recursive_call(orig, perm):
    """did some body change the relative order of a literal and a literal of a recursive (same-SCC-ish:
    predicate that reaches the head predicate) call?"""
    edges = orig.pred_graph()
    succ = {}
    for h, b, _ in edges:
        succ.setdefault(h, set()).add(b)

    def reaches(x, y):
        seen, todo = set(), [x]
        while todo:
            u = todo.pop()
            for w in succ.get(u, ()):
                if w == y:
                    return True
                if w not in seen:
                    seen.add(w)
                    todo.append(w)
        return False
    for s, t in zip(orig.stmts, perm.stmts):
        if s[0] in ("rule", "ad") and s[2] != t[2]:
            heads = [(h[0], len(h[1])) for h in gp.stmt_heads(s)]
            for pos, a in s[2]:
                k = (a[0], len(a[1]))
                if any(k == h or reaches(k, h) for h in heads):
                    return True
    return False


def run(ctx):
    ctx.cov["rule"] = ("generated C01-fragment programs (+ fixed witnesses, corpus/C07), each with k permutations: statement "
                       "shuffles and body shuffles (negated literals after their binders); non-trivial = a permutation that really "
                       "changes the text of a program with a rule body; distinct = distinct permuted texts")
    ctx.assumptions += ["the engine is tied to the Coq semantics by differential testing only"]
    cc.IMPL_CPU_TIMEOUT = ctx.n(10, 20)   # CPU seconds per evaluation (a non-terminating grounding costs exactly this)
    ctx.prove("C07/Props.v")
    try:
        so.build(ctx)
    except Exception as e:
        ctx.broken.append("oracle:extraction/build failed")
        ctx.notes.append(str(e)[-2000:])
        return
    if ctx.replay:
        base = [gp.Prog.from_json(ctx.replay["replay"]["original"])]
        kperm = 6
    else:
        base = [gp.parse_simple(w) for w in WITNESSES] + cc.load_corpus("C07")
        base += [gp.gen_program(ctx.rng) for _ in range(ctx.n(50, 1500))]
        kperm = ctx.n(6, 10)
    variants = []   # (base index, kind, prog)
    for bi, p in enumerate(base):
        variants.append((bi, "original", p))
        for j in range(kperm):
            if j % 2 == 0:
                q = gp.permute_statements(p, ctx.rng)
                kind = "statements"
            else:
                q, moved = gp.permute_bodies(p, ctx.rng)
                kind = "bodies"
                if moved and crosses_recursive_call(p, q):
                    ctx.count("body-permutation-across-recursive-call")
                if moved and ctx.rng.random() < 0.5:
                    q = gp.permute_statements(q, ctx.rng)
                    kind = "bodies+statements"
            variants.append((bi, kind, q))
    progs = [v[2] for v in variants]
    ctx.log("oracle on %d programs (%d base)" % (len(progs), len(base)))
    ref = so.oracle_eval(ctx, progs, "fast")
    ctx.log("implementation")
    impl = pl.pmap(_eval, progs)
    first = {}
    state = {}
    for (bi, kind, p), r, im in zip(variants, ref, impl):
        if kind == "original":
            first[bi] = (p, r, im)
            if r[0] == "err" and r[1] != "InconsistentEvidence":
                ctx.broken.append("oracle:%s on %s" % (r[1], p.text().replace("\n", " ")[:200]))
            continue
        p0, r0, im0 = first[bi]
        changed = p.text() != p0.text()
        ctx.case(p.key(), changed and any(s[0] in ("rule", "ad") and s[2] for s in p.stmts),
                 sample={"original": p0.text(), "permuted": p.text(), "kind": kind})
        ctx.count("kind:" + kind)
        if r != r0:
            # the oracle itself must be order independent (theorem); a difference means broken glue
            ctx.broken.append("correspondence:oracle differs between a program and its %s permutation: %s" % (kind, p.text().replace("\n", " ")[:300]))
            continue
        if r0[0] == "err" and r0[1] != "InconsistentEvidence":
            continue
        if pl.same_result(im, im0):
            ctx.count("same-as-original")
            # both orders agree with each other; disagreement with the semantics is C01's business, but
            # is reported here too when the permuted order is the wrong one
            if cc.kind_of(im, r) is not None and cc.kind_of(im0, r0) is not None:
                ctx.count("both-orders-wrong (C01)")
            continue
        ctx.count("order-dependent")
        # which order is wrong w.r.t. the semantics?  classify on that one
        wrong, wim = (p, im) if cc.kind_of(im, r) is not None else (p0, im0)
        klass = cc.classify(wrong, wim, r)
        n = state.get(klass, 0)
        state[klass] = n + 1
        ctx.count("violation-class:%s" % klass)
        ctx.violation("result depends on textual order (%s): %s  versus  %s ; semantics: %s ; original: %s ; permuted: %s"
                      % (kind, im0, im, cc.ref_json(r), p0.text().replace("\n", " "), p.text().replace("\n", " ")),
                      {"original": p0.to_json(), "permuted": p.to_json(), "kind": kind, "implementation_original": im0,
                       "implementation_permuted": im, "semantics": cc.ref_json(r)}, klass=klass)
