"""C29 — extending a prepared database is equivalent to preparing the union (problog/clausedb.py)."""
import os
import random
import sys

import vf
import pl

sys.path.insert(0, os.path.join(vf.VERIF, "gen"))
import c29_hist as H  # noqa: E402

META = {
    "id": "C29",
    "level": "proof",
    "technique": "Coq invariant proofs (for every statement history and every parent chain) over a hand model of the "
                 "ClauseDB node store + differential correspondence (whole node tables, heads, redirects, rendered "
                 "definition lists) + property-level judge against preparing the union program from scratch",
    "design_ref": "DESIGN.md §5 C29",
    "text": "Theorems about a Gallina model of ClauseDB (chain of layers = parent pointers, offsets, redirects, AD compilation): "
            "extending is transparent for every later history of additions (definition lists per predicate equal those of the "
            "union, order preserved), the parent chain is never written, call nodes of every ancestor resolve to the extended "
            "definition at any nesting depth (C29_redirect_sound), AD group ids are fresh under group = len(self) and the "
            "partition of choices into groups is the source-level one (C29_group_ids_fresh, C29_extend_union_groups).  The model "
            "is tied to problog/clausedb.py by replaying "
            "random histories (facts/rules/ADs on new and existing predicates, nested and sibling extends) through both and "
            "comparing every layer's node table, heads and redirects, get_node on every index of every database (object identity) "
            "and the rendered definition lists; answers and "
            "probabilities of every database are judged against preparing the union program from scratch, and every parent's "
            "answers and tables before vs after.",
    "note": "Trusted: Coq kernel + vm_compute; hand-written model (correspondence is sampled); harness encoders/renderers; "
            "variable numbering, locations, scopes, externs, ClauseIndex argument indexing are not modelled.",
}

HEADER = """From Coq Require Import List Arith Bool NArith.
From PL.C29 Require Import ModelClauseDB.
Import ListNotations.
Definition n (x : N) : nat := N.to_nat x.
Arguments n x%N.
"""

K_GROUP = "ad-group-id-collision-across-extend"
K_NESTED = "nested-extend-redirect-not-chained"


def builtin_ids():
    from problog.engine import DefaultEngine
    b = DefaultEngine().get_builtins()
    return {"true/0": -b.get("true/0"), "call/1": -b.get("call/1")}


# ------------------------------------------------------------------ judging one history
def features(nodes):
    """input features used to name the defect class of a violation"""
    feats = set()
    for leaf in nodes:
        path = leaf.path()
        groups = {}
        redirect_vals = set()
        for depth, n in enumerate(path):
            for t in H.dump_layer(n.db)[0]:
                if t[0] == "choice" and t[2] == 0:
                    if t[1] in groups and groups[t[1]] != depth:
                        feats.add(K_GROUP)
                    groups.setdefault(t[1], depth)
            red = dict(H.dump_layer(n.db)[2])
            if depth >= 2 and any(k in redirect_vals for k in red):
                feats.add(K_NESTED)
            if depth >= 1:
                redirect_vals.update(red.values())
    return feats


def judge(acts):
    """Run a history on the implementation and judge it against the property.
    -> (failures, eng, nodes) ; failures = list of (kind, text)"""
    eng, nodes = H.run_history(acts)
    fails = []
    for n in nodes:
        stmts = n.path_stmts()
        obs = H.observe(eng, n.db, H.defined_of(stmts))
        ref, refdb = H.reference_obs(stmts)
        bad = H.same_obs(obs, ref)
        if bad:
            fails.append(("union", "database at depth %d: %s = %r but preparing the union gives %r"
                          % (len(n.path()) - 1, bad[0], obs.get(bad[0]), ref.get(bad[0]))))
        if n.before is not None:
            bad = H.same_obs(n.before, obs)
            if bad:
                fails.append(("parent", "parent database at depth %d changed its answer %s: %r before, %r after its extension was used"
                              % (len(n.path()) - 1, bad[0], n.before.get(bad[0]), obs.get(bad[0]))))
            if n.dump_before != [H.dump_layer(x.db) for x in n.path()]:
                fails.append(("parent-table", "node table / heads / redirects of a parent database at depth %d changed"
                              % (len(n.path()) - 1)))
        # definition lists against the statements of the path (the property's own reference)
        for f, ar in H.PREDS:
            got = H.real_abs(n.db, f, ar)
            want = H.spec_abs(stmts, f, ar)
            if got != want:
                fails.append(("deflist", "definition list of %s/%d seen through the database at depth %d is %r, the statements say %r"
                              % (f, ar, len(n.path()) - 1, got, want)))
                break
        # redirect soundness (any depth): calls of every ancestor reach the current definition
        bad = H.call_resolution_failures(n.db)
        if bad:
            fails.append(("callres", "database at depth %d: %s" % (len(n.path()) - 1, bad[0])))
    return fails, eng, nodes


def shrink(acts, pred):
    acts = list(acts)
    i = len(acts) - 1
    while i >= 0:
        cand = acts[:i] + acts[i + 1:]
        if any(a[0] != "add" for a in cand) and pred(cand):
            acts = cand
        i -= 1
    return acts


def history_text(acts):
    out = []
    for a in acts:
        out.append(H.txt_stmt(a[1]) if a[0] == "add" else ("<extend>" if a[0] == "extend" else "<branch up %d>" % a[1]))
    return " ".join(out)


def work(item):
    """one history: implementation run, judge, Coq case text"""
    seed, size, gmode, bids = item
    rng = random.Random(seed)
    acts = H.gen_history(rng, size)
    res = {"acts": acts, "violations": [], "cases": [], "stats": {}}
    try:
        fails, eng, nodes = judge(acts)
    except Exception as e:  # noqa
        res["violations"].append(("implementation raised %s: %r on %s" % (type(e).__name__, e, history_text(acts)),
                                  {"history": acts}, None))
        return res
    if fails:
        kinds = sorted(set(k for k, _ in fails))

        def still(c):
            try:
                f2, _, _ = judge(c)
            except Exception:  # noqa
                return False
            return any(k in kinds for k, _ in f2)
        small = shrink(acts, still)
        f2, _, n2 = judge(small)
        if not f2:                      # not reproducible on the shrunk history: report the original
            small = acts
            f2, _, n2 = fails, eng, nodes
        feats = features(n2)
        klass = None
        if all(k in ("union", "callres") for k, _ in f2):
            if feats == {K_GROUP}:
                klass = K_GROUP
            elif feats == {K_NESTED}:
                klass = K_NESTED
        res["violations"].append(("%s | history: %s" % (f2[0][1], history_text(small)),
                                  {"history": small, "failures": f2, "text": history_text(small)}, klass))
    # model tie: one Coq boolean per leaf path (whole tables of every layer + rendered definition lists of every database on the path)
    leaves = [n for n in nodes if not n.children]
    try:
        for leaf in leaves:
            path = leaf.path()
            # every big literal is its own Definition: elaboration of one huge term is superlinear
            defs = ["Definition @ops : list op := %s." % H.path_ops(path, bids)]
            lnames, anames = [], []
            for j, n in enumerate(reversed(path)):
                defs.append("Definition @L%d : list node * list (sig * nat) * list (nat * nat) := %s."
                            % (j, H.clayer_obs(H.dump_layer(n.db), n.parent is None)))
                lnames.append("@L%d" % j)
            for d, n in enumerate(path):
                defs.append("Definition @A%d : list (sig * list rclause) := %s." % (d, H.cabs_obs(n.db)))
                anames.append("abs_matches 60 (skipn %d c) @A%d" % (len(path) - 1 - d, d))
                # get_node of the model vs get_node of the implementation on EVERY index of EVERY database
                # of the path (any depth: this is where the chained redirect lookup shows)
                defs.append("Definition @G%d : list (nat * nat) := %s." % (d, H.cget_obs(path[:d + 1])))
                anames.append("gets_match (skipn %d c) @G%d" % (len(path) - 1 - d, d))
            # + call resolution on every node of the youngest database at any depth (a theorem now:
            #   Props.v C29_call_resolves; evaluated as a sanity check of the model on the sampled histories)
            expr = ("let c := run %s @ops root0 in chain_matches c %s && forallb (fun b => b) %s "
                    "&& forallb (call_resolves c) (seq 0 (size c))"
                    % (gmode, H.clist(lnames), H.clist(anames)))
            res["cases"].append({"defs": defs, "expr": expr})
    except ValueError as e:
        res["encode_error"] = "%s on %s" % (e, history_text(acts))
    st = res["stats"]
    st["dbs"] = len(nodes)
    st["maxdepth"] = max(len(n.path()) - 1 for n in nodes)
    st["stmts"] = sum(1 for a in acts if a[0] == "add")
    st["ads"] = sum(1 for a in acts if a[0] == "add" and a[1][0] == "ad")
    st["redefs"] = sum(len(H.dump_layer(n.db)[2]) for n in nodes if n.parent is not None)
    st["feats"] = sorted(features(nodes))
    st["siblings"] = any(len(n.children) > 1 for n in nodes)
    return res


def run(ctx):
    ctx.cov["rule"] = ("random histories: base program (1-6 statements) prepared with DefaultEngine().prepare, then up to N actions "
                       "add fact / rule / AD (55% on predicates already defined on the path), extend (depth <= 4), branch (sibling "
                       "extension of an ancestor); every database of the tree is queried (probability of every ground atom, "
                       "engine.query answer sets) and compared with preparing the union of its path from scratch; a history is "
                       "non-trivial when some child redefines a predicate of an ancestor (a redirect exists); distinct = distinct histories")
    ctx.assumptions += ["hand-written Gallina model corresponds to problog/clausedb.py only as far as the sampled histories show",
                        "a database is not added to after it has been extended (the property speaks about additions to the extension)",
                        "variable numbering (_AutoDict), locations, scopes, extern nodes, ClauseIndex argument indexing and the "
                        "library alias forall/2 are outside the model",
                        "the root loads library(builtin) and a child of the root loads it again (source_files is overwritten by createFrom); "
                        "the harness replays this as explicit model operations and the table comparison checks it"]
    ctx.prove("C29/Props.v")
    gmode = H.detect_group_mode(vf.REPO)
    ctx.cov["group_rule_in_code"] = gmode
    try:
        ctx.cov["redirect_lookup_in_code"] = H.detect_redirect_mode(vf.REPO)
    except ValueError as e:
        # the theorems speak about the chained lookup only: the tie is broken, but keep going so that the
        # judge can show concrete failing histories (call resolution / answers at depth >= 3)
        ctx.cov["redirect_lookup_in_code"] = "unrecognised"
        ctx.broken.append("correspondence:%s" % e)
    bids = builtin_ids()
    nh = ctx.n(80, 500)
    items = [(ctx.rng.randrange(1 << 30), ctx.rng.choice([4, 8, 12, 16]), gmode, bids) for _ in range(nh)]
    if ctx.replay and ctx.replay.get("replay", {}).get("history"):
        acts = [tuple(a) for a in _detuple(ctx.replay["replay"]["history"])]
        fails, _, nodes = judge(acts)
        ctx.log("replay: %d failures %r features=%r" % (len(fails), fails[:2], sorted(features(nodes))))
        for k, t in fails[:1]:
            ctx.violation(t, {"history": acts}, klass=None)
        return
    ctx.log("proofs checked; running %d histories" % nh)
    results = pl.pmap(work, items, jobs=4, chunksize=4)
    ctx.log("implementation runs done")
    cases, metas = [], []
    for it, r in zip(items, results):
        st = r["stats"]
        for what, rep, klass in r["violations"]:
            ctx.violation(what, rep, klass=klass)
            ctx.count("violating_histories")
        if "encode_error" in r:
            ctx.broken.append("correspondence:cannot encode implementation state: " + r["encode_error"])
        if st:
            ctx.case(repr(r["acts"]), st.get("redefs", 0) > 0,
                     sample={"history": history_text(r["acts"]), "stats": st})
            ctx.count("databases", st["dbs"])
            ctx.count("depth_%d" % st["maxdepth"])
            ctx.count("statements", st["stmts"])
            ctx.count("ad_statements", st["ads"])
            ctx.count("redirects", st["redefs"])
            ctx.count("histories_with_siblings", 1 if st["siblings"] else 0)
            for f in st["feats"]:
                ctx.count("feature:" + f)
        for c in r["cases"]:
            cases.append(c)
            metas.append(history_text(r["acts"]))
    from concurrent.futures import ThreadPoolExecutor
    per = 16
    shards = [list(range(i, min(i + per, len(cases)))) for i in range(0, len(cases), per)]

    def one(arg):
        k, idxs = arg
        defs, exprs = [], []
        for i in idxs:
            pre = "k%d_" % i
            defs += [d.replace("@", pre) for d in cases[i]["defs"]]
            exprs.append(cases[i]["expr"].replace("@", pre))
        r = ctx.coq_failing(HEADER + "\n".join(defs) + "\n", exprs, name="cdb%d" % k, shard=len(exprs) + 1, jobs=1)
        return [idxs[j] for j in r]
    try:
        bad = []
        with ThreadPoolExecutor(max_workers=6) as ex:
            for r in ex.map(one, enumerate(shards)):
                bad += r
    except RuntimeError as e:
        ctx.broken.append("correspondence:ClauseDB model does not evaluate")
        ctx.notes.append(str(e))
        return
    ctx.log("model evaluated on %d paths" % len(cases))
    ctx.cov["model_vs_impl_paths"] = len(cases)
    ctx.cov["model_vs_impl_agree"] = len(cases) - len(bad)
    for i in bad[:5]:
        ctx.broken.append("correspondence:ModelClauseDB vs problog.clausedb.ClauseDB on history %s" % (metas[i],))


def _detuple(x):
    if isinstance(x, list):
        return tuple(_detuple(y) for y in x)
    return x
