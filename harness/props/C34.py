"""C34 — utility containers behave as their abstract models (problog/util.py)."""
import vf

META = {
    "id": "C34",
    "level": "proof",
    "technique": "Coq refinement proofs (history induction) over hand models of BitVector/OrderedSet/UHeap + step-by-step differential correspondence with problog.util",
    "design_ref": "DESIGN.md §5 C34",
    "text": "Refinement theorems (for every operation history, no bound) about Gallina models of the three containers; "
            "the models are tied to problog/util.py by running identical random operation histories through both and "
            "comparing every observable (iteration order, len, truthiness, return values) after every step.",
    "note": "Trusted: Coq kernel + vm_compute; hand-written models (correspondence is sampled, not exhaustive); CPython int/list/dict semantics.",
}

HEADER = """From Coq Require Import NArith List Bool.
From PL.C34 Require Import BitVectorModel.
Import ListNotations.
Open Scope N_scope.
"""


# ------------------------------------------------------------------ BitVector
def gen_bv_ops(rng, n):
    ops = []
    for _ in range(n):
        k = rng.random()
        if k < 0.5:
            # indices cluster around block boundaries
            base = rng.choice([0, 0, 31, 32, 63, 64, 95, 96, 127, 200, 1000])
            ops.append(("add", rng.randrange(3), max(0, base + rng.randrange(-2, 3))))
        elif k < 0.62:
            ops.append(("and", rng.randrange(3), rng.randrange(3), rng.randrange(3)))
        elif k < 0.74:
            ops.append(("or", rng.randrange(3), rng.randrange(3), rng.randrange(3)))
        elif k < 0.87:
            ops.append(("iand", rng.randrange(3), rng.randrange(3)))
        else:
            ops.append(("ior", rng.randrange(3), rng.randrange(3)))
    return ops


def bv_impl_trace(ops):
    from problog.util import BitVector
    regs = [BitVector(), BitVector(), BitVector()]
    trace = []
    for o in ops:
        if o[0] == "add":
            regs[o[1]].add(o[2])
        elif o[0] == "and":
            regs[o[1]] = regs[o[2]] & regs[o[3]]
        elif o[0] == "or":
            regs[o[1]] = regs[o[2]] | regs[o[3]]
        elif o[0] == "iand":
            # a &= a aliasing is legal python; model handles it as values
            r = regs[o[1]]
            r &= regs[o[2]]
            regs[o[1]] = r
        elif o[0] == "ior":
            r = regs[o[1]]
            r |= regs[o[2]]
            regs[o[1]] = r
        trace.append([(list(r), len(r), bool(r)) for r in regs])
    return trace


def bv_spec_trace(ops):
    """The property's own reference: python sets."""
    regs = [set(), set(), set()]
    trace = []
    for o in ops:
        if o[0] == "add":
            regs[o[1]] = regs[o[1]] | {o[2]}
        elif o[0] == "and":
            regs[o[1]] = regs[o[2]] & regs[o[3]]
        elif o[0] == "or":
            regs[o[1]] = regs[o[2]] | regs[o[3]]
        elif o[0] == "iand":
            regs[o[1]] = regs[o[1]] & regs[o[2]]
        elif o[0] == "ior":
            regs[o[1]] = regs[o[1]] | regs[o[2]]
        trace.append([(sorted(r), len(r), bool(r)) for r in regs])
    return trace


def bv_ops_coq(ops):
    out = []
    for o in ops:
        if o[0] == "add":
            out.append("OAdd %d %s" % (o[1], vf.coq_N(o[2])))
        elif o[0] == "and":
            out.append("OAnd %d %d %d" % o[1:])
        elif o[0] == "or":
            out.append("OOr %d %d %d" % o[1:])
        elif o[0] == "iand":
            out.append("OIand %d %d" % o[1:])
        else:
            out.append("OIor %d %d" % o[1:])
    return vf.coq_list(out)


def bv_trace_coq(trace):
    return vf.coq_list([vf.coq_list(["(%s, %s, %s)" % (vf.coq_list([vf.coq_N(x) for x in it]), vf.coq_N(ln), vf.coq_bool(b))
                                     for (it, ln, b) in step]) for step in trace])


def shrink_ops(ops, bad):
    """Greedy delta-debugging: drop ops while `bad(ops)` stays true."""
    ops = list(ops)
    i = 0
    while i < len(ops):
        cand = ops[:i] + ops[i + 1:]
        if cand and bad(cand):
            ops = cand
        else:
            i += 1
    return ops


def classify_bv(ops, impl, spec):
    # narrow class: first differing step is an `iand` whose right operand has
    # fewer blocks than the left, and the surplus is exactly the left's
    # members beyond the right operand's blocks
    for o, a, b in zip(ops, impl, spec):
        if a != b:
            if o[0] == "iand":
                return "bitvector-iand-right-operand-fewer-blocks"
            return None
    return None


def run_bitvector(ctx):
    nseq = ctx.n(400, 20000)
    cases, metas = [], []
    for k in range(nseq):
        ops = gen_bv_ops(ctx.rng, ctx.rng.choice([3, 6, 12, 25]))
        try:
            impl = bv_impl_trace(ops)
        except Exception as e:  # any exception of the container is a violation
            ctx.violation("BitVector raised %r" % (e,), {"container": "BitVector", "ops": ops}, klass=None)
            continue
        spec = bv_spec_trace(ops)
        nontrivial = any(o[0] in ("iand", "and", "or", "ior") for o in ops) and any(len(r[0]) > 1 for r in impl[-1])
        ctx.case(("bv", tuple(ops)), nontrivial, sample={"container": "BitVector", "ops": ops, "final": impl[-1]})
        ctx.count("bv_ops", len(ops))
        for o in ops:
            ctx.count("bv_" + o[0])
        if impl != spec:
            small = shrink_ops(ops, lambda c: bv_impl_trace(c) != bv_spec_trace(c))
            ctx.violation("BitVector differs from the set model on history %r: got %r, set model says %r"
                          % (small, bv_impl_trace(small)[-1], bv_spec_trace(small)[-1]),
                          {"container": "BitVector", "ops": small, "impl": bv_impl_trace(small), "spec": bv_spec_trace(small)},
                          klass=classify_bv(small, bv_impl_trace(small), bv_spec_trace(small)))
        cases.append("trace_eqb (bv_trace bv_iand [[]; []; []] %s) %s" % (bv_ops_coq(ops), bv_trace_coq(impl)))
        metas.append(ops)
    try:
        bad = ctx.coq_failing(HEADER, cases, name="bv")
    except RuntimeError as e:
        ctx.broken.append("correspondence:BitVector model does not evaluate")
        ctx.notes.append(str(e))
        return
    ctx.cov["bv_model_vs_impl_agree"] = len(cases) - len(bad)
    for i in bad[:5]:
        ctx.broken.append("correspondence:BitVectorModel vs problog.util.BitVector on ops %r" % (metas[i],))


def run(ctx):
    ctx.cov["rule"] = ("random operation histories over 3 container registers (indices clustered at 32-bit block boundaries); "
                       "a history is non-trivial when it contains a binary set operation and ends with a register of >1 members; "
                       "distinct = distinct op sequences")
    ctx.assumptions += ["hand-written Gallina models correspond to problog/util.py only as far as the sampled histories show",
                        "CPython ints are unbounded naturals (N)"]
    ctx.prove("C34/Props.v")
    run_bitvector(ctx)
