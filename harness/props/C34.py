"""C34 — utility containers behave as their abstract models (problog/util.py).

Three containers, three hand models (coq/theories/C34/*Model.v), one Props.v.
For every container the tie runs identical random operation histories through
  (a) the real class in problog.util,
  (b) a Python reference specification written here (set / list / dict-of-keys) -> the judge,
  (c) the Coq model (vm_compute inside coqc) -> correspondence,
and compares every return value and the full observable state after every step.
"""
import os
import signal
import sys

import vf

sys.path.insert(0, os.path.join(vf.VERIF, "gen"))
import c34_oracle as orc  # noqa: E402

META = {
    "id": "C34",
    "level": "proof",
    "technique": "Coq refinement proofs (history induction) over hand models of BitVector/OrderedSet/UHeap + step-by-step differential correspondence with problog.util",
    "design_ref": "DESIGN.md §5 C34",
    "text": "Refinement theorems (for every operation history, no bound) about Gallina models of the three containers; "
            "the models are tied to problog/util.py by running identical random operation histories through both and "
            "comparing every observable (iteration order, len, truthiness, return values) after every step.",
    "note": "Trusted: Coq kernel + vm_compute; hand-written models (correspondence is sampled, not exhaustive); CPython int/list/dict semantics; "
            "extraction (ExtrOcamlBasic only) + ~60-line OCaml drivers per container for the volume path (a sample also goes through vm_compute without glue).",
}

HEADER = """From Coq Require Import NArith List Bool.
From PL.C34 Require Import BitVectorModel.
Import ListNotations.
Open Scope N_scope.
"""

OS_HEADER = """From Coq Require Import NArith List Bool.
From PL.C34 Require Import OrderedSetModel.
Import ListNotations.
"""

UH_HEADER = """From Coq Require Import NArith List Bool.
From PL.C34 Require Import UHeapModel.
Import ListNotations.
"""


class Nonterminating(Exception):
    pass


class time_limit:
    """A corrupted ring / heap can make the real class loop for ever: bound every run of the implementation."""

    def __init__(self, seconds=10.0):   # CPU seconds (ITIMER_VIRTUAL); healthy histories need milliseconds
        self.seconds = seconds

    def _fire(self, signum, frame):
        raise Nonterminating("implementation did not finish within %.0f s" % self.seconds)

    def __enter__(self):
        # CPU time of this process, not wall-clock: on a loaded machine a wall-clock alarm fires
        # on healthy code and would be reported as a non-terminating container (false alarm)
        self.old = signal.signal(signal.SIGVTALRM, self._fire)
        signal.setitimer(signal.ITIMER_VIRTUAL, self.seconds)

    def __exit__(self, *a):
        signal.setitimer(signal.ITIMER_VIRTUAL, 0)
        signal.signal(signal.SIGVTALRM, self.old)
        return False


MAX_REPORTS = 4   # per container and run: every further violating history is only counted


def report(ctx, container, what_fn):
    """Shrink + report at most MAX_REPORTS violations per container (shrinking hundreds of failing
    histories of a badly broken class would take the whole budget and flood replays/)."""
    n = ctx.hist.get(container + "_violating_histories", 0)
    ctx.count(container + "_violating_histories")
    if n < MAX_REPORTS:
        res = what_fn()
        if res is None or str(res[0]).endswith(": no difference"):
            # the failure did not reproduce when the history was run again (a limit fired on a
            # loaded machine): recorded, never reported
            ctx.count(container + "_transient_not_reproduced")
            ctx.hist[container + "_violating_histories"] -= 1
            return
        what, replay, klass = res
        ctx.violation(what, replay, klass=klass)


def shrink_ops(ops, bad):
    """Greedy delta-debugging: drop ops while `bad(ops)` stays true."""
    ops = list(ops)
    i = 0
    while i < len(ops):
        cand = ops[:i] + ops[i + 1:]
        if cand and bad(cand):
            ops = cand
        else:
            i += 1
    return ops


def tolist(x):
    """tuples -> lists (JSON replays give lists back)."""
    if isinstance(x, (list, tuple)):
        return [tolist(y) for y in x]
    return x


def totuple(x):
    if isinstance(x, (list, tuple)):
        return tuple(totuple(y) for y in x)
    return x


# ------------------------------------------------------------------ BitVector
def gen_bv_ops(rng, n):
    ops = []
    for _ in range(n):
        k = rng.random()
        if k < 0.5:
            # indices cluster around block boundaries
            base = rng.choice([0, 0, 31, 32, 63, 64, 95, 96, 127, 200, 1000])
            ops.append(("add", rng.randrange(3), max(0, base + rng.randrange(-2, 3))))
        elif k < 0.62:
            ops.append(("and", rng.randrange(3), rng.randrange(3), rng.randrange(3)))
        elif k < 0.74:
            ops.append(("or", rng.randrange(3), rng.randrange(3), rng.randrange(3)))
        elif k < 0.87:
            ops.append(("iand", rng.randrange(3), rng.randrange(3)))
        else:
            ops.append(("ior", rng.randrange(3), rng.randrange(3)))
    return ops


def bv_impl_trace(ops):
    from problog.util import BitVector
    regs = [BitVector(), BitVector(), BitVector()]
    trace = []
    for o in ops:
        if o[0] == "add":
            regs[o[1]].add(o[2])
        elif o[0] == "and":
            regs[o[1]] = regs[o[2]] & regs[o[3]]
        elif o[0] == "or":
            regs[o[1]] = regs[o[2]] | regs[o[3]]
        elif o[0] == "iand":
            # a &= a aliasing is legal python; model handles it as values
            r = regs[o[1]]
            r &= regs[o[2]]
            regs[o[1]] = r
        elif o[0] == "ior":
            r = regs[o[1]]
            r |= regs[o[2]]
            regs[o[1]] = r
        trace.append([(list(r), len(r), bool(r)) for r in regs])
    return trace


def bv_membership_ok(ops):
    """`in` (truthiness of __contains__) against iteration on the final state, probed around block boundaries."""
    from problog.util import BitVector
    regs = [BitVector(), BitVector(), BitVector()]
    for o in ops:
        if o[0] == "add":
            regs[o[1]].add(o[2])
        elif o[0] == "and":
            regs[o[1]] = regs[o[2]] & regs[o[3]]
        elif o[0] == "or":
            regs[o[1]] = regs[o[2]] | regs[o[3]]
        elif o[0] == "iand":
            regs[o[1]] &= regs[o[2]]
        elif o[0] == "ior":
            regs[o[1]] |= regs[o[2]]
    for r in regs:
        members = set(r)
        probe = set(members)
        for m in list(members)[:8]:
            probe.update((m + 1, m + 32, max(0, m - 1), max(0, m - 32)))
        probe.update((0, 31, 32, 5000))
        for x in probe:
            if bool(x in r) != (x in members):
                return False
    return True


def bv_spec_trace(ops):
    """The property's own reference: python sets."""
    regs = [set(), set(), set()]
    trace = []
    for o in ops:
        if o[0] == "add":
            regs[o[1]] = regs[o[1]] | {o[2]}
        elif o[0] == "and":
            regs[o[1]] = regs[o[2]] & regs[o[3]]
        elif o[0] == "or":
            regs[o[1]] = regs[o[2]] | regs[o[3]]
        elif o[0] == "iand":
            regs[o[1]] = regs[o[1]] & regs[o[2]]
        elif o[0] == "ior":
            regs[o[1]] = regs[o[1]] | regs[o[2]]
        trace.append([(sorted(r), len(r), bool(r)) for r in regs])
    return trace


def bv_ops_coq(ops):
    out = []
    for o in ops:
        if o[0] == "add":
            out.append("OAdd %d %s" % (o[1], vf.coq_N(o[2])))
        elif o[0] == "and":
            out.append("OAnd %d %d %d" % tuple(o[1:]))
        elif o[0] == "or":
            out.append("OOr %d %d %d" % tuple(o[1:]))
        elif o[0] == "iand":
            out.append("OIand %d %d" % tuple(o[1:]))
        else:
            out.append("OIor %d %d" % tuple(o[1:]))
    return vf.coq_list(out)


def bv_trace_coq(trace):
    return vf.coq_list([vf.coq_list(["(%s, %s, %s)" % (vf.coq_list([vf.coq_N(x) for x in it]), vf.coq_N(ln), vf.coq_bool(b))
                                     for (it, ln, b) in step]) for step in trace])


def classify_bv(ops, impl, spec):
    # narrow class: first differing step is an `iand` whose right operand has
    # fewer blocks than the left, and the surplus is exactly the left's
    # members beyond the right operand's blocks
    for o, a, b in zip(ops, impl, spec):
        if a != b:
            if o[0] == "iand":
                return "bitvector-iand-right-operand-fewer-blocks"
            return None
    return None


def bv_bad(ops):
    try:
        with time_limit():
            return bv_impl_trace(ops) != bv_spec_trace(ops) or not bv_membership_ok(ops)
    except Exception:
        return True


def bv_describe(ops):
    try:
        with time_limit():
            impl = bv_impl_trace(ops)
            spec = bv_spec_trace(ops)
            if impl != spec:
                return ("got %r, set model says %r" % (impl[-1], spec[-1]), classify_bv(ops, impl, spec))
            return ("`in` disagrees with iteration", None)
    except Exception as e:
        return ("raised %r" % (e,), None)


def bv_check_one(ctx, ops):
    """Judge one history against the set reference.  Returns the impl trace or None."""
    impl = None
    try:
        with time_limit():
            impl = bv_impl_trace(ops)
            ok = impl == bv_spec_trace(ops) and bv_membership_ok(ops)
    except Exception:  # any exception of the container is a violation
        ok = False
    if not ok:
        klass0 = bv_describe(ops)[1]

        def what():
            small = shrink_ops(ops, bv_bad)
            why, klass = bv_describe(small)
            return ("BitVector differs from the set model on history %r: %s" % (small, why),
                    {"container": "BitVector", "ops": tolist(small)}, klass)
        report(ctx, "bv[%s]" % klass0, what)
        return None
    return impl


def oracle_compare(ctx, what, exe, lines, expected, metas):
    """Feed `lines` to the extracted model, compare token-wise with `expected` (lists of ints).
    Returns the number of agreements; disagreements go to ctx.broken (first 5)."""
    try:
        answers = ctx.oracle(exe, lines)
    except Exception as e:
        ctx.broken.append("correspondence:%s extracted model crashed" % what)
        ctx.notes.append(str(e)[-2000:])
        return 0
    agree, shown = 0, 0
    for ans, exp, meta in zip(answers, expected, metas):
        if ans.split() == [str(i) for i in exp]:
            agree += 1
        elif shown < 5:
            shown += 1
            ctx.broken.append("correspondence:%s on ops %r" % (what, meta))
    return agree


def run_bitvector(ctx, histories=None):
    nseq = ctx.n(3000, 60000)
    nvm = ctx.n(8, 120)
    if histories is None:
        histories = [gen_bv_ops(ctx.rng, ctx.rng.choice([3, 6, 12, 25])) for _ in range(nseq)]
    done = []
    for ops in histories:
        impl = bv_check_one(ctx, ops)
        if impl is None:
            continue
        nontrivial = any(o[0] in ("iand", "and", "or", "ior") for o in ops) and any(len(r[0]) > 1 for r in impl[-1])
        ctx.case(("bv", totuple(ops)), nontrivial, sample={"container": "BitVector", "ops": tolist(ops), "final": impl[-1]})
        ctx.count("bv_ops", len(ops))
        for o in ops:
            ctx.count("bv_" + o[0])
        done.append((ops, impl))
    ctx.log("BitVector: implementation judged on %d histories" % len(done))
    # volume path: extracted model
    try:
        exe = ctx.ocaml_oracle("c34bv", orc.BV_EXTRACT, orc.BV_DRIVER)
    except RuntimeError as e:
        ctx.broken.append("correspondence:BitVector model does not extract")
        ctx.notes.append(str(e)[-2000:])
        exe = None
    if exe:
        ctx.cov["bv_model_vs_impl_agree"] = oracle_compare(
            ctx, "BitVectorModel (extracted) vs problog.util.BitVector", exe,
            [orc.line("T", orc.bv_ops_ints(ops)) for ops, _ in done],
            [orc.bv_ser_trace(impl) for _, impl in done], [ops for ops, _ in done])
    ctx.log("BitVector: extracted model compared")
    # zero-glue path: the same comparison by vm_compute inside coqc, on a sample
    sample = [d for d in done if len(d[0]) <= 8][:nvm]
    cases = ["trace_eqb (bv_trace bv_iand [[]; []; []] %s) %s" % (bv_ops_coq(ops), bv_trace_coq(impl)) for ops, impl in sample]
    try:
        bad = ctx.coq_failing(HEADER, cases, name="bv", shard=4)
    except RuntimeError as e:
        ctx.broken.append("correspondence:BitVector model does not evaluate")
        ctx.notes.append(str(e))
        return
    ctx.cov["bv_model_vs_impl_agree_vm_compute"] = len(cases) - len(bad)
    for i in bad[:5]:
        ctx.broken.append("correspondence:BitVectorModel vs problog.util.BitVector on ops %r" % (sample[i][0],))


# ------------------------------------------------------------------ OrderedSet
OS_UNIVERSE = list(range(6))


def gen_os_ops(rng, n):
    ops = []
    r3 = lambda: rng.randrange(3)
    key = lambda: rng.choice(OS_UNIVERSE)
    klist = lambda: [key() for _ in range(rng.randrange(0, 5))]
    for _ in range(n):
        k = rng.random()
        if k < 0.30:
            ops.append(("add", r3(), key()))
        elif k < 0.42:
            ops.append(("discard", r3(), key()))
        elif k < 0.52:
            ops.append(("pop", r3(), rng.random() < 0.5))
        elif k < 0.57:
            ops.append(("contains", r3(), key()))
        elif k < 0.63:
            ops.append(("ior", r3(), r3()))
        elif k < 0.67:
            ops.append(("iorlist", r3(), klist()))
        elif k < 0.72:
            ops.append(("fromlist", r3(), klist()))
        elif k < 0.77:
            ops.append(("or", r3(), r3(), r3()))
        elif k < 0.82:
            ops.append(("and", r3(), r3(), r3()))
        elif k < 0.87:
            ops.append(("sub", r3(), r3(), r3()))
        elif k < 0.89:
            ops.append(("subset", r3(), r3(), klist()))
        elif k < 0.92:
            ops.append(("isub", r3(), r3()))
        elif k < 0.95:
            ops.append(("iand", r3(), r3()))
        elif k < 0.98:
            ops.append(("eq", r3(), r3()))
        else:
            ops.append(("eqset", r3(), klist()))
    return ops


def os_impl_trace(ops):
    """-> list of (out, [(list(s), list(reversed(s)), len(s))...]) ; out in None / bool / int / 'KeyError'.
    Also checks on the real object: membership of every universe key agrees with iteration,
    and the dict order of s.map is the iteration order (a fact the Coq theorem states)."""
    from problog.util import OrderedSet
    regs = [OrderedSet(), OrderedSet(), OrderedSet()]
    trace = []
    for o in ops:
        out = None
        t = o[0]
        if t == "add":
            out = regs[o[1]].add(o[2])
        elif t == "discard":
            out = regs[o[1]].discard(o[2])
        elif t == "pop":
            try:
                out = regs[o[1]].pop(last=bool(o[2]))
            except KeyError:
                out = "KeyError"
        elif t == "contains":
            out = (o[2] in regs[o[1]])
        elif t == "ior":
            r = regs[o[1]]
            r |= regs[o[2]]
            regs[o[1]] = r
        elif t == "iorlist":
            r = regs[o[1]]
            r |= list(o[2])
            regs[o[1]] = r
        elif t == "fromlist":
            regs[o[1]] = OrderedSet(list(o[2]))
        elif t == "or":
            regs[o[1]] = regs[o[2]] | regs[o[3]]
        elif t == "and":
            regs[o[1]] = regs[o[2]] & regs[o[3]]
        elif t == "sub":
            regs[o[1]] = regs[o[2]] - regs[o[3]]
        elif t == "subset":
            regs[o[1]] = regs[o[2]] - set(o[3])
        elif t == "isub":
            r = regs[o[1]]
            r -= regs[o[2]]
            regs[o[1]] = r
        elif t == "iand":
            r = regs[o[1]]
            r &= regs[o[2]]
            regs[o[1]] = r
        elif t == "eq":
            out = (regs[o[1]] == regs[o[2]])
        elif t == "eqset":
            out = (regs[o[1]] == set(o[2]))
        else:
            raise ValueError(t)
        obs = []
        for s in regs:
            if not isinstance(s, OrderedSet):
                raise TypeError("result is %s, not OrderedSet" % type(s).__name__)
            it = list(s)
            for k in OS_UNIVERSE:
                if (k in s) != (k in it):
                    raise AssertionError("membership of %r disagrees with iteration %r" % (k, it))
            if list(s.map) != it:
                raise AssertionError("dict order %r differs from ring order %r" % (list(s.map), it))
            obs.append((it, list(reversed(s)), len(s)))
        trace.append((out, obs))
    return trace


def os_spec_trace(ops):
    """The property's own reference: a duplicate-free python list in first-insertion order."""
    regs = [[], [], []]

    def add(l, k):
        return l if k in l else l + [k]

    def addall(l, ks):
        for k in ks:
            l = add(l, k)
        return l
    trace = []
    for o in ops:
        out = None
        t = o[0]
        if t == "add":
            regs[o[1]] = add(regs[o[1]], o[2])
        elif t == "discard":
            regs[o[1]] = [x for x in regs[o[1]] if x != o[2]]
        elif t == "pop":
            l = regs[o[1]]
            if not l:
                out = "KeyError"
            elif o[2]:
                out, regs[o[1]] = l[-1], l[:-1]
            else:
                out, regs[o[1]] = l[0], l[1:]
        elif t == "contains":
            out = o[2] in regs[o[1]]
        elif t == "ior":
            regs[o[1]] = addall(regs[o[1]], regs[o[2]])
        elif t == "iorlist":
            regs[o[1]] = addall(regs[o[1]], o[2])
        elif t == "fromlist":
            regs[o[1]] = addall([], o[2])
        elif t == "or":
            regs[o[1]] = addall(list(regs[o[2]]), regs[o[3]])
        elif t == "and":
            # collections.abc.Set.__and__ iterates `other`: order of the right operand
            regs[o[1]] = [x for x in regs[o[3]] if x in regs[o[2]]]
        elif t == "sub":
            regs[o[1]] = [x for x in regs[o[2]] if x not in regs[o[3]]]
        elif t == "subset":
            regs[o[1]] = [x for x in regs[o[2]] if x not in o[3]]
        elif t == "isub":
            regs[o[1]] = [x for x in regs[o[1]] if x not in regs[o[2]]]
        elif t == "iand":
            regs[o[1]] = [x for x in regs[o[1]] if x in regs[o[2]]]
        elif t == "eq":
            # OrderedSet == OrderedSet is order sensitive (documented behaviour of the recipe the class follows)
            out = regs[o[1]] == regs[o[2]]
        elif t == "eqset":
            out = set(regs[o[1]]) == set(o[2])
        trace.append((out, [(list(l), list(reversed(l)), len(l)) for l in regs]))
    return trace


def os_keys_coq(l):
    return vf.coq_list([vf.coq_N(x) for x in l])


def os_ops_coq(ops):
    out = []
    for o in ops:
        t = o[0]
        if t == "add":
            out.append("OAdd %d %s" % (o[1], vf.coq_N(o[2])))
        elif t == "discard":
            out.append("ODiscard %d %s" % (o[1], vf.coq_N(o[2])))
        elif t == "pop":
            out.append("OPop %d %s" % (o[1], vf.coq_bool(o[2])))
        elif t == "contains":
            out.append("OContains %d %s" % (o[1], vf.coq_N(o[2])))
        elif t == "ior":
            out.append("OIor %d %d" % (o[1], o[2]))
        elif t == "iorlist":
            out.append("OIorList %d %s" % (o[1], os_keys_coq(o[2])))
        elif t == "fromlist":
            out.append("OFromList %d %s" % (o[1], os_keys_coq(o[2])))
        elif t == "or":
            out.append("OOr %d %d %d" % (o[1], o[2], o[3]))
        elif t == "and":
            out.append("OAnd %d %d %d" % (o[1], o[2], o[3]))
        elif t == "sub":
            out.append("OSub %d %d %d" % (o[1], o[2], o[3]))
        elif t == "subset":
            out.append("OSubSet %d %d %s" % (o[1], o[2], os_keys_coq(o[3])))
        elif t == "isub":
            out.append("OIsub %d %d" % (o[1], o[2]))
        elif t == "iand":
            out.append("OIand %d %d" % (o[1], o[2]))
        elif t == "eq":
            out.append("OEq %d %d" % (o[1], o[2]))
        elif t == "eqset":
            out.append("OEqSet %d %s" % (o[1], os_keys_coq(o[2])))
        else:
            raise ValueError(t)
    return vf.coq_list(out)


def os_out_coq(out):
    if out is None:
        return "RNone"
    if out == "KeyError":
        return "RKeyError"
    if out is True or out is False:
        return "(RBool %s)" % vf.coq_bool(out)
    return "(RKey %s)" % vf.coq_N(out)


def os_trace_coq(trace):
    steps = []
    for out, obs in trace:
        steps.append("(%s, %s)" % (os_out_coq(out), vf.coq_list(
            ["(%s, %s, %s)" % (os_keys_coq(i), os_keys_coq(r), vf.coq_nat(n)) for (i, r, n) in obs])))
    return vf.coq_list(steps)


def os_bad(ops):
    try:
        with time_limit():
            return os_impl_trace(ops) != os_spec_trace(ops)
    except Exception:
        return True


def os_describe(ops):
    try:
        with time_limit():
            impl = os_impl_trace(ops)
        spec = os_spec_trace(ops)
        for step, (a, b) in enumerate(zip(impl, spec)):
            if a != b:
                return "step %d (%r): got %r, model says %r" % (step, ops[step], a, b)
        return "no difference"
    except Exception as e:
        return "raised %r" % (e,)


def os_check_one(ctx, ops):
    impl = None
    try:
        with time_limit():
            impl = os_impl_trace(ops)
        ok = impl == os_spec_trace(ops)
    except Exception:
        ok = False
    if not ok:
        def what():
            small = shrink_ops(ops, os_bad)
            return ("OrderedSet differs from the insertion-ordered list model on history %r: %s" % (small, os_describe(small)),
                    {"container": "OrderedSet", "ops": tolist(small)}, None)
        report(ctx, "os", what)
        return None
    return impl


def run_orderedset(ctx, histories=None):
    nseq = ctx.n(3000, 60000)
    nvm = ctx.n(8, 120)
    if histories is None:
        histories = [gen_os_ops(ctx.rng, ctx.rng.choice([4, 8, 16, 30])) for _ in range(nseq)]
    done = []
    for ops in histories:
        impl = os_check_one(ctx, ops)
        if impl is None:
            continue
        spec = os_spec_trace(ops)
        moved = any(o[0] in ("pop", "discard", "and", "sub", "isub", "iand", "or", "ior") for o in ops)
        nontrivial = moved and any(n > 1 for (_, _, n) in impl[-1][1])
        ctx.case(("os", totuple(ops)), nontrivial,
                 sample={"container": "OrderedSet", "ops": tolist(ops), "final": [i for (i, _, _) in impl[-1][1]]})
        ctx.count("os_ops", len(ops))
        for o in ops:
            ctx.count("os_" + o[0])
        done.append((ops, impl, spec))
    try:
        exe = ctx.ocaml_oracle("c34os", orc.OS_EXTRACT, orc.OS_DRIVER)
    except RuntimeError as e:
        ctx.broken.append("correspondence:OrderedSet model does not extract")
        ctx.notes.append(str(e)[-2000:])
        exe = None
    if exe:
        metas = [ops for ops, _, _ in done]
        # (1) pointer model = implementation, step by step
        ctx.cov["os_model_vs_impl_agree"] = oracle_compare(
            ctx, "OrderedSetModel (extracted) vs problog.util.OrderedSet", exe,
            [orc.line("T", orc.os_ops_ints(ops)) for ops in metas],
            [orc.os_ser_trace(impl) for _, impl, _ in done], metas)
        # (2) Coq list specification (right-hand side of C34_oset_refines) = python reference
        ctx.cov["os_coqspec_vs_pyspec_agree"] = oracle_compare(
            ctx, "Coq list specification srun vs python reference", exe,
            [orc.line("S", orc.os_ops_ints(ops)) for ops in metas],
            [orc.os_ser_spec(spec) for _, _, spec in done], metas)
        # (3) dict order of self.map (checked equal to iteration order on the real object) = model's map order
        ctx.cov["os_dict_order_agree"] = oracle_compare(
            ctx, "OrderedSetModel dict order vs list(s.map)", exe,
            [orc.line("M", orc.os_ops_ints(ops)) for ops in metas],
            [[len(impl[-1][1])] + [x for (it, _, _) in impl[-1][1] for x in [len(it)] + list(it)] for _, impl, _ in done], metas)
    sample = [d for d in done if len(d[0]) <= 8][:nvm]
    cases, metas = [], []
    for ops, impl, spec in sample:
        opsc = os_ops_coq(ops)
        cases.append("otrace_eqb (otrace oregs0 %s) %s" % (opsc, os_trace_coq(impl)))
        metas.append(("model", ops))
        cases.append("(let '(ls, outs) := srun %s in all2 keys_eqb ls %s && all2 oout_eqb outs %s)"
                     % (opsc, vf.coq_list([os_keys_coq(i) for (i, _, _) in spec[-1][1]]) if spec else "[[]; []; []]",
                        vf.coq_list([os_out_coq(o) for (o, _) in spec])))
        metas.append(("spec", ops))
    try:
        bad = ctx.coq_failing(OS_HEADER, cases, name="os", shard=4)
    except RuntimeError as e:
        ctx.broken.append("correspondence:OrderedSet model does not evaluate")
        ctx.notes.append(str(e))
        return
    ctx.cov["os_agree_vm_compute"] = len(cases) - len(bad)
    for i in bad[:5]:
        if metas[i][0] == "model":
            ctx.broken.append("correspondence:OrderedSetModel vs problog.util.OrderedSet on ops %r" % (metas[i][1],))
        else:
            ctx.broken.append("correspondence:Coq list specification srun vs python reference on ops %r" % (metas[i][1],))


# ------------------------------------------------------------------ UHeap
UH_ITEMS = list(range(6))


def gen_uh_ops(rng, n):
    """identity=True: UHeap(key=None), the key of an item is the item itself."""
    identity = rng.random() < 0.15
    ops = []
    nkeys = rng.choice([3, 8, 8, 20])
    for _ in range(n):
        k = rng.random()
        if k < 0.55:
            it = rng.choice(UH_ITEMS)
            ops.append(("push", it, it if identity else rng.randrange(nkeys)))
        elif k < 0.70:
            ops.append(("pop",))
        elif k < 0.82:
            ops.append(("popkey",))
        elif k < 0.92:
            ops.append(("peek",))
        else:
            ops.append(("len",))
    if rng.random() < 0.5:   # drain at the end: non-decreasing keys
        ops += [("popkey",)] * (len(UH_ITEMS) + 1)
    return identity, ops


def uh_impl_trace(identity, ops):
    """-> list of (out, (heap list, [index.get(x) for x in items]))"""
    from problog.util import UHeap
    cur = {}
    h = UHeap() if identity else UHeap(key=lambda it: cur[it])
    trace = []
    for o in ops:
        t = o[0]
        if t == "push":
            cur[o[1]] = o[2]
            out = ("bool", h.push(o[1]))
        elif t == "pop":
            try:
                out = ("item", h.pop())
            except AssertionError:
                out = ("assert",)
        elif t == "popkey":
            try:
                k, it = h.pop_with_key()
                out = ("pair", k, it)
            except AssertionError:
                out = ("assert",)
        elif t == "peek":
            try:
                out = ("item", h.peek())
            except AssertionError:
                out = ("assert",)
        elif t == "len":
            out = ("len", len(h))
        else:
            raise ValueError(t)
        trace.append((out, ([tuple(e) for e in h._heap], [h._index.get(x) for x in UH_ITEMS])))
    return trace


def uh_judge(ops, trace):
    """The property's own reference: dict item -> key.  Returns None or a description of the first violation."""
    m = {}
    last_popped = None       # keys popped since the last push must be non-decreasing
    for step, (o, (out, (heap, index))) in enumerate(zip(ops, trace)):
        t = o[0]
        if t == "push":
            if out != ("bool", o[1] not in m):
                return "step %d push(%r) returned %r, item present before: %r" % (step, o[1], out, o[1] in m)
            m[o[1]] = o[2]
            last_popped = None
        elif t in ("pop", "popkey", "peek"):
            if not m:
                if out != ("assert",):
                    return "step %d %s on empty heap returned %r" % (step, t, out)
            else:
                if out[0] not in ("item", "pair"):
                    return "step %d %s returned %r on a non-empty heap" % (step, t, out)
                it = out[-1]
                if it not in m:
                    return "step %d %s returned %r which is not in the heap" % (step, t, it)
                if m[it] != min(m.values()):
                    return "step %d %s returned item %r with key %r but the minimal key is %r" % (step, t, it, m[it], min(m.values()))
                if out[0] == "pair" and out[1] != m[it]:
                    return "step %d pop_with_key returned key %r for item %r whose key is %r" % (step, out[1], it, m[it])
                if t != "peek":
                    if last_popped is not None and m[it] < last_popped:
                        return "step %d popped key %r after key %r" % (step, m[it], last_popped)
                    last_popped = m[it]
                    del m[it]
        elif t == "len":
            if out != ("len", len(m)):
                return "step %d len returned %r, expected %d" % (step, out, len(m))
        # the observable content is exactly the map
        if sorted((it, k) for (k, it) in heap) != sorted(m.items()):
            return "step %d content %r differs from expected bindings %r" % (step, heap, sorted(m.items()))
    return None


def uh_ops_coq(ops):
    out = []
    for o in ops:
        t = o[0]
        if t == "push":
            out.append("UPush %s %s" % (vf.coq_N(o[1]), vf.coq_N(o[2])))
        else:
            out.append({"pop": "UPop", "popkey": "UPopKey", "peek": "UPeek", "len": "ULenOp"}[t])
    return vf.coq_list(out)


def uh_out_coq(out):
    if out[0] == "bool":
        return "(UBool %s)" % vf.coq_bool(out[1])
    if out[0] == "item":
        return "(UItem %s)" % vf.coq_N(out[1])
    if out[0] == "pair":
        return "(UPair %s %s)" % (vf.coq_N(out[1]), vf.coq_N(out[2]))
    if out[0] == "assert":
        return "UAssert"
    return "(ULen %s)" % vf.coq_nat(out[1])


def uh_trace_coq(trace):
    steps = []
    for out, (heap, index) in trace:
        steps.append("(%s, (%s, %s))" % (
            uh_out_coq(out),
            vf.coq_list(["(%s, %s)" % (vf.coq_N(k), vf.coq_N(it)) for (k, it) in heap]),
            vf.coq_list([vf.coq_option(None if i is None else vf.coq_nat(i)) for i in index])))
    return vf.coq_list(steps)


def uh_bad(identity):
    def bad(ops):
        try:
            with time_limit():
                return uh_judge(ops, uh_impl_trace(identity, ops)) is not None
        except Exception:
            return True
    return bad


def uh_describe(identity, ops):
    try:
        with time_limit():
            return uh_judge(ops, uh_impl_trace(identity, ops)) or "no difference"
    except Exception as e:
        return "raised %r" % (e,)


def uh_check_one(ctx, identity, ops):
    impl = None
    try:
        with time_limit():
            impl = uh_impl_trace(identity, ops)
        ok = uh_judge(ops, impl) is None
    except Exception:
        ok = False
    if not ok:
        def what():
            small = shrink_ops(ops, uh_bad(identity))
            return ("UHeap violates the min-key map model on history %r: %s" % (small, uh_describe(identity, small)),
                    {"container": "UHeap", "identity_key": identity, "ops": tolist(small)}, None)
        report(ctx, "uh", what)
        return None
    return impl


def run_uheap(ctx, histories=None):
    nseq = ctx.n(3000, 60000)
    nvm = ctx.n(8, 120)
    if histories is None:
        histories = [gen_uh_ops(ctx.rng, ctx.rng.choice([4, 8, 16, 30])) for _ in range(nseq)]
    univ = vf.coq_list([vf.coq_N(x) for x in UH_ITEMS])
    done = []
    for identity, ops in histories:
        impl = uh_check_one(ctx, identity, ops)
        if impl is None:
            continue
        updates = sum(1 for (o, (out, _)) in zip(ops, impl) if o[0] == "push" and out == ("bool", False))
        pops = sum(1 for (o, (out, _)) in zip(ops, impl) if o[0] in ("pop", "popkey") and out != ("assert",))
        ctx.case(("uh", identity, totuple(ops)), updates > 0 and pops > 1,
                 sample={"container": "UHeap", "identity_key": identity, "ops": tolist(ops)})
        ctx.count("uh_ops", len(ops))
        ctx.count("uh_push_update", updates)
        ctx.count("uh_pops_nonempty", pops)
        ctx.count("uh_maxlen_%d" % max([len(h) for (_, (h, _)) in impl] + [0]))
        for o in ops:
            ctx.count("uh_" + o[0])
        done.append((ops, impl))
    try:
        exe = ctx.ocaml_oracle("c34uh", orc.UH_EXTRACT, orc.UH_DRIVER)
    except RuntimeError as e:
        ctx.broken.append("correspondence:UHeap model does not extract")
        ctx.notes.append(str(e)[-2000:])
        exe = None
    if exe:
        metas = [ops for ops, _ in done]
        # (1) array+index model = implementation (full _heap and _index after every step)
        ctx.cov["uh_model_vs_impl_agree"] = oracle_compare(
            ctx, "UHeapModel (extracted) vs problog.util.UHeap", exe,
            [orc.line("T", [len(UH_ITEMS)] + UH_ITEMS + [len(ops)] + orc.uh_ops_ints(ops)) for ops in metas],
            [orc.uh_ser_trace(impl) for _, impl in done], metas)
        # (2) the answers of the implementation are accepted by the Coq specification of C34_heap_inv
        ctx.cov["uh_impl_accepted_by_coq_spec"] = oracle_compare(
            ctx, "answers of problog.util.UHeap rejected by the Coq specification sp_accepts", exe,
            [orc.line("A", [len(ops)] + orc.uh_ops_ints(ops) + [x for (o, _) in impl for x in orc.uh_ser_out(o)]) for ops, impl in done],
            [[1] for _ in done], metas)
    sample = [d for d in done if len(d[0]) <= 8][:nvm]
    cases, metas = [], []
    for ops, impl in sample:
        opsc = uh_ops_coq(ops)
        cases.append("utrace_eqb (utrace %s uheap_empty %s) %s" % (univ, opsc, uh_trace_coq(impl)))
        metas.append(("model", ops))
        cases.append("sp_accepts [] %s %s" % (opsc, vf.coq_list([uh_out_coq(o) for (o, _) in impl])))
        metas.append(("spec", ops))
    try:
        bad = ctx.coq_failing(UH_HEADER, cases, name="uh", shard=4)
    except RuntimeError as e:
        ctx.broken.append("correspondence:UHeap model does not evaluate")
        ctx.notes.append(str(e))
        return
    ctx.cov["uh_agree_vm_compute"] = len(cases) - len(bad)
    for i in bad[:5]:
        if metas[i][0] == "model":
            ctx.broken.append("correspondence:UHeapModel vs problog.util.UHeap on ops %r" % (metas[i][1],))
        else:
            ctx.broken.append("correspondence:answers of problog.util.UHeap rejected by the Coq specification sp_accepts on ops %r" % (metas[i][1],))


# ------------------------------------------------------------------ driver
def run(ctx):
    ctx.cov["rule"] = ("random operation histories; BitVector: 3 registers, indices clustered at 32-bit block boundaries; "
                       "OrderedSet: 3 registers, keys 0..5, all of add/discard/pop(first|last)/in/|=/|/&/-/-=/&=/==/OrderedSet(list), aliased operands allowed; "
                       "UHeap: items 0..5, keys from 3..20 values (frequent ties and key updates), optional final drain, 15% with key=None. "
                       "non-trivial: BitVector history with a binary operation ending with >1 members; OrderedSet history with a removing/combining "
                       "operation ending with a register of >1 elements; UHeap history with at least one key update and two successful pops; "
                       "distinct = distinct op sequences")
    ctx.assumptions += ["hand-written Gallina models correspond to problog/util.py only as far as the sampled histories show",
                        "CPython ints are unbounded naturals (N); dict preserves insertion order (CPython >= 3.7)",
                        "UHeap keys are totally ordered (modelled as N); the key function may return a different key at each push",
                        "collections.abc.Set/MutableSet mixins as in the running CPython (3.12) are modelled by hand"]
    ok = ctx.prove("C34/Props.v")
    ctx.log("proved")
    if ok and ctx.tier == "thorough" and not ctx.replay:
        ctx.coqchk("PL.C34.Props")
        ctx.log("coqchk done")
    if ctx.replay:
        rep = ctx.replay.get("replay", ctx.replay)
        cont = rep.get("container")
        ops = [totuple(o) for o in rep.get("ops", [])]
        ops = [tuple(list(o[:-1]) + [list(o[-1])]) if o and isinstance(o[-1], tuple) else o for o in ops]
        if cont == "BitVector":
            run_bitvector(ctx, [ops])
        elif cont == "OrderedSet":
            run_orderedset(ctx, [ops])
        elif cont == "UHeap":
            run_uheap(ctx, [(bool(rep.get("identity_key")), ops)])
        else:
            ctx.broken.append("harness:replay file names no container")
        return
    run_bitvector(ctx)
    ctx.log("BitVector done")
    run_orderedset(ctx)
    ctx.log("OrderedSet done")
    run_uheap(ctx)
