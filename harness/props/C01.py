"""C01 — exact inference computes the distribution semantics.

Specification: coq/theories/Sem (possible-world semantics defined in Coq, theorems in
coq/theories/C01/Props.v), extracted to an exact-rational oracle.  Tie: the real pipeline
(default backend, explicit 'ddnnf', and the CLI for a few) against the oracle on generated
programs of the C01 fragment: same reported instances (probability 0 == unreported),
|dp| <= 1e-9, same InconsistentEvidence decision.
"""
import os
import sys

sys.path.insert(0, os.path.join(os.path.dirname(os.path.dirname(os.path.dirname(os.path.abspath(__file__)))), "gen"))
import vf
import pl
import gen_program as gp
import sem_oracle as so
import c01_common as cc
import c01_ground as cg

META = {
    "id": "C01",
    "level": "proof",
    "technique": "Coq-defined distribution semantics (exact Q, extracted as oracle) + end-to-end Coq theorem C01_pipeline_correct for the ground pipeline "
                 "(cycle breaking -> translated Clark completion + AD clauses -> WMC / checked d-DNNF -> conditional ratio = possible-world probability); "
                 "differential correspondence of the real engine and pipeline against the oracle",
    "design_ref": "DESIGN.md §5 C01",
    "text": "Sem.prob is the specification. C01pipe/Props.v proves, with no axioms and for every well-formed stratified ground program, query and evidence, that the staged pipeline model "
            "(C09 models of _break_cycles incl. memo and of the translated clarks_completion, AD exactly-one clauses with the complement weight, WMC over all CNF variables or any circuit accepted "
            "by the verified d-DNNF checker, ratio / Inconsistent) equals the possible-world probability under the stratified model of the cyclic graph. "
            "The grounding engine (program -> LogicFormula), the hand model of cycles.py, and dsharp are tied by differential testing on generated programs against the extracted oracle.",
    "note": "Trusted: Coq kernel, extraction (ExtrOcamlBasic) + OCaml driver, program generator/encoder; the grounding engine is tied by correspondence only.",
}

# fixed witnesses of the defects known on the pinned tree (DESIGN §7) + hand-made coverage of every feature
WITNESSES = [
    "0.3::e(a,a). 0.4::e(a,b). 0.5::e(b,a). loop :- e(X,X). link :- e(X,Y). both :- e(X,X), e(Y,Z). query(loop). query(link). query(both).",
    "0.3::e(a,a). 0.4::e(a,b). 0.5::e(b,a). link :- e(X,Y). loop :- e(X,X). half(X) :- e(a,X). query(e(X,X)). query(e(X,Y)). query(half(X)). query(link).",
    "0.3::d0. d1 :- d0. 0.1::a; 0.2::d1 :- d1, \\+d0, d0. query(a). query(d1).",
    "0.1::f0. d3 :- f0, d3. d3 :- \\+f0, f0. query(d3).",
    "d1 :- d1. d1 :- \\+d2. d2 :- d2. query(d1).",
    "n(b). n(c). g1(c,X) :- n(X). query(g1(X,X)).",
    "n(a). n(b). e(a,b). e(b,a). 0.5::pe(X,Y) :- e(X,Y). path(X,Y) :- pe(X,Y). path(X,Y) :- pe(X,Z), path(Z,Y). "
    "0.3::col(X,a); 0.4::col(X,b) :- n(X). query(path(a,X)). query(col(X,Y)). evidence(col(a,a),false).",
    "0.4::a. 0.4::a. b :- \\+a. query(a). query(b). evidence(b,false).",
    "0.5::a; 0.5::b. c :- a, b. query(c). evidence(c,true).",
]


def _eval_default(p):
    return cc.impl_default(p.text())


def _eval_ddnnf(p):
    return cc.impl_ddnnf(p.text())


def _eval_cli(p):
    return cc.impl_cli(p.text())


def _dump_formula(p):
    return cc.evaluate(p.text(), fn=lambda: cg.dump(p))


GROUND_MAX_WORLDS = 4096     # total choices of the FULL ground instantiation (2^12)


def ground_stage(ctx, progs, impl, ref):
    """C01ground: the stage program -> LogicFormula, per instance, through the verified validator
    (coq/theories/C01ground): dump the real LogicFormula, map choice identities to its atoms, let the extracted
    `validate_ground` enumerate every world of Sem's ground instantiation.  Verdicts: accepted = by theorem
    C01ground_pipeline_is_Sem the pipeline model of C01pipe on THIS formula equals Sem.prob; rejected while the
    final probabilities agree = broken correspondence; rejected and the probabilities differ = the judge has
    already reported the program."""
    try:
        exe = cg.build(ctx)
    except Exception as e:
        ctx.broken.append("oracle:C01ground extraction/build failed")
        ctx.notes.append(str(e)[-2000:])
        return
    sel = [i for i, p in enumerate(progs) if cg.n_worlds(p)[0] <= GROUND_MAX_WORLDS]
    ctx.count("ground:too-many-worlds(not validated)", len(progs) - len(sel))
    ctx.log("C01ground: dumping the LogicFormula of %d programs (<= %d worlds of the full instantiation)" % (len(sel), GROUND_MAX_WORLDS))
    dumps = pl.pmap(_dump_formula, [progs[i] for i in sel])
    lines, idx = [], []
    for i, r in zip(sel, dumps):
        if r[0] != "ok":
            # the engine raised / timed out: the judge has compared that outcome with the oracle already
            if r[1].startswith("INTERNAL:Unmappable"):
                ctx.count("ground:unmappable")
                ctx.broken.append("correspondence:C01ground cannot map the choice identities of %s (%s)"
                                  % (progs[i].text().replace("\n", " "), r[1]))
            else:
                ctx.count("ground:engine-error(not validated)")
            continue
        try:
            line, info = cg.encode(progs[i], r[1])
        except cg.Unmappable as e:
            ctx.count("ground:unmappable")
            ctx.broken.append("correspondence:C01ground cannot map the choice identities of %s (%s)"
                              % (progs[i].text().replace("\n", " "), e))
            continue
        lines.append(line)
        idx.append(i)
    ctx.log("C01ground: validating %d formulas" % len(lines))
    jobs = max(1, min(14, os.cpu_count() or 1, (len(lines) + 3) // 4))
    chunks = [list(range(j, len(lines), jobs)) for j in range(jobs)]
    from concurrent.futures import ThreadPoolExecutor
    outs = [None] * len(lines)
    with ThreadPoolExecutor(max_workers=jobs) as ex:
        for ch, res in zip(chunks, ex.map(lambda ch: ctx.oracle(exe, [lines[j] for j in ch], timeout=3000), chunks)):
            for j, o in zip(ch, res):
                outs[j] = o
    nacc = 0
    for i, o in zip(idx, outs):
        ctx.cov["evaluations"] += 1
        agree = cc.kind_of(impl[i], ref[i]) is None
        text = progs[i].text().replace("\n", " ")
        if o == "1":
            nacc += 1
            ctx.count("ground:accepted" if agree else "ground:accepted-but-final-result-differs(later stage; judged above)")
        elif o.startswith("0"):
            ctx.count("ground:rejected(%s)%s" % (o[2:], "" if agree else "-and-final-result-differs(judged above)"))
            if agree:
                ctx.broken.append("correspondence:C01ground validator rejects (%s) the LogicFormula of a program whose final "
                                  "probabilities agree with the semantics: %s" % (o[2:], text))
        else:
            ctx.count("ground:oracle-error")
            ctx.broken.append("oracle:C01ground %s on %s" % (o, text))
    ctx.cov["ground_validated"] = len(lines)
    ctx.cov["ground_accepted"] = nacc


def judge(ctx, prog, impl, ref, via, state, impl_fn, tol=1e-9):
    """Compare one implementation outcome with the oracle outcome; report violations (shrunk, classified)."""
    if ref[0] == "err" and ref[1] not in ("InconsistentEvidence",):
        ctx.broken.append("oracle:%s on a generated program (%s)" % (ref[1], prog.text().replace("\n", " ")[:200]))
        return
    ctx.count("outcome:%s/%s" % (ref[0] if ref[0] == "ok" else ref[1], impl[0] if impl[0] == "ok" else impl[1]))
    cc.report_vs_oracle(ctx, prog, impl, ref, via, state, impl_fn, tol)


def run(ctx):
    ctx.cov["rule"] = ("programs from harness/gen_program.py (propositional and first-order, stratified by construction, <= 14 live "
                       "choices) + fixed witnesses + corpus/C01; a case is non-trivial when the oracle enumerates >= 2 choices "
                       "and the program has a rule with a body; distinct = distinct program texts")
    ctx.assumptions += [
        "the grounding engine is tied to the Coq semantics by differential testing only (not modelled step by step)",
        "the oracle's evaluation strategy SemFast (pruning, cone restriction, vector sums) is tied to the specification Sem.prob "
        "by the theorems of C08/Props.v where proved and otherwise by the spec-vs-fast self-check of this run",
        "probabilities are decimal literals; implementation floats are compared with exact rationals at 1e-9",
    ]
    cc.IMPL_CPU_TIMEOUT = ctx.n(10, 20)   # CPU seconds per evaluation (a non-terminating grounding costs exactly this)
    ctx.prove("C01/Props.v")
    # end-to-end theorem for the ground part of the pipeline (break_cycles -> Clark completion + AD clauses ->
    # WMC / checked d-DNNF -> ratio) = possible-world probability: coq/theories/C01pipe (notes/C01pipe.md).
    # Its cone contains the Clark model translated from /repo/problog/cnf_formula.py by C09's translator.
    try:
        import importlib
        importlib.import_module("props.C09").generate(ctx)
    except Exception as e:  # translator failure: recorded, the judge below still runs
        ctx.broken.append("translator:C09 Clark model needed by C01pipe: %r" % (e,))
    ctx.prove("C01pipe/Props.v", timeout=1500)
    # the stage program -> LogicFormula, per instance: verified validator + composition with the theorem above
    # (coq/theories/C01ground, notes/C01ground.md)
    ctx.prove("C01ground/Props.v", timeout=1500)
    try:
        so.build(ctx)
    except Exception as e:
        ctx.broken.append("oracle:extraction/build failed")
        ctx.notes.append(str(e)[-2000:])
        return
    if ctx.replay:
        prog = gp.Prog.from_json(ctx.replay["replay"]["program"])
        ref = cc.one_oracle(ctx, prog)
        impl = cc.impl_default(prog.text())
        ctx.case(prog.key(), True, sample={"program": prog.text()})
        judge(ctx, prog, impl, ref, "replay", {}, cc.impl_default)
        return
    progs = [gp.parse_simple(w) for w in WITNESSES] + cc.load_corpus("C01")
    nfixed = len(progs)
    n = ctx.n(150, 6000)
    progs += [gp.gen_program(ctx.rng) for _ in range(n)]
    ctx.log("oracle on %d programs" % len(progs))
    ref = so.oracle_eval(ctx, progs, "fast")
    nch = so.oracle_eval(ctx, progs, "nch")
    ctx.log("implementation (default backend)")
    impl = pl.pmap(_eval_default, progs)
    state = {}
    for i, (p, r, im, nc) in enumerate(zip(progs, ref, impl, nch)):
        feats = p.features()
        k = nc[1][0] if nc[0] == "nch" else -1
        nontrivial = k >= 2 and any(s[0] in ("rule", "ad") and s[2] for s in p.stmts)
        ctx.case(p.key(), nontrivial, sample={"program": p.text(), "semantics": str(r)[:300], "implementation": str(im)[:300]})
        ctx.count("choices:%s" % (k if k < 10 else "10+"))
        ctx.count("mode:%s" % p.meta.get("mode"))
        for f, v in feats.items():
            if v:
                ctx.count("feature:" + f)
        judge(ctx, p, im, r, "default pipeline", state, cc.impl_default)
    ground_stage(ctx, progs, impl, ref)
    # explicit 'ddnnf' backend on every third program, CLI on a few
    sub = [i for i in range(len(progs)) if i % 3 == 0]
    ctx.log("implementation ('ddnnf' backend) on %d programs" % len(sub))
    impl2 = pl.pmap(_eval_ddnnf, [progs[i] for i in sub])
    for i, im in zip(sub, impl2):
        ctx.cov["evaluations"] += 1
        if cc.kind_of(im, ref[i]) != cc.kind_of(impl[i], ref[i]) or (cc.kind_of(im, ref[i]) is None and not pl.same_result(im, impl[i])):
            judge(ctx, progs[i], im, ref[i], "'ddnnf' backend", state, cc.impl_ddnnf)
    ncli = ctx.n(8, 60)
    cli_idx = list(range(min(nfixed, 5))) + list(range(nfixed, nfixed + ncli))
    ctx.log("CLI on %d programs" % len(cli_idx))
    impl3 = pl.pmap(_eval_cli, [progs[i] for i in cli_idx])
    for i, im in zip(cli_idx, impl3):
        ctx.cov["evaluations"] += 1
        ctx.count("cli")
        if im[0] == "err" and im[1].startswith("CLI-"):
            ctx.notes.append("CLI output not understood: %s" % (im[1],))
            continue
        if cc.kind_of(im, ref[i], cc.CLI_TOL) != cc.kind_of(impl[i], ref[i]):
            judge(ctx, progs[i], im, ref[i], "command line tool", state, cc.impl_cli, cc.CLI_TOL)
    # the oracle's fast strategy against the specification itself (small instances only: the
    # specification enumerates every ground AD instance and recomputes the model per indicator)
    small = [i for i, (p, nc) in enumerate(zip(progs, nch))
             if nc[0] == "nch" and nc[1][1] <= 7 and (not p.features()["first_order"] or len(p.constants()) <= 2)]
    small = small[:ctx.n(60, 600)]
    ctx.log("self-check Sem.answers vs SemFast.fast_answers on %d small programs" % len(small))
    spec = so.oracle_eval(ctx, [progs[i] for i in small], "spec")
    bad = [i for i, s in zip(small, spec) if s != ref[i]]
    ctx.cov["spec_vs_fast_checked"] = len(small)
    ctx.cov["spec_vs_fast_disagree"] = len(bad)
    for i in bad[:3]:
        ctx.broken.append("correspondence:SemFast.fast_answers differs from Sem.answers on %s" % progs[i].text().replace("\n", " "))
