"""C33 -- the soft-cut library (library/cut.pl) picks the lowest-indexed applicable rule.

Proof part: coq/theories/C33/Props.v (hand model of cut.pl on top of C15's generated
model of sort/2; the library's clauses are regenerated with ProbLog's parser on every
run and pinned against the clauses the model was written from).
Tie: generated indexed rule sets (indices 1..15, shuffled file order, random
applicability) through the real library, judged against "lowest applicable index wins"
and compared with the Coq model (vm_compute).
"""
import os
import sys

import vf
import pl

sys.path.insert(0, os.path.join(vf.VERIF, "gen"))
import c15_structcmp  # noqa: E402
import c33_libcut  # noqa: E402

META = {
    "id": "C33",
    "level": "proof",
    "technique": "Coq: hand model of library/cut.pl (clauses pinned against a value regenerated from cut.pl by ProbLog's parser) over the "
                 "generated model of sort/2 (C15); theorems: lowest applicable index, cut/2 index, file-order independence; differential tie",
    "design_ref": "DESIGN.md §5 C33",
    "text": "Theorems for every rule set (no bound on size, any answer type) about the model; generated rule sets run through "
            ":- use_module(library(cut)) and are judged against the property and compared with the model.",
    "note": "Trusted: Coq kernel + vm_compute; ModelCut.v is a hand reading of cut.pl (tie = pinned clause text + differential runs); "
            "everything C15 trusts (translator of engine_builtin.py, ModelPrelude.v).",
}

K_NUM = "cut-index-numbers-compared-as-strings"
INPUTS = ["a", "b", "c", None]      # None = unbound first argument


# ------------------------------------------------------------------ generator
def gen_ruleset(rng, rid):
    n = rng.choice([2, 3, 3, 4, 5, 6, 8])
    idx = rng.sample(range(1, 16), n)
    if rng.random() < 0.25:
        idx.append(rng.choice(idx))
    if rng.random() < 0.15:
        idx = [rng.choice([1, 2, 3, 10, 11, 12]) for _ in idx]
    rules = []
    for k, i in enumerate(idx):
        rules.append({"index": i, "pat": rng.choice(["a", "a", "b", "X"]),
                      "kind": rng.choice(["fact", "ok", "no", "no", "multi"]), "k": "%d_%d" % (rid, k)})
    rng.shuffle(rules)
    return rules


def rule_text(pred, r):
    pat, k = r["pat"], r["k"]
    if r["kind"] == "fact":
        return ["%s(%d, %s, o%s)." % (pred, r["index"], pat, k)]
    if r["kind"] == "ok":
        return ["%s(%d, %s, o%s) :- ok(k%s)." % (pred, r["index"], pat, k, k), "ok(k%s)." % k]
    if r["kind"] == "no":
        return ["%s(%d, %s, o%s) :- no(k%s)." % (pred, r["index"], pat, k, k)]
    return ["%s(%d, %s, O) :- val(k%s, O)." % (pred, r["index"], pat, k), "val(k%s, o%s_1)." % (k, k), "val(k%s, o%s_2)." % (k, k)]


def vstr(t):
    from problog.logic import Term
    if t is None or isinstance(t, int):
        return "_"
    return str(t)


def run_sets(sets):
    """Returns {(rid, input): {"cut1": set of (X,O), "cut2": set of (X,O,I)}} or {"EXC": ...}.
    The q1/q2 clauses for constant inputs and for the unbound input share a head, so a query
    q1(rid, _, _) returns the union; answers are attributed to the input by re-querying per input."""
    from problog.program import PrologString
    from problog.engine import DefaultEngine
    from problog.logic import Term, Constant
    out = {}
    try:
        eng = DefaultEngine()
        db = eng.prepare(PrologString(program_text_split(sets)))
        for rid, rules in sets:
            for inp in INPUTS:
                tag = inp if inp is not None else "u"
                r1 = eng.query(db, Term("q1_%s" % tag, Constant(rid), None, None))
                r2 = eng.query(db, Term("q2_%s" % tag, Constant(rid), None, None, None))
                out[(rid, inp)] = {"cut1": frozenset((vstr(r[1]), vstr(r[2])) for r in r1),
                                   "cut2": frozenset((vstr(r[1]), vstr(r[2]), vstr(r[3])) for r in r2)}
        return out
    except Exception as e:  # noqa
        if len(sets) == 1:
            return {(sets[0][0], inp): {"EXC": "%s: %s" % (type(e).__name__, str(e)[:200])} for inp in INPUTS}
        mid = len(sets) // 2
        out = run_sets(sets[:mid])
        out.update(run_sets(sets[mid:]))
        return out


def program_text_split(sets):
    lines = [":- use_module(library(cut)).", "no(_) :- fail.", "ok(kdummy).", "val(kdummy, odummy)."]
    for rid, rules in sets:
        pred = "r%d" % rid
        for r in rules:
            lines += rule_text(pred, r)
        for c in ("a", "b", "c"):
            lines.append("q1_%s(%d, %s, O) :- cut(%s(%s, O))." % (c, rid, c, pred, c))
            lines.append("q2_%s(%d, %s, O, I) :- cut(%s(%s, O), I)." % (c, rid, c, pred, c))
        lines.append("q1_u(%d, X, O) :- cut(%s(X, O))." % (rid, pred))
        lines.append("q2_u(%d, X, O, I) :- cut(%s(X, O), I)." % (rid, pred))
    return "\n".join(lines) + "\n"


# ------------------------------------------------------------------ reference
def abstract(rules, inp):
    """Per clause (file order): (index, matches, answers) for the call r(inp, O)."""
    res = []
    for r in rules:
        matches = r["pat"] == "X" or inp is None or r["pat"] == inp
        answers = []
        if matches and r["kind"] != "no":
            x = inp if inp is not None else (r["pat"] if r["pat"] != "X" else "_")
            if r["kind"] == "multi":
                answers = [(x, "o%s_1" % r["k"]), (x, "o%s_2" % r["k"])]
            else:
                answers = [(x, "o%s" % r["k"])]
        res.append((r["index"], matches, answers))
    return res


def reference(rules, inp, key=lambda i: i):
    """Lowest applicable index wins (order given by `key`); returns (index, frozenset of answers) or None."""
    ab = abstract(rules, inp)
    app = sorted({i for i, m, a in ab if a}, key=key)
    if not app:
        return None
    v = app[0]
    return v, frozenset(x for i, m, a in ab if i == v for x in a)


def observed_choice(ob):
    """(index, answers) from the cut/2 observation, None when no answer; 'AMBIG' when several indices."""
    if not ob["cut2"]:
        return None
    idxs = {t[2] for t in ob["cut2"]}
    if len(idxs) != 1:
        return "AMBIG"
    v = idxs.pop()
    try:
        v = int(v)
    except ValueError:
        return "AMBIG"
    return v, frozenset((t[0], t[1]) for t in ob["cut2"])


def judge(rules, inp, ob):
    """None when fine, else (klass, what)."""
    if "EXC" in ob:
        return None, "engine raised %s" % ob["EXC"]
    exp = reference(rules, inp)
    got = observed_choice(ob)
    exp1 = exp[1] if exp else frozenset()
    if got == exp and ob["cut1"] == exp1:
        return None
    what = "cut/2 gives %s, cut/1 gives %s; lowest applicable index is %s" % (
        "no answer" if got is None else got if got == "AMBIG" else "index %d with %s" % (got[0], sorted(got[1])),
        sorted(ob["cut1"]), "none (no rule applicable)" if exp is None else "%d with %s" % (exp[0], sorted(exp[1])))
    # narrow class: the observation is exactly "lowest applicable index in TEXT order of the decimal spelling"
    txt = reference(rules, inp, key=lambda i: str(i))
    txt1 = txt[1] if txt else frozenset()
    if got == txt and ob["cut1"] == txt1 and exp is not None and got is not None and got != "AMBIG" and got[0] > exp[0] and str(got[0]) < str(exp[0]):
        return K_NUM, what
    return "?", what


# ------------------------------------------------------------------ coq side
def coq_header():
    return "\n".join([
        "From Coq Require Import ZArith NArith List Bool.",
        "From PL.C15 Require Import ModelStd ModelPrelude GenStructCmp.",
        "From PL.C33 Require Import ModelCut.",
        "Import ListNotations.",
        "Definition fr (k : Z) : text := (@nil N).",
        "Definition R (i : Z) (m : bool) (a : list nat) : crule nat := Build_crule (TInt i) m a.",
        "Definition sub (l m : list nat) : bool := forallb (fun x => existsb (Nat.eqb x) m) l.",
        "Definition seteq (l m : list nat) : bool := sub l m && sub m l.",
        "(* observed: index (0 when none) and answer ids *)",
        "Definition cut_ok (rs : list (crule nat)) (none : bool) (i : Z) (ans : list nat) : bool :=",
        "  match cut_m fr nat rs with",
        "  | None => none",
        "  | Some (v, a) => negb none && term_eqb v (TInt i) && seteq a ans",
        "  end.",
        "Definition cut1_ok (rs : list (crule nat)) (ans : list nat) : bool :=",
        "  match cut_m fr nat rs with None => seteq [] ans | Some (_, a) => seteq a ans end.",
    ]) + "\n"


def coq_case(rules, inp, ob):
    """Two bool terms: cut/2 observation and cut/1 observation against cut_m."""
    ab = abstract(rules, inp)
    ids = {}
    for i, m, a in ab:
        for x in a:
            ids.setdefault(x, len(ids))
    rs = "[%s]" % "; ".join("R %d %s [%s]%%nat" % (i, vf.coq_bool(m), "; ".join(str(ids[x]) for x in a)) for i, m, a in ab)
    got = observed_choice(ob)
    if got == "AMBIG" or any(x not in ids for x in ob["cut1"]) or (got and any(x not in ids for x in got[1])):
        return ["false", "false"]
    c2 = "cut_ok %s %s %d [%s]%%nat" % (rs, vf.coq_bool(got is None), got[0] if got else 0,
                                       "; ".join(str(ids[x]) for x in sorted(got[1])) if got else "")
    c1 = "cut1_ok %s [%s]%%nat" % (rs, "; ".join(str(ids[x]) for x in sorted(ob["cut1"])))
    return [c2, c1]


def show_rules(rules):
    out = []
    for r in rules:
        out += rule_text("r", r)
    return out


def shrink(rules, inp, klass):
    """Drop clauses while the same class of violation stays."""
    rules = list(rules)
    i = 0
    while i < len(rules):
        cand = rules[:i] + rules[i + 1:]
        if cand:
            ob = run_sets([(0, cand)])[(0, inp)]
            j = judge(cand, inp, ob)
            if j is not None and j[0] == klass:
                rules = cand
                continue
        i += 1
    return rules


# ------------------------------------------------------------------ the check
def generate(ctx):
    ctx.generate("C15/GenStructCmp.v", c15_structcmp.generate(vf.REPO))
    ctx.generate("C33/GenLibCut.v", c33_libcut.generate(vf.REPO))


def optional_build(ctx, rel):
    vfile = os.path.join("theories", rel)
    with vf.BuildLock():
        cone = vf.coq_cone(vfile)
        mk = vf.refresh_makefile(cone, "." + ctx.prop + "x")
        rc, out = vf.sh(["make", "-f", mk, "-j8"] + [f[:-2] + ".vo" for f in cone], cwd=vf.COQ, timeout=900)
    return rc == 0, out[-800:]


def replay(ctx, r):
    rules, inp = r["rules"], r["input"]
    ob = run_sets([(0, rules)])[(0, inp)]
    j = judge(rules, inp, ob)
    ctx.case(("replay", str(rules), inp), True)
    if j is not None:
        ctx.violation("cut(r(%s,O)) over the clauses %s: %s" % (inp or "X", " ".join(show_rules(rules)), j[1]),
                      {"rules": rules, "input": inp, "program": show_rules(rules)}, klass=None if j[0] in ("?", None) else j[0])


def run(ctx):
    ctx.cov["rule"] = ("generated rule sets r(Index, In, Out): 2-9 clauses, indices from 1..15 (sometimes repeated, sometimes clustered on "
                       "1,2,3,10,11,12), shuffled file order, head pattern a/b/variable, body fact / true condition / failing condition / "
                       "two answers; each set is called with In = a, b, c and unbound through cut/1 and cut/2.  A case (rule set, input) is "
                       "non-trivial when at least two clauses with different indices are applicable.")
    ctx.assumptions += [
        "ModelCut.v is a hand reading of the five clauses of library/cut.pl (pinned by C33_library_pinned; tied by the differential runs)",
        "index terms are ground and such that unification is identity (integers here)",
        "deterministic rule bodies (the property text speaks about applicable rules, not about probabilistic bodies)",
        "everything C15 assumes about sort/2 (generated model of struct_cmp, CPython sorted/set)",
    ]
    # translators are fail-closed; a failure is a broken obligation, NOT the end of the check: the judge below runs on
    # the real library in any case and looks for the concrete failing input.
    model_ok = True
    for what, fn in (("gen/c15_structcmp.py cannot translate engine_builtin.py", lambda: ctx.generate("C15/GenStructCmp.v", c15_structcmp.generate(vf.REPO))),
                     ("gen/c33_libcut.py cannot translate library/cut.pl", lambda: ctx.generate("C33/GenLibCut.v", c33_libcut.generate(vf.REPO)))):
        try:
            fn()
        except Exception as e:  # noqa
            model_ok = False
            ctx.broken.append("translator:%s (%s: %s)" % (what, type(e).__name__, str(e)[:300]))
            ctx.notes.append("translator failed: %s: %s" % (type(e).__name__, e))
            ctx.log("translator failed: %s" % str(e)[:200])
    if model_ok:
        try:
            ctx.prove("C33/Props.v")
        except Exception as e:  # noqa
            ctx.broken.append("proof-cone:C33/Props.v (%s: %s)" % (type(e).__name__, str(e)[:300]))
        ctx.log("Props.v: %d/%d" % (ctx.cov["discharged"], ctx.cov["obligations"]))
    else:
        # a stale generated model proves nothing about this source: the obligations stay undischarged
        try:
            import re
            with open(os.path.join(vf.THEORIES, "C33", "Props.v")) as f:
                ctx.cov["obligations"] += len(re.findall(r"^\s*(?:Theorem|Corollary)\s", vf.strip_coq_comments(f.read()), re.M))
        except OSError:
            pass

    if ctx.replay:
        replay(ctx, ctx.replay.get("replay", ctx.replay))
        return
    cdir = os.path.join(vf.CORPUS, "C33")
    for name in sorted(os.listdir(cdir)) if os.path.isdir(cdir) else []:
        if name.endswith(".json"):
            import json
            with open(os.path.join(cdir, name)) as f:
                replay(ctx, json.load(f))
            ctx.count("corpus_replayed")

    nsets = ctx.n(200, 5000)
    sets = [(rid, gen_ruleset(ctx.rng, rid)) for rid in range(nsets)]
    # seeded example of the documented use and of the known failure shape
    sets[0] = (0, [{"index": 10, "pat": "a", "kind": "fact", "k": "0_0"}, {"index": 2, "pat": "a", "kind": "fact", "k": "0_1"},
                   {"index": 3, "pat": "b", "kind": "fact", "k": "0_2"}])
    if nsets > 1:
        sets[1] = (1, [{"index": 12, "pat": "X", "kind": "fact", "k": "1_0"}, {"index": 4, "pat": "X", "kind": "ok", "k": "1_1"},
                       {"index": 1, "pat": "b", "kind": "no", "k": "1_2"}])
    B = 25
    obs = {}
    for part in pl.pmap(run_sets, [sets[lo:lo + B] for lo in range(0, len(sets), B)], chunksize=1):
        obs.update(part)
    bad = {}
    cases, metas = [], []
    for rid, rules in sets:
        for inp in INPUTS:
            ob = obs[(rid, inp)]
            ab = abstract(rules, inp)
            napp = len({i for i, m, a in ab if a})
            ctx.case(("set", tuple((r["index"], r["pat"], r["kind"]) for r in rules), inp), napp >= 2,
                     sample={"rules": show_rules(rules), "input": inp or "unbound", "cut2": sorted(ob.get("cut2", []))})
            ctx.count("applicable_indices_%d" % min(napp, 4))
            ctx.count("clauses_%d" % len(rules))
            j = judge(rules, inp, ob)
            if j is not None:
                bad.setdefault(j[0], []).append((rules, inp, j[1]))
            if "EXC" not in ob and model_ok:
                cs = coq_case(rules, inp, ob)
                cases += cs
                metas += [(rid, inp, "cut/2"), (rid, inp, "cut/1")]
    ctx.cov["rule_sets"] = nsets
    ctx.cov["calls"] = nsets * len(INPUTS)
    ctx.cov["calls_agree_with_property"] = nsets * len(INPUTS) - sum(len(v) for v in bad.values())
    for k in sorted(bad):
        ctx.count("violating_calls[%s]" % k, len(bad[k]))
        group = sorted(bad[k], key=lambda z: (len(z[0]), str(z[0])))
        for rules, inp, what in group[:2]:
            small = shrink(rules, inp, k)
            ob = run_sets([(0, small)])[(0, inp)]
            j = judge(small, inp, ob)
            ctx.violation("cut(r(%s,O)) over the clauses %s: %s" % (inp or "X", " ".join(show_rules(small)), j[1] if j else what),
                          {"rules": small, "input": inp, "program": show_rules(small)}, klass=None if k == "?" else k)
    ctx.log("engine: %d calls, %d disagree with the property" % (nsets * len(INPUTS), sum(len(v) for v in bad.values())))
    if cases:
        try:
            shard = len(cases) if ctx.tier == "quick" else max(100, (len(cases) + 7) // 8)
            badc = ctx.coq_failing(coq_header(), cases, name="cut", shard=shard, timeout=1500, jobs=6)
        except RuntimeError as e:
            ctx.broken.append("correspondence:C33 cases do not evaluate in Coq")
            ctx.notes.append(str(e))
            badc = []
        ctx.cov["model_vs_library"] = "%d/%d observations agree with cut_m" % (len(cases) - len(badc), len(cases))
        byid = dict(sets)
        for b in badc[:3]:
            rid, inp, which = metas[b]
            ctx.broken.append("correspondence:ModelCut.cut_m differs from library(cut) %s on input %s over %s"
                              % (which, inp or "unbound", " ".join(show_rules(byid[rid]))))
        ctx.log("coq side: %d cases, %d bad" % (len(cases), len(badc)))
    else:
        ctx.cov["model_vs_library"] = "not evaluated (no generated model for this source)"
    if ctx.tier == "thorough" and model_ok:
        ctx.coqchk("PL.C33.Props")
