"""C21 — DT-ProbLog and MAP return optimal strategies (problog/tasks/dtproblog.py, map.py)."""
import itertools
import os
from fractions import Fraction

import pl
import vf

META = {
    "id": "C21",
    "level": "proof",
    "technique": "Coq proofs about a hand model of search_exhaustive/search_local/evaluate and the MAP reduction "
                 "(score function and constraint filter universally quantified) + differential correspondence with "
                 "problog.tasks.dtproblog / problog.tasks.map on generated decision programs, judged by exact "
                 "possible-world expected utilities",
    "design_ref": "DESIGN.md §5 C21",
    "text": "Theorems: exhaustive search returns an admissible maximiser and reports its score; local search, whenever it "
            "stops, is 1-flip optimal and it stops within (2^n+1)(n+1) steps; evaluate() = expected utility unless an atom has "
            "utilities on both polarities; the MAP objective as coded is maximised by the search. Tie: generated programs, "
            "real dtproblog/map vs the Coq model run on the exact score table and vs brute force over all strategies.",
    "note": "Trusted: Coq kernel + vm_compute; the harness's possible-world enumerator (Fractions) as the expected-utility "
            "reference; decision ADs are read as 'exactly one head is chosen' (ConstraintAD.check, blessed by test/dtproblog/mut_exl2.pl).",
}

TOL = Fraction(1, 10 ** 9)
# The hand model describes dtproblog.evaluate AS IT IS at the pinned commit: a utility on `a` and one on `\\+a`
# are both added twice.  When fixes/C21-utility-both-polarities.patch is applied, set this to False (and drop the
# no_complement guard of C21_score_is_EU): the tie then runs the model on the plain expected utility.
EVALUATE_DOUBLE_COUNTS = True
PROBS = ["0.1", "0.2", "0.25", "0.3", "0.4", "0.5", "0.6", "0.7", "0.75", "0.8", "0.9"]
REWARDS = ["1", "2", "3", "4", "5", "6", "8", "10", "-1", "-2", "-3", "-4", "-5", "-7", "-10", "0.5", "2.5", "-1.5", "0", "12"]

HEADER = """From Coq Require Import QArith Qabs List Bool NArith Arith.
From PL.C21 Require Import ModelDTSearch.
Import ListNotations.
Local Close Scope Q_scope.
Fixpoint strat_eqb (a b : strategy) : bool :=
  match a, b with
  | [], [] => true
  | x :: a', y :: b' => Bool.eqb x y && strat_eqb a' b'
  | _, _ => false
  end.
Definition ex_agrees (t : list Q) (groups : list (list nat)) (n : nat) (s : strategy) (ev : nat) (eps : Q) : bool :=
  match search_exhaustive (table_score t) (ads_admissible groups) n with
  | (Some (b, sc), e) =>
      (strat_eqb b s || (Qle_bool (Qabs (sc - table_score t s)) eps && ads_admissible groups s && negb (Qle_bool eps 0)))
      && Nat.eqb e ev
  | _ => false
  end.
Definition local_agrees (t : list Q) (own : list (option Q)) (s : strategy) (ev : nat) : bool :=
  match search_local (table_score t) (local_fuel (length own)) (init_choices own) with
  | Some r => strat_eqb (l_choices r) s && Nat.eqb (l_evals r) ev
  | None => false
  end.
"""


def coq_Q(fr):
    fr = Fraction(fr)
    if fr.numerator < 0:
        return "((%d) # %d)%%Q" % (fr.numerator, fr.denominator)
    return "(%d # %d)%%Q" % (fr.numerator, fr.denominator)


# ------------------------------------------------------------------ programs
def lit_txt(l):
    return ("\\+" if l[0] else "") + l[1]


def render(p):
    out = []
    for n, pr in p["facts"]:
        out.append("%s::%s." % (pr, n))
    for ad in p["pads"]:
        out.append("; ".join("%s::%s" % (pr, n) for n, pr in ad["heads"])
                   + (" :- " + ", ".join(lit_txt(l) for l in ad["body"]) if ad["body"] else "") + ".")
    for n in p["decs"]:
        out.append("?::%s." % n)
    for ad in p["dads"]:
        out.append("; ".join("?::%s" % n for n in ad["heads"])
                   + (" :- " + ", ".join(lit_txt(l) for l in ad["body"]) if ad["body"] else "") + ".")
    for h, body in p["rules"]:
        out.append("%s :- %s." % (h, ", ".join(lit_txt(l) for l in body)))
    for neg, a, v in p["utils"]:
        out.append("utility(%s, %s)." % (lit_txt((neg, a)), v))
    for a in p.get("queries", []):
        out.append("query(%s)." % a)
    for a, val in p.get("evidence", []):
        out.append("evidence(%s, %s)." % (a, "true" if val else "false"))
    return "\n".join(out) + "\n"


def gen_dt(rng):
    p = {"facts": [], "pads": [], "decs": [], "dads": [], "rules": [], "utils": []}
    nf = rng.choice([0, 1, 2, 2, 3, 3, 4])
    p["facts"] = [("f%d" % i, rng.choice(PROBS)) for i in range(nf)]
    nd = rng.choice([1, 1, 2, 2, 3, 3, 4, 5])
    p["decs"] = ["d%d" % i for i in range(nd)]
    base = [n for n, _ in p["facts"]] + p["decs"]
    if rng.random() < 0.35:
        k = rng.choice([2, 2, 3])
        split = rng.choice([["0.3", "0.4", "0.2"], ["0.5", "0.5", "0"], ["0.2", "0.2", "0.2"], ["0.6", "0.1", "0.3"]])
        body = [(rng.random() < 0.3, rng.choice(base))] if rng.random() < 0.4 else []
        p["pads"].append({"heads": [("x%d" % i, split[i]) for i in range(k) if split[i] != "0"], "body": body})
    if rng.random() < 0.35:
        k = rng.choice([2, 2, 3])
        body = [(False, rng.choice(base))] if rng.random() < 0.35 else []
        p["dads"].append({"heads": ["c%d" % i for i in range(k)], "body": body})
    atoms = list(base) + [n for ad in p["pads"] for n, _ in ad["heads"]] + [n for ad in p["dads"] for n in ad["heads"]]
    nr = rng.choice([1, 2, 2, 3, 3, 4, 5])
    for i in range(nr):
        h = "r%d" % i
        for _ in range(rng.choice([1, 1, 2])):
            body = []
            for a in rng.sample(atoms, min(len(atoms), rng.choice([1, 2, 2, 3]))):
                body.append((rng.random() < 0.3, a))
            p["rules"].append((h, body))
        atoms.append(h)
    cand = list(atoms)
    rng.shuffle(cand)
    nu = rng.choice([1, 2, 2, 3, 3, 4, 5])
    chosen = cand[:nu]
    if rng.random() < 0.9:
        # most programs: at least one decision carries a cost/reward and the last derived atom a reward
        for a in (rng.choice(p["decs"]), "r%d" % (nr - 1)):
            if a not in chosen:
                chosen.append(a)
    for a in chosen:
        p["utils"].append((rng.random() < 0.3, a, rng.choice(REWARDS)))
    if rng.random() < 0.12 and p["utils"]:
        neg, a, _ = rng.choice(p["utils"])
        p["utils"].append((not neg, a, rng.choice(REWARDS)))
    return p


def gen_map(rng):
    p = {"facts": [], "pads": [], "decs": [], "dads": [], "rules": [], "utils": [], "queries": [], "evidence": []}
    nf = rng.choice([2, 3, 3, 4, 4, 5, 6])
    p["facts"] = [("f%d" % i, rng.choice(PROBS)) for i in range(nf)]
    atoms = [n for n, _ in p["facts"]]
    if rng.random() < 0.25:
        p["pads"].append({"heads": [("x0", "0.3"), ("x1", "0.5")], "body": []})
        atoms += ["x0", "x1"]
    nr = rng.choice([1, 2, 2, 3, 4])
    for i in range(nr):
        h = "r%d" % i
        for _ in range(rng.choice([1, 2, 2])):
            body = [(rng.random() < 0.3, a) for a in rng.sample(atoms, min(len(atoms), rng.choice([1, 2, 2, 3])))]
            p["rules"].append((h, body))
        atoms.append(h)
    facts = [n for n, _ in p["facts"]]
    p["queries"] = rng.sample(facts, min(nf, rng.choice([1, 2, 2, 3, 4])))
    derived = ["r%d" % i for i in range(nr)]
    for a in rng.sample(derived, rng.choice([0, 1, 1, 1, min(2, nr)])):
        p["evidence"].append((a, rng.random() < 0.6))
    if rng.random() < 0.1:
        rest = [f for f in facts if f not in p["queries"]]
        if rest:
            p["evidence"].append((rng.choice(rest), rng.random() < 0.5))
    return p


# ------------------------------------------------------------------ exact possible-world semantics
class Sem:
    """Exact semantics of a generated program.  Decisions = plain decisions
    followed by the heads of decision ADs (one bit each)."""

    def __init__(self, p):
        self.p = p
        self.D = list(p["decs"]) + [n for ad in p["dads"] for n in ad["heads"]]
        self.groups = []
        for ad in p["dads"]:
            self.groups.append([self.D.index(n) for n in ad["heads"]])
        # worlds over probabilistic facts and probabilistic ADs
        fact_opts = [[(n, True, Fraction(pr)), (n, False, 1 - Fraction(pr))] for n, pr in p["facts"]]
        ad_opts = []
        for k, ad in enumerate(p["pads"]):
            opts = [(k, i, Fraction(pr)) for i, (_, pr) in enumerate(ad["heads"])]
            rest = 1 - sum(o[2] for o in opts)
            if rest > 0:
                opts.append((k, None, rest))
            ad_opts.append(opts)
        self.worlds = []
        for combo in itertools.product(*(fact_opts + ad_opts)):
            w = Fraction(1)
            fv, ch = {}, {}
            for c in combo[:len(fact_opts)]:
                fv[c[0]] = c[1]
                w *= c[2]
            for c in combo[len(fact_opts):]:
                ch[c[0]] = c[1]
                w *= c[2]
            if w > 0:
                self.worlds.append((w, fv, ch))
        self._cache = {}

    def admissible(self, s):
        return all(sum(s[i] for i in g) == 1 for g in self.groups)

    def truth(self, fv, ch, s):
        p = self.p
        v = dict(fv)
        for i, n in enumerate(self.D):
            v[n] = bool(s[i])          # plain decisions; AD bits are overwritten below

        def holds(body):
            return all(v[a] != neg for neg, a in body)
        # AD heads may have bodies over facts/decisions only (base atoms)
        bits = {n: bool(s[i]) for i, n in enumerate(self.D)}
        for k, ad in enumerate(p["pads"]):
            b = holds(ad["body"])
            for i, (n, _) in enumerate(ad["heads"]):
                v[n] = b and ch[k] == i
        for ad in p["dads"]:
            b = holds(ad["body"])
            for n in ad["heads"]:
                v[n] = b and bits[n]
        heads = []
        for h, _ in p["rules"]:
            if h not in heads:
                heads.append(h)
        for h in heads:
            v[h] = any(holds(body) for hh, body in p["rules"] if hh == h)
        return v

    def probs(self, s):
        """atom -> probability under the full strategy s (tuple of 0/1)."""
        s = tuple(s)
        if s not in self._cache:
            acc = {}
            for w, fv, ch in self.worlds:
                for a, t in self.truth(fv, ch, s).items():
                    if t:
                        acc[a] = acc.get(a, 0) + w
                    else:
                        acc.setdefault(a, Fraction(0))
            self._cache[s] = acc
        return self._cache[s]

    def eu(self, s):
        pr = self.probs(s)
        tot = Fraction(0)
        for neg, a, v in self.p["utils"]:
            tot += Fraction(v) * ((1 - pr[a]) if neg else pr[a])
        return tot

    def code_objective(self, s):
        """dtproblog.evaluate as coded: for every key r: P(r) u(r) + (1-P(r)) u(-r)."""
        pr = self.probs(s)
        u = {(neg, a): Fraction(v) for neg, a, v in self.p["utils"]}
        tot = Fraction(0)
        for (neg, a) in u:
            pl_ = (1 - pr[a]) if neg else pr[a]
            tot += pl_ * u[(neg, a)]
            if EVALUATE_DOUBLE_COUNTS:
                tot += (1 - pl_) * u.get((not neg, a), 0)
        return tot

    def all_full(self):
        return list(itertools.product((0, 1), repeat=len(self.D)))


# ------------------------------------------------------------------ running the implementation
def run_dt(src, search):
    def go():
        from problog.tasks import dtproblog
        from problog.program import PrologString
        import logging
        logging.getLogger("dtproblog").setLevel(logging.ERROR)
        choices, score, stats = dtproblog.dtproblog(PrologString(src), search=search)
        if choices is None:
            return ("ok", None, score, stats.get("eval"))
        out = []
        for k, v in choices.items():
            raw = str(k)
            if k.functor == "choice":
                k = k.args[2]
            out.append((str(k), int(v), raw))
        return ("ok", out, score, stats.get("eval"))
    try:
        return pl.with_timeout(go, 60)
    except BaseException as e:  # noqa
        if isinstance(e, (KeyboardInterrupt, SystemExit)):
            raise
        return ("err", pl.err_class(e), str(e)[:120])


def run_map(src, search, scratch):
    def go():
        from problog.tasks import map as pmap
        path = os.path.join(scratch, "map_%d_%d.pl" % (os.getpid(), abs(hash(src)) % 10 ** 9))
        with open(path, "w") as f:
            f.write(src)
        try:
            r = pmap.main([path] + (["-s", "local"] if search == "local" else []), result_handler=lambda r, o: None)
        finally:
            os.unlink(path)
        if not r[0]:
            raise r[1]
        choices, score, stats = r[1]
        return ("ok", [(str(k), int(v)) for k, v in choices.items()], score, stats.get("eval"))
    try:
        return pl.with_timeout(go, 60)
    except BaseException as e:  # noqa
        if isinstance(e, (KeyboardInterrupt, SystemExit)):
            raise
        return ("err", pl.err_class(e), str(e)[:120])


def local_mirror_near_tie(table, own, n):
    """Replays the search_local rule on the exact table only to find out whether
    some comparison was closer than TOL (then float rounding may legitimately
    take the other branch and the strategies are not compared)."""
    c = [1 if (u is not None and u > 0) else 0 for u in own]
    idx = lambda s: int("".join(map(str, s)), 2) if s else 0
    best = table[idx(c)]
    last, stop, near = None, False, False
    guard = 0
    while not stop and guard < 100000:
        for j in range(n):
            guard += 1
            if last == j:
                stop = True
                break
            c[j] = 1 - c[j]
            fs = table[idx(c)]
            if abs(fs - best) <= TOL:
                near = True
            if fs <= best:
                c[j] = 1 - c[j]
            else:
                last, best = j, fs
        if last is None:
            stop = True
    return near


def resolve_alias(p, D, name):
    """Syntactic alias (used for MAP evidence): r :- d. / r :- \\+d. chains.  Returns (atom of D, parity) or None."""
    neg = False
    seen = 0
    while seen < 50:
        seen += 1
        if name.startswith("\\+"):
            neg = not neg
            name = name[2:]
            continue
        if name in D:
            return name, neg
        rules = [b for h, b in p["rules"] if h == name]
        if len(rules) >= 1 and all(r == rules[0] for r in rules) and len(rules[0]) == 1:
            n2, a2 = rules[0][0]
            neg = neg != n2
            name = a2
            continue
        return None
    return None


def semantic_alias(sem, name, taken):
    """The ground program keeps ONE node for all atoms that simplify to the same
    literal (r :- d.  r1 :- r, d.  r2 :- \\+d.), and dtproblog reports the decision
    under whichever name the node carries (`r1`, `\\+r2`).  Returns (decision, parity)
    such that the literal `name` is true exactly when decision == 1 - parity in every
    world under every strategy, or None."""
    neg = name.startswith("\\+")
    atom = name[2:] if neg else name
    if not neg and atom in sem.D:
        return atom, False
    full = sem.all_full()
    cands = {(d, par) for d in sem.D if d not in taken for par in (False, True)}
    for s_ in full:
        for w, fv, ch in sem.worlds:
            v = sem.truth(fv, ch, s_)
            if atom not in v:
                return None
            val = v[atom] != neg
            cands = {(d, par) for d, par in cands if (bool(s_[sem.D.index(d)]) != par) == val}
            if not cands:
                return None
    return sorted(cands)[0]


def work_dt(item):
    """Worker: run both searches on one program, compute the exact tables."""
    p, modes = item if isinstance(item, tuple) else (item, (None, "local"))
    src = render(p)
    sem = Sem(p)
    full = sem.all_full()
    adm = [s for s in full if sem.admissible(s)]
    eu = {s: sem.eu(s) for s in full}
    best_eu = max(eu[s] for s in adm)
    res = {"src": src, "p": p, "D": sem.D, "best_eu": best_eu, "runs": {}}
    both = sorted({a for neg, a, _ in p["utils"] if (not neg, a) in {(n2, a2) for n2, a2, _ in p["utils"]}})
    res["both_polarities"] = both
    for search in modes:
        r = run_dt(src, search)
        info = {"raw": r}
        if r[0] == "ok" and r[1] is not None:
            names = [x[0] for x in r[1]]
            vals = [x[1] for x in r[1]]
            raws = [x[2] for x in r[1]]
            info["names"], info["vals"] = names, vals
            al = []
            for nm in names:
                x = semantic_alias(sem, nm, {y[0] for y in al if y is not None})
                al.append(x)
            info["aliased"] = sum(1 for nm in names if nm not in sem.D)
            if any(x is None for x in al) or len({x[0] for x in al}) != len(al):
                info["bad_names"] = True
            else:
                par = [1 if x[1] else 0 for x in al]
                pos = [sem.D.index(x[0]) for x in al]
                ung = [i for i in range(len(sem.D)) if i not in pos]
                info["ungrounded"] = [sem.D[i] for i in ung]

                def fill(partial, rest):
                    s = [0] * len(sem.D)
                    for i, v, pa in zip(pos, partial, par):
                        s[i] = v ^ pa
                    for i, v in zip(ung, rest):
                        s[i] = v
                    return tuple(s)
                # the judge: admissible completions of the returned strategy
                comps = [fill(vals, rest) for rest in itertools.product((0, 1), repeat=len(ung))]
                adm_c = [s for s in comps if sem.admissible(s)]
                info["has_admissible_completion"] = bool(adm_c)
                info["eu_returned"] = max(eu[s] for s in adm_c) if adm_c else eu[fill(vals, [0] * len(ung))]
                # table of the code's objective over the grounded decisions, in the code's order
                k = len(names)
                table = [sem.code_objective(fill(bits, [0] * len(ung))) for bits in itertools.product((0, 1), repeat=k)]
                true_table = [eu[fill(bits, [0] * len(ung))] for bits in itertools.product((0, 1), repeat=k)]
                info["table"], info["true_table"] = table, true_table
                groups = []
                for g in sem.groups:
                    gg = [pos.index(i) for i in g if i in pos]
                    if gg:
                        groups.append(gg)
                info["groups"] = groups
                info["ad_partially_grounded"] = any(len([i for i in g if i in pos]) >= 2 and any(i not in pos for i in g)
                                                    for g in sem.groups)
                u = {(neg, a): Fraction(v) for neg, a, v in p["utils"]}
                # `key in utilities` is asked with the RAW key: a choice(N,i,head) term is never a utility key
                info["own"] = [None if raw != nm else (u.get((True, nm[2:])) if nm.startswith("\\+") else u.get((False, nm)))
                               for nm, raw in zip(names, raws)]
                if search == "local":
                    info["near_tie"] = local_mirror_near_tie(table, info["own"], k)
        res["runs"][search or "exhaustive"] = info
    return res


# ------------------------------------------------------------------ MAP reference
def work_map(item):
    p, scratch = item
    src = render(p)
    sem = Sem(p)
    q = p["queries"]
    # joint distribution of (query assignment, evidence holds)
    joint = {}
    pe = Fraction(0)
    marg = {a: Fraction(0) for a in q}
    for w, fv, ch in sem.worlds:
        v = sem.truth(fv, ch, ())
        if all(v[a] == val for a, val in p["evidence"]):
            pe += w
            key = tuple(int(v[a]) for a in q)
            joint[key] = joint.get(key, 0) + w
            for a in q:
                if v[a]:
                    marg[a] += w
    res = {"src": src, "p": p, "pe": pe, "runs": {}}
    # queried facts that some evidence literal is equivalent to in every world (the grounder may give both one node,
    # e.g. r1 :- r0, f0 with r0 :- f0); used as a second reading when the syntactic alias does not explain a run
    forced_sem = []
    truths = [sem.truth(fv, ch, ()) for _, fv, ch in sem.worlds]
    for a, val in p["evidence"]:
        for qa in q:
            if all((v[a] == v[qa]) for v in truths) and val:
                forced_sem.append(qa)
            elif all((v[a] != v[qa]) for v in truths) and not val:
                forced_sem.append(qa)
    res["forced_sem"] = forced_sem
    if pe > 0:
        res["marg"] = {a: marg[a] / pe for a in q}
        res["joint"] = {k: x / pe for k, x in joint.items()}
    for search in (None, "local"):
        res["runs"][search or "exhaustive"] = run_map(src, search, scratch)
    return res


# ------------------------------------------------------------------ shrinking
def shrink_prog(p, bad, budget_s=15.0):
    """Greedy structural shrinking keeping `bad(program)` true, for at most budget_s seconds."""
    import copy
    import time
    t_end = time.time() + budget_s
    changed = True
    while changed and time.time() < t_end:
        changed = False
        cands = []
        for i in range(len(p["utils"])):
            if len(p["utils"]) > 1:
                q = copy.deepcopy(p)
                del q["utils"][i]
                cands.append(q)
        for i, (h, body) in enumerate(p["rules"]):
            if sum(1 for hh, _ in p["rules"] if hh == h) > 1:
                q = copy.deepcopy(p)
                del q["rules"][i]
                cands.append(q)
            for j in range(len(body)):
                if len(body) > 1:
                    q = copy.deepcopy(p)
                    del q["rules"][i][1][j]
                    cands.append(q)
        used = {a for _, b in p["rules"] for _, a in b} | {a for _, a, _ in p["utils"]} | \
               {a for ad in p["pads"] + p["dads"] for _, a in ad["body"]} | set(p.get("queries", [])) | \
               {a for a, _ in p.get("evidence", [])}
        for key in ("facts", "decs"):
            for i, it in enumerate(p[key]):
                nm = it[0] if key == "facts" else it
                if nm not in used and (key != "decs" or len(p["decs"]) + len(p["dads"]) > 1):
                    q = copy.deepcopy(p)
                    del q[key][i]
                    cands.append(q)
        heads = []
        for h, _ in p["rules"]:
            if h not in heads:
                heads.append(h)
        for h in heads:
            if h not in used:
                q = copy.deepcopy(p)
                q["rules"] = [r for r in q["rules"] if r[0] != h]
                cands.append(q)
        for key in ("pads", "dads"):
            for i, ad in enumerate(p[key]):
                hs = [x[0] if key == "pads" else x for x in ad["heads"]]
                if not any(h in used for h in hs):
                    q = copy.deepcopy(p)
                    del q[key][i]
                    cands.append(q)
        for i in range(len(p.get("evidence", []))):
            q = copy.deepcopy(p)
            del q["evidence"][i]
            cands.append(q)
        for q in cands:
            if time.time() > t_end:
                break
            try:
                if bad(q):
                    p = q
                    changed = True
                    break
            except Exception:
                pass
    return p


# ------------------------------------------------------------------ judging one DT run
def judge_dt(res, mode):
    """Returns (verdict, what, klass).  verdict in ok / refused / violation."""
    info = res["runs"][mode]
    r = info["raw"]
    p = res["p"]
    if r[0] == "err":
        if mode == "local" and r[1].startswith("ProbLogError") and "constraints" in r[2]:
            return ("refused", "local search refuses constraints", None)
        klass = None
        if r[1] == "INTERNAL:KeyError":
            # the decision is in the ground program but not in the compiled formula
            sem = Sem(p)
            nm = r[2].strip("'\"")
            al = semantic_alias(sem, nm, set())
            if al is not None:
                i = sem.D.index(al[0])
                full = sem.all_full()
                if all(sem.eu(s_) == sem.eu(tuple(1 - x if j == i else x for j, x in enumerate(s_))) for s_ in full):
                    klass = "dt-irrelevant-decision-missing-from-compiled-formula-keyerror"
        return ("violation", "%s search raised %s: %s on\n%s" % (mode, r[1], r[2], res["src"]), klass)
    if r[1] is None:
        return ("violation", "%s search returned no strategy" % mode, None)
    if info.get("bad_names"):
        return ("violation", "%s search returned unknown/duplicate decisions %r" % (mode, info["names"]), None)
    reported = Fraction(r[2])
    k = len(info["names"])
    idx = int("".join(map(str, info["vals"])), 2) if k else 0
    # the run behaves as the model says (with no relevant decision the only table entry is the program's score)
    as_coded = len(info["table"]) > idx and abs(reported - info["table"][idx]) <= TOL
    problems = []
    if abs(reported - info["eu_returned"]) > TOL:
        problems.append("reported score %r but the expected utility of the returned strategy is %s" % (r[2], info["eu_returned"]))
    if mode == "exhaustive":
        if not info["has_admissible_completion"]:
            problems.append("returned strategy cannot be completed to an admissible one")
        if info["eu_returned"] < res["best_eu"] - TOL:
            problems.append("returned strategy has expected utility %s, optimum is %s" % (info["eu_returned"], res["best_eu"]))
    else:
        tt = info["true_table"]
        for j in range(k):
            fl = idx ^ (1 << (k - 1 - j))
            if tt[fl] > tt[idx] + TOL:
                problems.append("flipping %s improves the expected utility from %s to %s" % (info["names"][j], tt[idx], tt[fl]))
                break
    if not problems:
        return ("ok", "", None)
    klass = None
    if res["both_polarities"] and as_coded and info["table"] != info["true_table"]:
        klass = "dt-utility-on-both-polarities-double-counted"
    elif k == 0 and r[2] == 0.0:
        klass = "dt-no-relevant-decision-score-zero"
    elif mode == "exhaustive" and info["ad_partially_grounded"] and as_coded:
        klass = "dt-decision-ad-ungrounded-head-excluded"
    what = "dtproblog(%s) on\n%s%s: %s" % (mode, res["src"], dict(zip(info["names"], info["vals"])), "; ".join(problems))
    return ("violation", what, klass)


def dt_bad_pred(mode, klass):
    def bad(q):
        res = work_dt((q, (None if mode == "exhaustive" else "local",)))
        v = judge_dt(res, mode)
        return v[0] == "violation" and v[2] == klass
    return bad


def run_dt_programs(ctx, progs):
    results = pl.pmap(work_dt, progs, jobs=8, chunksize=1)
    ctx.log("dt: %d programs run" % len(results))
    cases, metas = [], []
    seen_viol = {}
    for res in results:
        p = res["p"]
        nd = len(res["D"])
        for mode in ("exhaustive", "local"):
            info = res["runs"][mode]
            verdict, what, klass = judge_dt(res, mode)
            ctx.count("dt_%s_%s" % (mode, verdict))
            k = len(info.get("names", []))
            nontrivial = verdict != "refused" and k >= 2 and len(set(info.get("table", []))) > 1
            ctx.case(("dt", mode, res["src"]), nontrivial,
                     sample={"mode": mode, "program": res["src"], "result": repr(info["raw"])[:200]})
            ctx.count("dt_grounded_decisions", 0)
            ctx.count("dt_decisions=%d" % k)
            if verdict == "violation":
                key = klass
                seen_viol[key] = seen_viol.get(key, 0) + 1
                known = any(kf.get("property") == "C21" and kf.get("class") == klass and kf.get("status") == "known"
                            for kf in ctx.known)
                if (seen_viol[key] <= 1 or klass is None) and not known and seen_viol[key] <= 3:
                    small = shrink_prog(p, dt_bad_pred(mode, klass))
                    sres = work_dt(small)
                    _, swhat, _ = judge_dt(sres, mode)
                    ctx.violation(swhat, {"task": "dt", "mode": mode, "program": small, "src": sres["src"],
                                          "observed": repr(sres["runs"][mode]["raw"]), "optimum": str(sres["best_eu"])},
                                  klass=klass)
                else:
                    ctx.violation(what, {"task": "dt", "mode": mode, "program": p, "src": res["src"],
                                         "observed": repr(info["raw"]), "optimum": str(res["best_eu"])}, klass=klass)
            # the tie with the Coq model: same table, same constraints, same order
            r = info["raw"]
            if r[0] == "ok" and r[1] is not None and k >= 1 and not info.get("bad_names"):
                t = vf.coq_list([coq_Q(x) for x in info["table"]])
                s = vf.coq_list([vf.coq_bool(v) for v in info["vals"]])
                if mode == "exhaustive":
                    g = vf.coq_list([vf.coq_list([vf.coq_nat(i) for i in gg]) for gg in info["groups"]])
                    term = "ex_agrees %s %s %s %s %s" % (t, g, vf.coq_nat(k), s, vf.coq_nat(r[3]))
                    cases.append(term + " 0%Q")
                    metas.append((mode, res, term))
                else:
                    own = vf.coq_list([vf.coq_option(coq_Q(u) if u is not None else None) for u in info["own"]])
                    cases.append("local_agrees %s %s %s %s" % (t, own, s, vf.coq_nat(r[3])))
                    metas.append((mode, res, None))
                # reported score against the code's objective of the returned strategy
                idx = int("".join(map(str, info["vals"])), 2)
                if abs(Fraction(r[2]) - info["table"][idx]) > TOL:
                    ctx.broken.append("correspondence:reported score %r is not the modelled evaluate() value %s on\n%s"
                                      % (r[2], info["table"][idx], res["src"]))
    ctx.log("dt: judged, %d model cases" % len(cases))
    try:
        bad = ctx.coq_failing(HEADER, cases, name="dt")
    except RuntimeError as e:
        ctx.broken.append("correspondence:ModelDTSearch does not evaluate")
        ctx.notes.append(str(e))
        return
    # second round: exhaustive cases that differ only by an (almost) exact tie
    retry = [i for i in bad if metas[i][0] == "exhaustive"]
    still = set(bad)
    if retry:
        bad2 = ctx.coq_failing(HEADER, [metas[i][2] + " (1 # 1000000000)%Q" for i in retry], name="dt_tie")
        for j, i in enumerate(retry):
            if j not in bad2:
                still.discard(i)
                ctx.count("dt_exhaustive_tie_other_argmax")
    for i in sorted(still):
        mode, res, _ = metas[i]
        if mode == "local" and res["runs"]["local"].get("near_tie"):
            still.discard(i)
            ctx.count("dt_local_near_tie_not_compared")
    ctx.cov["dt_model_vs_impl_agree"] = ctx.cov.get("dt_model_vs_impl_agree", 0) + len(cases) - len(still)
    ctx.cov["dt_model_vs_impl_cases"] = ctx.cov.get("dt_model_vs_impl_cases", 0) + len(cases)
    for i in sorted(still)[:5]:
        mode, res, _ = metas[i]
        ctx.broken.append("correspondence:ModelDTSearch %s vs dtproblog on\n%s got %r" % (mode, res["src"], res["runs"][mode]["raw"]))


# ------------------------------------------------------------------ MAP
MAP_HEADER = HEADER + """
Definition map_agrees (m : list Q) (forced : list nat) (s : strategy) (ev : nat) (eps : Q) : bool :=
  match search_exhaustive (map_objective m) (forced_admissible forced) (length m) with
  | (Some (b, sc), e) =>
      (strat_eqb b s || (Qle_bool (Qabs (sc - map_objective m s)) eps && forced_admissible forced s && negb (Qle_bool eps 0)))
      && Nat.eqb e ev
  | _ => false
  end.
"""


def run_map_programs(ctx, progs):
    results = pl.pmap(work_map, [(p, ctx.scratch) for p in progs], jobs=8, chunksize=2)
    cases, metas = [], []
    nviol = {}
    for res in results:
        p = res["p"]
        q = p["queries"]
        for mode in ("exhaustive", "local"):
            r = res["runs"][mode]
            ctx.case(("map", mode, res["src"]), len(q) >= 2 and bool(p["evidence"]),
                     sample={"mode": "map-" + mode, "program": res["src"], "result": repr(r)[:200]})
            if res["pe"] == 0:
                ctx.count("map_inconsistent_evidence")
                if r[0] == "ok":
                    ctx.violation("map answered a program whose evidence has probability 0:\n" + res["src"],
                                  {"task": "map", "mode": mode, "src": res["src"], "observed": repr(r)}, klass=None)
                continue
            if r[0] == "err":
                ctx.count("map_%s_error_%s" % (mode, r[1]))
                if mode == "local" and r[1].startswith("ProbLogError") and "constraints" in r[2]:
                    ctx.count("map_local_refused")
                    continue
                klass = None
                ev_on_query = False
                for a, val in p["evidence"]:
                    al = resolve_alias(p, q, a)
                    if al is not None and (al[1] != val):
                        ev_on_query = True
                if mode == "exhaustive" and r[1] == "INTERNAL:AttributeError" and "TrueConstraint" in r[2] and ev_on_query:
                    klass = "map-positive-evidence-on-queried-fact-trueconstraint-has-no-check"
                ctx.violation("map(%s) raised %s: %s on\n%s" % (mode, r[1], r[2], res["src"]),
                              {"task": "map", "mode": mode, "src": res["src"], "program": p, "observed": repr(r)}, klass=klass)
                continue
            names = [k for k, _ in r[1]]
            vals = [v for _, v in r[1]]
            if sorted(names) != sorted(q):
                ctx.violation("map(%s) assigned %r, queries are %r on\n%s" % (mode, names, q, res["src"]),
                              {"task": "map", "mode": mode, "src": res["src"], "observed": repr(r)}, klass=None)
                continue
            m = [res["marg"][a] for a in names]
            obj = lambda s: sum((mq if b else 1 - mq) for mq, b in zip(m, s))
            reported = Fraction(r[2])
            ctx.count("map_%s_ok" % mode)
            # (i) the objective as coded / documented score
            if abs(reported - obj(vals)) > TOL:
                ctx.violation("map(%s) reports score %r, the objective of its assignment is %s on\n%s"
                              % (mode, r[2], obj(vals), res["src"]),
                              {"task": "map", "mode": mode, "src": res["src"], "observed": repr(r)}, klass=None)
            best = max(obj(s) for s in itertools.product((0, 1), repeat=len(m)))
            if mode == "exhaustive" and obj(vals) < best - TOL:
                ctx.violation("map(exhaustive) objective %s below the maximum %s on\n%s" % (obj(vals), best, res["src"]),
                              {"task": "map", "mode": mode, "src": res["src"], "observed": repr(r)}, klass=None)
            if mode == "local":
                for j in range(len(m)):
                    s2 = list(vals)
                    s2[j] = 1 - s2[j]
                    if obj(s2) > obj(vals) + TOL:
                        ctx.violation("map(local): flipping %s improves the objective on\n%s" % (names[j], res["src"]),
                                      {"task": "map", "mode": mode, "src": res["src"], "observed": repr(r)}, klass=None)
                        break
            # (ii) maximum a posteriori in the usual sense: argmax_s P(Q = s | e)
            if mode == "exhaustive":
                order = [q.index(a) for a in names]
                jp = {}
                for key, x in res["joint"].items():
                    kk = tuple(key[i] for i in order)
                    jp[kk] = jp.get(kk, 0) + x
                jbest = max(jp.values())
                mine = jp.get(tuple(vals), Fraction(0))
                if mine < jbest - TOL:
                    ctx.count("map_not_joint_map")
                    nviol["j"] = nviol.get("j", 0) + 1
                    klass = "map-maximises-sum-of-posterior-marginals-not-joint-posterior" if abs(obj(vals) - best) <= TOL else None
                    if nviol["j"] <= 3:
                        ctx.violation("map returns %r with joint posterior %s; the most probable assignment %r has %s, on\n%s"
                                      % (dict(zip(names, vals)), mine, max(jp, key=lambda k_: jp[k_]), jbest, res["src"]),
                                      {"task": "map", "mode": mode, "src": res["src"], "program": p, "observed": repr(r),
                                       "joint_posterior": {str(k_): str(x) for k_, x in jp.items()}}, klass=klass)
                    elif klass is None:
                        ctx.violation("map not joint-optimal (unclassified) on\n" + res["src"],
                                      {"task": "map", "src": res["src"], "observed": repr(r)}, klass=None)
                # evidence whose node IS a queried fact (r0 :- f0. evidence(r0).) and asks it to be true: TrueConstraint on that decision
                forced = set()
                for a, val in p["evidence"]:
                    al = resolve_alias(p, q, a)
                    if al is not None and al[1] != val:
                        forced.add(names.index(al[0]))
                if any(not vals[i] for i in forced):
                    ctx.violation("map(exhaustive) returns %r against positive evidence on a queried fact on\n%s"
                                  % (dict(zip(names, vals)), res["src"]),
                                  {"task": "map", "mode": mode, "src": res["src"], "program": p, "observed": repr(r)}, klass=None)
                if forced:
                    ctx.count("map_evidence_forces_queried_fact")
                t = "map_agrees %s %s %s %s" % (vf.coq_list([coq_Q(x) for x in m]),
                                                vf.coq_list([vf.coq_nat(i) for i in sorted(forced)]),
                                                vf.coq_list([vf.coq_bool(v) for v in vals]), vf.coq_nat(r[3]))
                cases.append(t + " 0%Q")
                fs = sorted({names.index(x) for x in res.get("forced_sem", []) if x in names})
                t2 = "map_agrees %s %s %s %s" % (vf.coq_list([coq_Q(x) for x in m]), vf.coq_list([vf.coq_nat(i) for i in fs]),
                                                 vf.coq_list([vf.coq_bool(v) for v in vals]), vf.coq_nat(r[3]))
                metas.append((res, t, t2))
    try:
        bad = ctx.coq_failing(MAP_HEADER, cases, name="map")
        still = set(bad)
        if bad:
            bad2 = ctx.coq_failing(MAP_HEADER, [metas[i][1] + " (1 # 1000000000)%Q" for i in bad], name="map_tie")
            for j, i in enumerate(bad):
                if j not in bad2:
                    still.discard(i)
                    ctx.count("map_tie_other_argmax")
        rest = sorted(still)
        if rest:
            bad3 = ctx.coq_failing(MAP_HEADER, [metas[i][2] + " (1 # 1000000000)%Q" for i in rest], name="map_sem")
            for j, i in enumerate(rest):
                if j not in bad3:
                    still.discard(i)
                    ctx.count("map_constraint_on_semantically_aliased_fact")
    except RuntimeError as e:
        ctx.broken.append("correspondence:MAP model does not evaluate")
        ctx.notes.append(str(e))
        return
    ctx.cov["map_model_vs_impl_agree"] = len(cases) - len(still)
    ctx.cov["map_model_vs_impl_cases"] = len(cases)
    for i in sorted(still)[:5]:
        ctx.broken.append("correspondence:MAP model vs map.main on\n%s got %r" % (metas[i][0]["src"], metas[i][0]["runs"]["exhaustive"]))


# ------------------------------------------------------------------ fixed witnesses (DESIGN §7 style: reproduce through the check)
WITNESS_DT = [
    # utility on both polarities
    {"facts": [("f0", "0.3")], "pads": [], "decs": ["d0"], "dads": [],
     "rules": [("r0", [(False, "d0"), (False, "f0")])],
     "utils": [(False, "r0", "5"), (True, "r0", "2"), (False, "d0", "-1")]},
    # decision AD with an irrelevant head
    {"facts": [], "pads": [], "decs": [], "dads": [{"heads": ["c0", "c1", "c2"], "body": []}], "rules": [],
     "utils": [(False, "c0", "-1"), (False, "c1", "-2")]},
    # a grounded decision that the compiled formula does not mention
    {"facts": [], "pads": [], "decs": ["d0"], "dads": [],
     "rules": [("r0", [(False, "d0")]), ("r2", [(False, "r0")]), ("r4", [(False, "r0"), (True, "r2")])],
     "utils": [(False, "r4", "2")]},
    # decision AD with a body of which a single head is grounded: no constraint, local search runs; its key is a
    # choice(N,i,head) term, which is never `in utilities` (initial strategy 0 although utility(c1) > 0)
    {"facts": [("f0", "0.5")], "pads": [], "decs": ["d0"], "dads": [{"heads": ["c0", "c1"], "body": [(False, "d0")]}],
     "rules": [("r0", [(False, "c1"), (False, "f0")])],
     "utils": [(False, "c1", "5"), (False, "d0", "-1"), (False, "r0", "2")]},
    # no decision is relevant
    {"facts": [("f0", "0.3")], "pads": [], "decs": ["d0"], "dads": [], "rules": [("r0", [(False, "f0")])],
     "utils": [(False, "r0", "2")]},
    # test/dtproblog/ex5-like: local search stays in a 1-flip optimum that is not the optimum
    {"facts": [("f0", "0.5")], "pads": [], "decs": ["d0", "d1"], "dads": [],
     "rules": [("r0", [(False, "d0"), (False, "d1"), (False, "f0")])],
     "utils": [(False, "r0", "10"), (False, "d0", "-1"), (False, "d1", "-1")]},
]
WITNESS_MAP = [
    {"facts": [("f0", "0.7"), ("f1", "0.7")], "pads": [], "decs": [], "dads": [],
     "rules": [("r0", [(False, "f0"), (False, "f1")])], "utils": [],
     "queries": ["f0", "f1"], "evidence": [("r0", False)]},
    # positive evidence on (an alias of) a queried fact: TrueConstraint has no check()
    {"facts": [("f0", "0.7"), ("f1", "0.4")], "pads": [], "decs": [], "dads": [],
     "rules": [("r0", [(False, "f0")])], "utils": [],
     "queries": ["f0", "f1"], "evidence": [("r0", True)]},
]


def run(ctx):
    ctx.cov["rule"] = ("random propositional decision programs: 0-4 probabilistic facts, optional probabilistic AD, 1-5 `?::d` "
                       "decisions, optional decision AD (2-3 heads, optional body), 1-5 derived atoms with 1-2 rules of 1-3 "
                       "literals (30% negated, acyclic), 1-5 utilities on atoms / negated atoms (12%: both polarities of one "
                       "atom); each program is run with exhaustive and local search. MAP: 2-6 facts, 1-4 queried, evidence on "
                       "derived atoms. A case is non-trivial when >= 2 decisions are grounded and the score table is not constant "
                       "(MAP: >= 2 queries and evidence). distinct = distinct (task, mode, program text)")
    ctx.assumptions += [
        "expected utilities are computed by the harness's own possible-world enumeration over exact rationals (reference semantics)",
        "a decision AD means: exactly one of its heads is chosen (ConstraintAD.check; test/dtproblog/mut_exl2.pl expects it)",
        "decision names are pairwise different, so `last_update == key` is index equality",
        "utility/2 facts with the same key are outside the generated fragment (python dict keeps the last one)",
        "score comparisons are done on exact rationals; the float implementation may take the other branch on differences below 1e-9 "
        "(counted, not compared)",
    ]
    ctx.cov["trusted_base"] += ["harness possible-world enumerator (harness/props/C21.py class Sem)"]
    ctx.prove("C21/Props.v")
    ctx.prove("C21/PropsExtra.v")
    with open(os.path.join(vf.THEORIES, "C21", "Findings.v")) as f:
        rc, out = ctx.coq_run(f.read(), "findings")
    ctx.cov["findings_witnesses_compile"] = (rc == 0)
    if rc:
        ctx.notes.append("C21/Findings.v no longer compiles (a known finding no longer reproduces on the model): " + out[-500:])

    if ctx.replay:
        rp = ctx.replay.get("replay", {})
        if rp.get("task") == "dt" and "program" in rp:
            run_dt_programs(ctx, [rp["program"]])
        elif rp.get("task") == "map" and "program" in rp:
            run_map_programs(ctx, [rp["program"]])
        return

    progs = list(WITNESS_DT) + [gen_dt(ctx.rng) for _ in range(ctx.n(44, 700))]
    run_dt_programs(ctx, progs)
    ctx.log("dt done")
    mprogs = list(WITNESS_MAP) + [gen_map(ctx.rng) for _ in range(ctx.n(16, 250))]
    run_map_programs(ctx, mprogs)
