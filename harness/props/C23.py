"""C23 — k-best anytime bounds are sound and tight on completion
(problog/kbest.py, problog/cnf_formula.py partial encoding, problog/maxsat.py, tasks/explain.py)."""
import itertools
import os
import re
from fractions import Fraction

import vf
import pl

META = {
    "id": "C23",
    "level": "proof",
    "technique": "Coq proofs about hand models of the partial (pt/ct) CNF encoding, from_partial, Border.update and the "
                 "lower/upper/convergence loop (MaxSAT solver = section variable with a soundness/completeness contract); "
                 "differential tie: real clause sets, solver answers and border updates replayed in the model",
    "design_ref": "DESIGN.md §5 C23",
    "text": "Theorems: soundness and completeness of the 3-valued encoding w.r.t. Clark's completion of a LogicDAG; successive "
            "k-best solutions are pairwise exclusive cubes that entail the query; sum of cube probabilities <= P(q), = P(q) when "
            "the solver reports unsatisfiable; every result of the evaluate loop is sound, with or without annotated disjunctions (weight lemma "
            "and total weight 1 proved with the exactly-one clauses present for AD-saturated cubes, which the smart-constraint indicator "
            "clauses enforce). Tie: generated evidence-free programs, "
            "kbest/explain results and every intermediate bound vs exact world enumeration done in the harness; every MaxSAT answer "
            "checked to be a model of the clause set it was given; model clause sets / from_partial / border values vs the real ones.",
    "note": "Trusted: Coq kernel + vm_compute; hand models (sampled correspondence); maxsatz only through the checked contract "
            "(answers are verified to be models on every call; 'unsatisfiable' answers are cross-checked by the exactness judge).",
}

TOL = 1e-9
PROBS = [Fraction(k, 20) for k in range(1, 20)]


# ------------------------------------------------------------------ generator
def gen_program(rng):
    """Propositional evidence-free program: facts, body-less ADs, rules with stratified
    negation and (sometimes) positive cycles.  Returns a dict description."""
    nf = rng.choice([1, 2, 3, 3, 4, 4, 5, 6, 7])
    nad = rng.choice([0, 0, 0, 1, 1, 2])
    facts = [("f%d" % i, rng.choice(PROBS)) for i in range(nf)]
    ads = []
    for j in range(nad):
        m = rng.choice([2, 2, 3])
        if rng.random() < 0.3:
            parts = sorted(rng.sample(range(1, 20), m - 1))
            ps = [Fraction(b - a, 20) for a, b in zip([0] + parts, parts + [20])]
        else:
            ps = []
            rest = 19
            for k in range(m):
                x = rng.randint(1, max(1, rest - (m - k - 1)))
                ps.append(Fraction(x, 20))
                rest -= x
        ads.append([("h%d_%d" % (j, k), p) for k, p in enumerate(ps)])
    base = [f for f, _ in facts] + [h for ad in ads for h, _ in ad]
    nd = rng.choice([1, 2, 2, 3, 3, 4, 5])
    rules = []
    for i in range(nd):
        for _ in range(rng.choice([1, 1, 2, 2, 3])):
            body = []
            for _ in range(rng.choice([1, 2, 2, 3])):
                pool = base + ["d%d" % j for j in range(i)]
                a = rng.choice(pool)
                neg = rng.random() < 0.3
                if (a, neg) not in body and (a, not neg) not in body:
                    body.append((a, neg))
            rules.append(("d%d" % i, body))
    # occasional positive back edge (cycle), kept only if it stays stratified
    if nd >= 2 and rng.random() < 0.3:
        i = rng.randrange(nd - 1)
        j = rng.randrange(i + 1, nd)
        cand = rules + [("d%d" % i, [("d%d" % j, False), (rng.choice(base), False)])]
        if stratified(cand):
            rules = cand
    nq = rng.choice([1, 1, 2])
    queries = sorted(set(rng.choice(["d%d" % i for i in range(nd)] + (base if rng.random() < 0.15 else []))
                         for _ in range(nq)))
    return {"facts": facts, "ads": ads, "rules": rules, "queries": queries}


def sccs(nodes, edges):
    index, low, on, st, out, cnt = {}, {}, set(), [], [], [0]

    def visit(v):
        index[v] = low[v] = cnt[0]
        cnt[0] += 1
        st.append(v)
        on.add(v)
        for w in edges.get(v, ()):
            if w not in index:
                visit(w)
                low[v] = min(low[v], low[w])
            elif w in on:
                low[v] = min(low[v], index[w])
        if low[v] == index[v]:
            comp = []
            while True:
                w = st.pop()
                on.discard(w)
                comp.append(w)
                if w == v:
                    break
            out.append(comp)
    for v in nodes:
        if v not in index:
            visit(v)
    return out  # reverse topological order (dependencies first)


def stratified(rules):
    heads = sorted(set(h for h, _ in rules))
    edges = {}
    for h, body in rules:
        for a, neg in body:
            if a.startswith("d"):
                edges.setdefault(h, set()).add(a)
    comp = {}
    for k, c in enumerate(sccs(heads, edges)):
        for v in c:
            comp[v] = k
    for h, body in rules:
        for a, neg in body:
            if neg and a in comp and comp[a] == comp[h]:
                return False
    return True


def program_text(p):
    lines = []
    for f, pr in p["facts"]:
        lines.append("%s::%s." % (float(pr), f))
    for ad in p["ads"]:
        lines.append("; ".join("%s::%s" % (float(pr), h) for h, pr in ad) + ".")
    for h, body in p["rules"]:
        lines.append("%s :- %s." % (h, ", ".join(("\\+" if neg else "") + a for a, neg in body)))
    for q in p["queries"]:
        lines.append("query(%s)." % q)
    return "\n".join(lines) + "\n"


def derived_model(p, true_base):
    """Stratified least model of the rules under a choice of base atoms."""
    rules = p["rules"]
    heads = sorted(set(h for h, _ in rules))
    edges = {}
    for h, body in rules:
        for a, _ in body:
            if a.startswith("d"):
                edges.setdefault(h, set()).add(a)
    val = set(true_base)
    for comp in sccs(heads, edges):
        changed = True
        cs = set(comp)
        while changed:
            changed = False
            for h, body in rules:
                if h in cs and h not in val:
                    if all((a in val) != neg for a, neg in body):
                        val.add(h)
                        changed = True
    return val


def worlds(p):
    """All total choices with their exact probability (Fractions)."""
    opts = []
    for f, pr in p["facts"]:
        opts.append([((f,), pr), ((), 1 - pr)])
    for ad in p["ads"]:
        o = [((h,), pr) for h, pr in ad]
        rest = 1 - sum(pr for _, pr in ad)
        if rest > 0:
            o.append(((), rest))
        opts.append(o)
    for combo in itertools.product(*opts):
        pr = Fraction(1)
        tb = []
        for atoms, x in combo:
            pr *= x
            tb.extend(atoms)
        yield tb, pr


def exact_probs(p):
    res = {q: Fraction(0) for q in p["queries"]}
    for tb, pr in worlds(p):
        m = derived_model(p, tb)
        for q in p["queries"]:
            if q in m:
                res[q] += pr
    return res


# ------------------------------------------------------------------ instrumented run of the implementation
def _hard_soft(dimacs):
    lines = dimacs.split("\n")
    hdr = lines[0].split()
    nv, nc, top = int(hdr[2]), int(hdr[3]), int(hdr[4])
    hard, soft = [], []
    for ln in lines[1:]:
        if not ln or ln.startswith("c"):
            continue
        xs = [int(t) for t in ln.split()]
        assert xs[-1] == 0
        if xs[0] >= top:
            hard.append(xs[1:-1])
        else:
            soft.append((xs[0], xs[1:-1]))
    return nv, nc, top, hard, soft


def run_impl(item):
    """Worker: ground, build the k-best CNF, run kbest in several modes with recording wrappers
    (no /repo change: the wrappers are installed in this process only)."""
    prog, scratch, solver_kind, modes, do_task = item
    import random
    import tempfile
    tempfile.tempdir = scratch
    import problog.kbest as kb
    import problog.maxsat as mx
    from problog.program import PrologString
    from problog.formula import LogicFormula, LogicDAG
    src = program_text(prog)
    out = {"src": src, "modes": {}}
    try:
        lf = LogicFormula.create_from(PrologString(src))
        dag = LogicDAG.create_from(lf)
    except BaseException as e:  # grounding problems are not C23's business
        if isinstance(e, (KeyboardInterrupt, SystemExit)):
            raise
        out["ground_error"] = pl.err_class(e)
        return out
    try:
        f = kb.KBestFormula.create_from(dag)
    except BaseException as e:
        if isinstance(e, (KeyboardInterrupt, SystemExit)):
            raise
        out["kbest_error"] = "create:" + pl.err_class(e)
        return out
    # structure for the model tie
    nodes = []
    for i, nd, t in dag:
        if t == "atom":
            nodes.append(("atom", []))
        else:
            nodes.append((t, [int(c) for c in nd.children]))
    out["nodes"] = nodes
    out["clauses"] = [[c[0] if isinstance(c[0], bool) else int(c[0])] + [int(x) for x in c[1:]] for c in f.clauses]
    out["atomcount"] = f.atomcount
    wts = {}
    for k, v in f.get_weights().items():
        wts[int(k)] = None if v is True else float(v)
    out["weights"] = wts
    out["adgroups"] = [[sorted(int(x) for x in c.nodes), int(c.extra_node) if c.extra_node else None]
                       for c in f.constraints() if type(c).__name__ == "ConstraintAD" and c.is_nontrivial()]
    out["queries"] = [(str(n), (None if i is None else int(i))) for n, i, l in f.labeled()]

    calls = []
    trace = []

    class RecSolver(mx.MaxSATSolver):
        def evaluate(self, formula, **kwargs):
            inputf = self.prepare_input(formula, **kwargs)
            output = self.call_process(inputf)
            try:
                result = self.process_output(output)
            except mx.UnsatisfiableError:
                calls.append({"dimacs": inputf, "answer": None})
                raise
            calls.append({"dimacs": inputf, "answer": list(result)})
            return result

    created = []

    BaseBorder = kb.Border

    class RecBorder(BaseBorder):
        def __init__(self, *a, **k):
            BaseBorder.__init__(self, *a, **k)
            created.append(self)
            self._pair = (len(created) - 1) // 2

        def update(self):
            before = [[c[0] if isinstance(c[0], bool) else int(c[0])] + [int(x) for x in c[1:]] for c in self.wcnf.clauses]
            ncalls = len(calls)
            sol = BaseBorder.update(self)
            trace.append({"name": self.name, "pair": self._pair, "query": int(self.wcnf.clauses[len(f.clauses)][1]), "clauses": before, "call": ncalls if len(calls) > ncalls else None,
                          "solution": None if sol is None else [int(s) for s in sol],
                          "value": float(self.value),
                          "improvement": None if self.improvement is None else float(self.improvement)})
            return sol

    srng = random.Random(src)

    class DpllSolver(mx.MaxSATSolver):
        """Harness-side stand-in: returns SOME model of the hard clauses (random polarities, no
        optimisation at all) or raises UnsatisfiableError.  Exercises the claim that optimality of
        the MaxSAT answer is irrelevant for soundness, at a fraction of maxsatz's start-up cost."""
        def evaluate(self, formula, **kwargs):
            inputf = self.prepare_input(formula, **kwargs)
            nv, nc, top, hard, soft = _hard_soft(inputf)
            model = dpll_model(hard, nv, srng)
            if model is None:
                calls.append({"dimacs": inputf, "answer": None, "solver": "dpll"})
                raise mx.UnsatisfiableError()
            calls.append({"dimacs": inputf, "answer": list(model), "solver": "dpll"})
            return model

    old_solver, old_border = kb.get_solver, kb.Border
    if solver_kind == "dpll":
        kb.get_solver = lambda prefer=None: DpllSolver(["none"])
    else:
        kb.get_solver = lambda prefer=None: RecSolver(["maxsatz"])
    kb.Border = RecBorder
    try:
        for mode, kwargs in (("default", {}), ("conv0", {"convergence": 0.0}), ("wide", {"convergence": 0.3}),
                             ("lower", {"lower_only": True}), ("explain", None)):
            if mode not in modes:
                continue
            del calls[:]
            del trace[:]
            del created[:]
            rec = {}
            try:
                if kwargs is None:
                    expl = []
                    res = f.evaluate(explain=expl)
                    rec["explain"] = list(expl)
                else:
                    res = f.evaluate(**kwargs)
                rec["result"] = {str(k): (list(v) if isinstance(v, tuple) else float(v)) for k, v in res.items()}
            except BaseException as e:
                if isinstance(e, (KeyboardInterrupt, SystemExit)):
                    raise
                rec["error"] = pl.err_class(e) + ":" + repr(e)[:200]
            # split the trace per query: evaluate() handles the queries one after the other
            rec["trace"] = [dict(t) for t in trace]
            rec["calls"] = [dict(c) for c in calls]
            out["modes"][mode] = rec
    finally:
        kb.get_solver, kb.Border = old_solver, old_border
    # the explain task itself (CLI entry point) on the same program
    if not do_task:
        return out
    try:
        from problog.tasks import explain as ex
        path = os.path.join(scratch, "p%d_%d.pl" % (os.getpid(), abs(hash(src)) % 10 ** 9))
        with open(path, "w") as fh:
            fh.write(src)
        r = ex.main([path, "-o", path + ".out"])
        if r.get("SUCCESS"):
            out["explain_task"] = {"proofs": list(r["proofs"]),
                                   "results": {str(k): (list(v) if isinstance(v, tuple) else float(v)) for k, v in r["results"].items()}}
        else:
            out["explain_task"] = {"error": str(r.get("err", {}).get("message", "?"))[:300]}
        for x in (path, path + ".out"):
            try:
                os.remove(x)
            except OSError:
                pass
    except BaseException as e:
        if isinstance(e, (KeyboardInterrupt, SystemExit)):
            raise
        out["explain_task"] = {"error": pl.err_class(e) + ":" + repr(e)[:200]}
    return out


# ------------------------------------------------------------------ judges (Python side)
def answer_is_model(call):
    """The solver's contract, checked on every call: the answer mentions every variable at most
    once, no 0, and every hard clause contains a literal of the answer."""
    nv, nc, top, hard, soft = _hard_soft(call["dimacs"])
    ans = call["answer"]
    if ans is None:
        return True, (nv, top, hard, soft)
    s = set(ans)
    if 0 in s or len(set(abs(x) for x in ans)) != len(ans):
        return False, (nv, top, hard, soft)
    for c in hard:
        if not any(l in s for l in c):
            return False, (nv, top, hard, soft)
    return True, (nv, top, hard, soft)


def dpll_model(hard, nv, rng):
    """Some total model of the hard clauses (list of signed ints over 1..nv) or None."""
    import sys
    sys.setrecursionlimit(max(sys.getrecursionlimit(), 10000))
    assign = {}

    def propagate(cls, asg):
        changed = True
        while changed:
            changed = False
            new = []
            for c in cls:
                sat = False
                rest = []
                for l in c:
                    v = asg.get(abs(l))
                    if v is None:
                        rest.append(l)
                    elif (l > 0) == v:
                        sat = True
                        break
                if sat:
                    continue
                if not rest:
                    return None
                if len(rest) == 1:
                    asg[abs(rest[0])] = rest[0] > 0
                    changed = True
                else:
                    new.append(rest)
            cls = new
        return cls

    def solve(cls, asg):
        cls = propagate(cls, asg)
        if cls is None:
            return None
        if not cls:
            return asg
        v = abs(cls[0][0])
        # odd variables are "possibly true", even ones "certainly true": prefer unknown
        pref = (v % 2 == 1) if rng.random() < 0.7 else (rng.random() < 0.5)
        for val in (pref, not pref):
            a2 = dict(asg)
            a2[v] = val
            r = solve(cls, a2)
            if r is not None:
                return r
        return None
    res = solve([list(c) for c in hard], assign)
    if res is None:
        return None
    out = []
    for v in range(1, nv + 1):
        val = res.get(v)
        if val is None:
            val = (v % 2 == 1) if rng.random() < 0.7 else (rng.random() < 0.5)
        out.append(v if val else -v)
    return out


def brute_unsat(hard, nv, limit=22):
    """Independent check of an 'unsatisfiable' answer for small instances (DPLL)."""
    clauses = [list(c) for c in hard]

    def solve(cls, depth=0):
        if any(len(c) == 0 for c in cls):
            return False
        if not cls:
            return True
        unit = next((c[0] for c in cls if len(c) == 1), None)
        lit_ = unit if unit is not None else cls[0][0]
        for choice in ([lit_] if unit is not None else [lit_, -lit_]):
            new = []
            ok = True
            for c in cls:
                if choice in c:
                    continue
                if -choice in c:
                    c2 = [x for x in c if x != -choice]
                    if not c2:
                        ok = False
                        break
                    new.append(c2)
                else:
                    new.append(c)
            if ok and solve(new, depth + 1):
                return True
        return False
    return not solve(clauses)


def judge_program(ctx, prog, obs, exact):
    """Property-level judge.  Returns list of (what, klass)."""
    bad = []
    qidx = dict(obs["queries"])
    for mode, rec in obs["modes"].items():
        if "error" in rec:
            bad.append(("kbest (%s) raised %s" % (mode, rec["error"]), "kbest-raises"))
            continue
        for q, ex in exact.items():
            if q not in rec["result"]:
                bad.append(("kbest (%s) does not report query %s" % (mode, q), "kbest-missing-query"))
                continue
            v = rec["result"][q]
            e = float(ex)
            if isinstance(v, list):
                if not (v[0] - TOL <= e <= v[1] + TOL):
                    bad.append(("kbest (%s) interval %r does not contain exact %s=%r" % (mode, v, q, e), "kbest-interval-unsound"))
                ctx.count("result_interval")
                if v[1] - v[0] > 1e-6:
                    ctx.count("result_interval_wide")
            else:
                if abs(v - e) > TOL:
                    bad.append(("kbest (%s) value %r != exact %s=%r" % (mode, v, q, e), "kbest-value-wrong"))
                ctx.count("result_value")
        # intermediate bounds after every border update (pair = the lb/ub borders of one query)
        vals = {}
        for t in rec["trace"]:
            lbv, ubv = vals.get(t["pair"], (0.0, 0.0))
            if t["name"] == "lower":
                lbv = t["value"]
                qlit = t["query"]
            else:
                ubv = t["value"]
                qlit = -t["query"]
            vals[t["pair"]] = (lbv, ubv)
            for name, i in obs["queries"]:
                if i == qlit and name in exact:
                    e = float(exact[name])
                    lo, hi = (lbv, 1.0 - ubv)
                    if not (lo - TOL <= e <= hi + TOL):
                        bad.append(("kbest (%s) intermediate bounds [%r,%r] exclude exact %s=%r" % (mode, lo, hi, name, e),
                                    "kbest-intermediate-bound-unsound"))
                    ctx.count("intermediate_bounds_checked")
        # solver trust
        for c in rec["calls"]:
            ok, (nv, top, hard, soft) = answer_is_model(c)
            ctx.count("maxsat_calls")
            if not ok:
                bad.append(("maxsatz answer is not a model of the hard clauses it was given", "maxsat-answer-not-a-model"))
            if c["answer"] is None:
                ctx.count("maxsat_unsat_answers")
                if nv <= 60 and not brute_unsat(hard, nv):
                    bad.append(("maxsatz reported unsatisfiable on a satisfiable hard clause set", "maxsat-false-unsat"))
    # explain: proofs' probabilities sum to the exact probability
    for src_name, proofs, results in explain_views(obs):
        per = {}
        for line in proofs:
            m = re.match(r"^(.*?) :- (.*)\.\s+% P=([0-9.eE+-]+)$", line)
            if m:
                per.setdefault(m.group(1), []).append(float(m.group(3)))
                continue
            m = re.match(r"^(.*?) :- true\.$", line)     # deterministically true query: one proof of probability 1
            if m:
                per.setdefault(m.group(1), []).append(1.0)
        groups = {}
        for name, i in obs["queries"]:
            groups.setdefault(i, []).append(name)
        for q, ex in exact.items():
            e = float(ex)
            v = results.get(q)
            if v is None:
                bad.append(("%s: query %s missing" % (src_name, q), "explain-missing-query"))
                continue
            s = sum(per.get(q, []))
            # printed with %.8g: allow 1e-8 relative per proof on top of the tolerance
            slack = TOL + 1e-7 * max(1, len(per.get(q, [])))
            ctx.count("explain_queries")
            grp = [g for g in groups.values() if q in g][0] if any(q in g for g in groups.values()) else [q]
            okv = (v[0] - TOL <= e <= v[1] + TOL) if isinstance(v, list) else abs(v - e) <= TOL
            target = v[0] if isinstance(v, list) else e
            if okv and abs(s - target) <= slack:
                continue
            # narrow class: several queries are the same ground node; evaluate() looks the name up by node
            # and labels every proof with the first of them (that one gets k copies, the others none)
            gsum = sum(sum(per.get(x, [])) for x in grp)
            if okv and len(grp) > 1 and abs(gsum - len(grp) * target) <= slack * len(grp) \
                    and all(abs(sum(per.get(x, []))) <= slack for x in grp[1:]):
                if q == grp[0]:
                    bad.append(("%s: queries %s are the same ground node; all %d copies of the proofs are listed under %s "
                                "(sums to %r, exact %r) and none under the others" % (src_name, grp, len(grp), grp[0], gsum, e),
                                "explain-proofs-mislabelled-when-queries-share-a-node"))
            else:
                bad.append(("%s: proofs of %s sum to %r, result %r, exact %r" % (src_name, q, s, v, e), "explain-sum-wrong"))
    return bad


def explain_views(obs):
    r = obs["modes"].get("explain")
    if r and "explain" in r and "result" in r:
        yield "evaluate(explain=...)", r["explain"], r["result"]
    t = obs.get("explain_task")
    if t and "proofs" in t:
        yield "tasks/explain.py", t["proofs"], t["results"]


# ------------------------------------------------------------------ Coq side of the tie
HEADER = """From Coq Require Import ZArith QArith List Bool.
From PL.C23 Require Import ModelPartial ModelKBest ModelAD.
Import ListNotations.
Open Scope Z_scope.
Definition zl_eqb := list_eqb Z.eqb.
Definition zll_eqb := list_eqb zl_eqb.
Definition cl_eqb := list_eqb clause_eqb.
Definition oz_eqb (x y : option Z) := match x, y with Some a, Some b => a =? b | None, None => true | _, _ => false end.
Definition soft_eqb := list_eqb (fun (x y : Z * list Z) => (fst x =? fst y) && zl_eqb (snd x) (snd y)).
Definition close (x y : Q) : bool := Qle_bool (x - y) (1 # 1000000000) && Qle_bool (y - x) (1 # 1000000000).
Definition res_close (r : result) (kind : Z) (x y : Q) : bool :=
  match r, kind with
  | Value v, 0 => close v x
  | Interval lo hi, 1 => close lo x && close hi y
  | _, _ => false
  end.
Fixpoint table_solver (tbl : list (list (list Z) * option (list Z))) (cs : list (list Z)) : option (list Z) :=
  match tbl with
  | [] => None
  | (k, v) :: t => if zll_eqb k cs then v else table_solver t cs
  end.
Fixpoint replay (n : nat) (weighted : Z -> bool) (w : Z -> Q * Q) (b : border)
         (steps : list (option (list Z) * list Z * Q)) : bool :=
  match steps with
  | [] => true
  | (ans, sol, v) :: t =>
      let b' := border_update (scripted ans) n weighted w b in
      (match ans with
       | None => is_complete b'
       | Some a => zl_eqb (from_partial weighted a) sol && negb (is_complete b')
       end) && close (b_value b') v && replay n weighted w b' t
  end.
"""


def cz(n):
    return "(%d)" % n


def czl(xs):
    return "[" + "; ".join(cz(x) for x in xs) + "]"


def czll(xs):
    return "[" + "; ".join(czl(x) for x in xs) + "]"


def cq(fr):
    fr = Fraction(fr)
    return "(%d # %d)" % (fr.numerator, fr.denominator)


def cclause(c):
    if isinstance(c[0], bool):
        return "Constr %s %s" % ("true" if c[0] else "false", czl(c[1:]))
    return "Rule %s %s" % (cz(c[0]), czl(c[1:]))


def cclauses(cs):
    return "[" + "; ".join(cclause(c) for c in cs) + "]"


def cdag(nodes):
    out = []
    for t, ch in nodes:
        out.append("NAtom" if t == "atom" else ("NConj %s" % czl(ch) if t == "conj" else "NDisj %s" % czl(ch)))
    # typed nil: a query that is deterministically true/false leaves an empty DAG, and `length []` alone is ill-typed
    return ("[" + "; ".join(out) + "]") if out else "(@nil node)"


def exact_weights(obs):
    """node -> (pos, neg) as exact rationals, recomputed from the source probabilities (multiples of 1/20)
    the way extract_weights + ConstraintAD.update_weights define them."""
    w = {}
    for k, v in obs["weights"].items():
        if v is None:
            w[k] = (Fraction(1), Fraction(1))
        else:
            p = Fraction(v).limit_denominator(1000)
            w[k] = (p, 1 - p)
    for nodes, extra in obs["adgroups"]:
        tot = Fraction(0)
        for nd in nodes:
            w[nd] = (w[nd][0], Fraction(1))
            tot += w[nd][0]
        if extra is not None:
            w[extra] = (1 - tot, Fraction(1))
    return w


def soft_table(obs):
    """Independent recomputation of the soft clause weights: -wt(log p) with wt(w)=int(max(-10000,w)*10000),
    None when the weight is the semiring's one."""
    import math
    w = exact_weights(obs)
    tab = []
    for a in range(1, obs["atomcount"] + 1):
        if a not in w:
            continue

        def tr(x):
            x = float(x)
            lg = math.log(x) if x > 0 else float("-inf")
            if -1e-12 < lg - 0.0 < 1e-12:   # SemiringLogProbability.is_one
                return None
            return -int(max(-10000, lg) * 10000)
        tab.append((a, tr(w[a][0]), tr(w[a][1])))
    return tab


def coq_cases(obs, max_steps=40):
    """Boolean Coq terms tying the model to what the implementation did on this program."""
    cases = []
    n = obs["atomcount"]
    dag = cdag(obs["nodes"])
    rules = [c for c in obs["clauses"] if not isinstance(c[0], bool)]
    ads = [c for c in obs["clauses"] if isinstance(c[0], bool)]
    # (a) clarks_completion: rule clauses first (in node order), then the constraint clauses
    cases.append(("completion", "cl_eqb (completion %s ++ %s) %s" % (dag, cclauses(ads), cclauses(obs["clauses"]))))
    # (b) side conditions of the theorems hold for this instance
    watoms = sorted(obs["weights"].keys())
    cases.append(("side-conditions",
                  "wf_dag %s && in_range %d%%nat %s && (Z.of_nat (length %s) =? %d) && zl_eqb (filter (is_atom %s) (atoms %d%%nat)) %s"
                  % (dag, n, cclauses(obs["clauses"]), dag, n, dag, n, czl(watoms))))
    w = exact_weights(obs)
    wfun = "(fun v => match v with " + " ".join("| %d => (%s, %s)" % (k, cq(p), cq(q_)) for k, (p, q_) in sorted(w.items())) + " | _ => (1%Q, 1%Q) end)"
    # (b') hypothesis `ad_wfb` of C23_evaluate_sound_with_ads / C23_explain_sum_with_ads on this real program:
    # the constraint clauses are exactly `ad_clauses groups` (member order of a group = its pick-one clause, the
    # only all-positive constraint clause) and the groups / weights are well-formed (members are atom nodes,
    # negative weight 1, positive weights in [0,1] summing to 1, groups disjoint, other atoms normalised,
    # derived nodes (1,1)).  The groups are cross-checked against the ConstraintAD objects of the formula.
    groups = [list(c[1:]) for c in ads if all(x > 0 for x in c[1:])]
    from_constraints = sorted(sorted(nodes + ([extra] if extra is not None else [])) for nodes, extra in obs["adgroups"])
    if sorted(sorted(g_) for g_ in groups) != from_constraints:
        cases.append(("ad-groups", "false"))
    cases.append(("ad-wf" if groups else "ad-wf-no-groups", "cl_eqb (ad_clauses %s) %s && ad_wfb %s %s %s"
                  % (czll(groups), cclauses(ads), dag, wfun, czll(groups))))
    wtd = "(fun v => match v with " + " ".join("| %d" % k for k in watoms) + " => true | _ => false end)" if watoms else "(fun _ => false)"
    stab0 = soft_table(obs)
    rec = obs["modes"].get("default")
    if not rec or "error" in rec:
        return cases
    steps = rec["trace"][:max_steps]
    # (c)+(d) every solver call: encode / header / soft clauses / from_partial
    enc_steps = [t for t in steps if t["call"] is not None]
    if len(enc_steps) > 4:
        enc_steps = enc_steps[:2] + [enc_steps[len(enc_steps) // 2], enc_steps[-1]]
    for t in enc_steps:
        c = rec["calls"][t["call"]]
        nv, nc, top, hard, soft = _hard_soft(c["dimacs"])
        seen_w = sorted(set(x for x, _ in soft))
        near = lambda x: x if x is None else next((y for y in seen_w if abs(y - x) <= 1), x)
        stab = [(a, near(x), near(y)) for a, x, y in stab0]
        cases.append(("encode", "zll_eqb (encode %d%%nat true %s) %s && (encode_nvars %d%%nat true %s =? %d) && (Z.of_nat (length (encode %d%%nat true %s)) + %d =? %d)"
                      % (n, cclauses(t["clauses"]), czll(hard), n, cclauses(t["clauses"]), nv, n, cclauses(t["clauses"]), len(soft), nc)))
        cases.append(("soft", "soft_eqb (soft_clauses %s) %s"
                      % ("[" + "; ".join("(%d, (%s, %s))" % (a, "Some %s" % cz(x) if x is not None else "None",
                                                             "Some %s" % cz(y) if y is not None else "None") for a, x, y in stab) + "]",
                         "[" + "; ".join("(%d, %s)" % (wt_, czl(ls)) for wt_, ls in soft) + "]")))
    # (e) border update sequence, per border, replayed on the same answers
    seqs = {}
    for t in steps:
        key = (t["pair"], t["name"])
        if key not in seqs:
            cnf = [c for c in t["clauses"] if not (c[0] is True)]
            seqs[key] = (cnf, t["query"], [])
        ans = rec["calls"][t["call"]]["answer"] if t["call"] is not None else None
        seqs[key][2].append((ans, t["solution"] or [], Fraction(t["value"])))
    for key, (cnf, qlit, sq) in seqs.items():
        cases.append(("replay", "replay %d%%nat %s %s (border_init %s %s) %s"
                      % (n, wtd, wfun, cclauses(cnf), cz(qlit),
                         "[" + "; ".join("(%s, %s, %s)" % ("Some %s" % czl(a) if a is not None else "None", czl(s), cq(v)) for a, s, v in sq) + "]")))
    # (f) the whole loop with a table solver (skipped when a float decision is within 1e-12 of a tie)
    if len(rec["trace"]) <= max_steps:
        pairs = sorted(set(t["pair"] for t in rec["trace"]))
        for pr in pairs:
            sub = [t for t in rec["trace"] if t["pair"] == pr]
            qlit = [t["query"] if t["name"] == "lower" else -t["query"] for t in sub][0]
            names = [nm for nm, i in obs["queries"] if i == qlit]
            if not names or near_tie(sub):
                continue
            tbl = []
            for t in sub:
                c = rec["calls"][t["call"]]
                nv, nc, top, hard, soft = _hard_soft(c["dimacs"])
                tbl.append("(%s, %s)" % (czll(hard), "Some %s" % czl(c["answer"]) if c["answer"] is not None else "None"))
            res = rec["result"][names[-1]]
            if isinstance(res, list):
                want = "1 %s %s" % (cq(Fraction(res[0])), cq(Fraction(res[1])))
            else:
                want = "0 %s %s" % (cq(Fraction(res)), cq(0))
            cases.append(("loop", "res_close (fst (fst (evaluate (table_solver %s) %d%%nat %s %s false (1 # 1000000000) %d%%nat %s %s))) %s"
                          % ("[" + "; ".join(tbl) + "]", n, wtd, wfun, len(sub) + 2, cclauses(obs["clauses"]), cz(qlit), want)))
    return cases


def near_tie(sub):
    """Float decisions of the loop that exact arithmetic could take the other way."""
    li, ui, lv, uv = 1.0, 1.0, 0.0, 0.0
    for t in sub:
        if li is not None and ui is not None and li != ui and abs(li - ui) < 1e-12:
            return True
        if t["name"] == "lower":
            li, lv = t["improvement"], t["value"]
        else:
            ui, uv = t["improvement"], t["value"]
        if abs((uv + lv) - (1.0 - 1e-9)) < 1e-11:
            return True
    return False


# ------------------------------------------------------------------ shrinking
def shrink_program(prog, still_bad):
    prog = {k: list(v) for k, v in prog.items()}
    changed = True
    while changed:
        changed = False
        for key in ("rules", "queries", "facts", "ads"):
            i = 0
            while i < len(prog[key]):
                cand = dict(prog)
                cand[key] = prog[key][:i] + prog[key][i + 1:]
                if cand["queries"] and usable(cand) and still_bad(cand):
                    prog = cand
                    changed = True
                else:
                    i += 1
    return prog


def usable(prog):
    base = set(f for f, _ in prog["facts"]) | set(h for ad in prog["ads"] for h, _ in ad)
    heads = set(h for h, _ in prog["rules"])
    for h, body in prog["rules"]:
        for a, _ in body:
            if a not in base and a not in heads:
                return False
    return all(q in base or q in heads for q in prog["queries"]) and stratified(prog["rules"])


def classes_of(prog, scratch, solver_kind, modes):
    obs = run_impl((prog, scratch, solver_kind, modes, False))
    if "ground_error" in obs or "kbest_error" in obs:
        return set()
    class _C:  # counting stub
        def count(self, *a, **k):
            pass
    return set(k for _, k in judge_program(_C(), prog, obs, exact_probs(prog)))


# ------------------------------------------------------------------ main
def run(ctx):
    ctx.cov["rule"] = ("random propositional evidence-free programs: 1-7 probabilistic facts, 0-2 body-less annotated disjunctions, "
                       "1-5 derived atoms with 1-3 rules each (stratified negation, 30% with a positive cycle), 1-2 queries; "
                       "each is run through kbest in 5 modes (default, convergence=0, convergence=0.3, lower_only, explain) and the "
                       "explain task; a case is non-trivial when some query needs >= 2 k-best solutions; distinct = distinct program texts")
    ctx.assumptions += [
        "MaxSAT solver: only its contract is assumed in the theorems (answers are consistent models of the hard clauses; "
        "'unsatisfiable' means no model); the harness checks the first half on every call and the second by DPLL on small instances",
        "hand-written Gallina models correspond to cnf_formula.py/kbest.py only as far as the sampled programs show",
        "Python floats (log-space products) vs exact rationals: compared with 1e-9 absolute slack",
        "annotated disjunctions: the bound theorems with ADs (C23_evaluate_sound_with_ads, C23_explain_sum_with_ads) assume the "
        "boolean well-formedness `ad_wfb` of groups and weights; the tie evaluates it on every real program (case ad-wf), together "
        "with `ad_clauses groups` = the real constraint clauses",
    ]
    ctx.prove("C23/Props.v")
    ctx.log("proofs checked")

    ALL_MODES = ("default", "conv0", "wide", "lower", "explain")
    REAL_MODES = ("default", "wide", "explain") if ctx.tier == "quick" else ALL_MODES
    plan = []   # (prog, solver_kind, modes, do_task)
    ncorpus = 0
    if getattr(ctx, "replay", None):
        plan.append((decode_prog(ctx.replay["replay"]["program"]), ctx.replay["replay"].get("solver", "maxsatz"), ALL_MODES, True))
    else:
        # minimised past disagreements first
        cdir = os.path.join(vf.CORPUS, "C23")
        if os.path.isdir(cdir):
            import json
            for fn in sorted(os.listdir(cdir)):
                if fn.endswith(".json"):
                    with open(os.path.join(cdir, fn)) as fh:
                        d = json.load(fh)
                    plan.append((decode_prog(d["program"]), d.get("solver", "dpll"), ALL_MODES, True))
                    ctx.count("corpus_cases")
        ncorpus = len(plan)
        nreal = ctx.n(8, 90)
        ndpll = ctx.n(40, 1200)
        seen = set()
        while len(plan) - ncorpus < nreal + ndpll:
            p = gen_program(ctx.rng)
            t = program_text(p)
            if t in seen:
                continue
            seen.add(t)
            k = len(plan) - ncorpus
            if k < nreal:
                # maxsatz start-up dominates (1-3 s per call): keep the real-solver programs smaller in quick
                if ctx.tier == "quick" and len(p["facts"]) + len(p["ads"]) > 5:
                    seen.discard(t)
                    continue
                plan.append((p, "maxsatz", REAL_MODES, k % 3 == 0))
            else:
                plan.append((p, "dpll", ALL_MODES, k % 4 == 0))
    os.makedirs(ctx.scratch, exist_ok=True)
    ctx.log("running %d programs (%d with maxsatz)" % (len(plan), sum(1 for x in plan if x[1] == "maxsatz")))
    obs_all = pl.pmap(run_impl, [(p, ctx.scratch, sk, md, dt) for p, sk, md, dt in plan], jobs=ctx.n(12, 14), chunksize=1)
    ctx.log("implementation runs done")

    cases, metas = [], []
    ncoq_real, ncoq_dpll = ctx.n(8, 60), ctx.n(10, 150)
    nreal_seen = ndpll_seen = 0
    for k, ((prog, sk, md, dt), obs) in enumerate(zip(plan, obs_all)):
        if "ground_error" in obs:
            ctx.count("skipped_grounding_error:" + obs["ground_error"])
            continue
        if "kbest_error" in obs:
            ctx.violation("KBestFormula.create_from raised %s on\n%s" % (obs["kbest_error"], obs["src"]),
                          {"program": jsonable(prog), "src": obs["src"], "solver": sk}, klass="kbest-create-raises")
            continue
        exact = exact_probs(prog)
        bad = judge_program(ctx, prog, obs, exact)
        nsol = max([len([t for t in r.get("trace", []) if t["solution"] is not None]) for r in obs["modes"].values()] + [0])
        ctx.case((sk, obs["src"]), nsol >= 2, sample={"program": obs["src"], "solver": sk, "exact": {q: float(v) for q, v in exact.items()},
                                                       "kbest": obs["modes"].get("default", {}).get("result")})
        ctx.count("programs_" + sk)
        ctx.count("solutions_max_%s" % ("0-1" if nsol < 2 else "2-4" if nsol < 5 else "5-9" if nsol < 10 else "10+"))
        if obs["adgroups"]:
            ctx.count("programs_with_AD")
        if any(t == "disj" for t, _ in obs["nodes"]):
            ctx.count("programs_with_disj")
        if bad:
            klasses = sorted(set(kk for _, kk in bad))
            small = prog
            # shrinking with maxsatz costs minutes: only the fast runs are shrunk; corpus cases are minimal already
            if sk == "dpll" and k >= ncorpus:
                try:
                    small = shrink_program(prog, lambda c: bool(classes_of(c, ctx.scratch, sk, md) & set(klasses)))
                except Exception:
                    pass
            for what, kk in bad[:3]:
                ctx.violation("%s\nprogram:\n%s\nminimised:\n%s" % (what, obs["src"], program_text(small)),
                              {"program": jsonable(small), "src": program_text(small), "original": obs["src"], "solver": sk}, klass=kk)
        take = False
        if sk == "maxsatz" and nreal_seen < ncoq_real:
            nreal_seen += 1
            take = True
        elif sk == "dpll" and ndpll_seen < ncoq_dpll:
            ndpll_seen += 1
            take = True
        if take:
            for tag, term in coq_cases(obs):
                cases.append(term)
                metas.append((tag, sk, obs["src"]))
                ctx.count("tie_" + tag)
    ctx.log("judged; %d Coq tie cases" % len(cases))
    try:
        failing = ctx.coq_failing(HEADER, cases, name="c23", shard=40)
    except RuntimeError as e:
        ctx.broken.append("correspondence:C23 model cases do not evaluate")
        ctx.notes.append(str(e))
        return
    ctx.cov["model_vs_impl_agree"] = len(cases) - len(failing)
    ctx.cov["model_vs_impl_cases"] = len(cases)
    for i in failing[:5]:
        ctx.broken.append("correspondence:%s (model vs implementation, solver %s) on program %r" % metas[i])


def decode_prog(p):
    return {"facts": [(a_, Fraction(b_)) for a_, b_ in p["facts"]],
            "ads": [[(a_, Fraction(b_)) for a_, b_ in ad] for ad in p["ads"]],
            "rules": [(h, [(a_, bool(ng)) for a_, ng in body]) for h, body in p["rules"]],
            "queries": list(p["queries"])}


def jsonable(prog):
    return {"facts": [(a, str(b)) for a, b in prog["facts"]],
            "ads": [[(a, str(b)) for a, b in ad] for ad in prog["ads"]],
            "rules": [(h, [(a, ng) for a, ng in body]) for h, body in prog["rules"]],
            "queries": list(prog["queries"])}
