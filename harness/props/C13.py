"""C13 — deterministic programs agree with standard Prolog, including findall order.

Reference: SLD resolution (leftmost, clause order, depth first, answers as an ordered list, findall/3, \\+ on
ground goals, =, \\=) defined in Coq (coq/theories/C13/ModelSLD.v) on top of C14's proved `mgu`, extracted and
used as the oracle (SWI-Prolog is not installed).  ClauseIndex (first-argument style indexing) is modelled by
hand (ModelIndex.v) and tied to problog.clausedb.ClauseIndex by differential runs of append/find histories.
"""
import vf
import pl
from props import C14 as T   # term representation, text rendering, canonical renaming, encoder

META = {
    "id": "C13",
    "level": "proof",
    "technique": "Coq: reference SLD interpreter (sound w.r.t. the inductively defined least Herbrand model for definite programs) "
                 "+ model of ClauseIndex.find (complete; the repaired version returns clauses in program order) "
                 "+ differential tie (engine answers vs extracted SLD; ClauseIndex vs model on operation histories)",
    "design_ref": "DESIGN.md §5 C13",
    "text": "Answer sets and findall/3 lists of generated pure Prolog programs are compared with the Coq-defined SLD reference "
            "(sets for answers, exact lists for findall); recursive Datalog programs with an independent bottom-up evaluator; "
            "ClauseIndex.append/find histories with the Gallina model of the code."
            " SLD fuel monotonicity and completeness for definite programs on finished runs are proved (answers' instances = least-model instances of the query)."
            " C13_tabled_is_lfp: the abstract tabling machine of C03 computes the least model on the relevant atoms of ground definite programs (cyclic ones too), agrees with every finished SLD run and answers where SLD never finishes.",
    "note": "Trusted: Coq kernel, extraction + OCaml driver, Python glue (program rendering, answer reading, the bottom-up "
            "evaluator used for recursive programs, which is cross-checked against the SLD reference on non-recursive ones).",
}

V, A, I, C, cons, NIL, text = T.V, T.A, T.I, T.C, T.cons, T.NIL, T.text

# ---------------------------------------------------------------------------- goals
# ('true',) ('fail',) ('call', term) ('and', g, g) ('or', g, g) ('not', g) ('eq', s, t) ('neq', s, t) ('findall', pat, g, res)


def gtext(g, top=True):
    k = g[0]
    if k == 'true':
        return 'true'
    if k == 'fail':
        return 'fail'
    if k == 'call':
        return text(g[1])
    if k == 'and':
        return "%s, %s" % (gtext(g[1], False), gtext(g[2], False))
    if k == 'or':
        return "(%s ; %s)" % (gtext(g[1]), gtext(g[2]))
    if k == 'not':
        return "\\+ %s" % (gtext(g[1], False) if g[1][0] in ('call', 'true', 'fail') else "(" + gtext(g[1]) + ")")
    if k == 'eq':
        return "%s = %s" % (text(g[1]), text(g[2]))
    if k == 'neq':
        return "%s \\= %s" % (text(g[1]), text(g[2]))
    if k == 'findall':
        return "findall(%s, (%s), %s)" % (text(g[1]), gtext(g[2]), text(g[3]))
    raise ValueError(k)


def clause_text(h, b):
    return text(h) + "." if b[0] == 'true' else "%s :- %s." % (text(h), gtext(b))


def genc(enc, g, vmap, out):
    k = g[0]
    if k == 'true':
        out.append('T')
    elif k == 'fail':
        out.append('F')
    elif k == 'call':
        out.append('C')
        enc.enc(g[1], vmap, out)
    elif k in ('and', 'or'):
        out.append('&' if k == 'and' else '|')
        genc(enc, g[1], vmap, out)
        genc(enc, g[2], vmap, out)
    elif k == 'not':
        out.append('~')
        genc(enc, g[1], vmap, out)
    elif k in ('eq', 'neq'):
        out.append('=' if k == 'eq' else '#')
        enc.enc(g[1], vmap, out)
        enc.enc(g[2], vmap, out)
    elif k == 'findall':
        out.append('L')
        enc.enc(g[1], vmap, out)
        genc(enc, g[2], vmap, out)
        enc.enc(g[3], vmap, out)
    else:
        raise ValueError(k)


def new_enc():
    e = T.Enc()
    assert e.sym('a', '[]') == 0 and e.sym('a', '.') == 1    # ModelSLD.t_nil / t_cons
    return e


def request(enc, prog, query, fuel):
    out = ["%d" % fuel, "%d" % len(prog)]
    for h, b in prog:
        vmap = {}
        enc.enc(h, vmap, out)
        genc(enc, b, vmap, out)
    enc.enc(query, {}, out)
    return " ".join(out)


EXTRACT_V = """From Coq Require Import NArith ZArith List Extraction ExtrOcamlBasic.
From PL.C14 Require Import ModelUnify.
From PL.C13 Require Import ModelSLD.
Extraction Language OCaml.
Set Extraction Output Directory ".".
Extraction "oracle.ml" answers.
"""

DRIVER_ML = T.DRIVER_ML.split("let out_opt")[0] + r"""
let rec nat_of_int n = if n = 0 then O else S (nat_of_int (n - 1))
let rec pgoal toks = match toks with
  | "T" :: r -> (GTrue, r)
  | "F" :: r -> (GFail, r)
  | "C" :: r -> let (t, r') = parse r in (GCall t, r')
  | "&" :: r -> let (a, r1) = pgoal r in let (b, r2) = pgoal r1 in (GAnd (a, b), r2)
  | "|" :: r -> let (a, r1) = pgoal r in let (b, r2) = pgoal r1 in (GOr (a, b), r2)
  | "~" :: r -> let (a, r1) = pgoal r in (GNot a, r1)
  | "=" :: r -> let (a, r1) = parse r in let (b, r2) = parse r1 in (GEq (a, b), r2)
  | "#" :: r -> let (a, r1) = parse r in let (b, r2) = parse r1 in (GNeq (a, b), r2)
  | "L" :: r -> let (p, r1) = parse r in let (g, r2) = pgoal r1 in let (l, r3) = parse r2 in (GFindall (p, g, l), r3)
  | _ -> failwith "goal"
let () =
  try
    while true do
      let line = input_line stdin in
      let toks = List.filter (fun s -> s <> "") (String.split_on_char ' ' line) in
      match toks with
      | fuel :: n :: rest ->
          let rec clauses k toks acc = if k = 0 then (List.rev acc, toks) else
              let (h, r1) = parse toks in let (b, r2) = pgoal r1 in clauses (k - 1) r2 ((h, b) :: acc) in
          let (prog, r) = clauses (int_of_string n) rest [] in
          let (q, _) = parse r in
          (match answers (nat_of_int (int_of_string fuel)) prog q with
           | Ans l -> let b = Buffer.create 256 in
                      Buffer.add_string b "A";
                      List.iter (fun t -> Buffer.add_string b " ; "; show b t) l;
                      print_string (Buffer.contents b ^ "\n")
           | Floundered -> print_string "FLOUNDERED\n"
           | _ -> print_string "OUTOFFUEL\n")
      | _ -> failwith "request"
    done
  with End_of_file -> ()
"""


def parse_answers(enc, line):
    if not line.startswith("A"):
        return line
    if len(line) > 6000:
        return "TOOLARGE"       # hundreds of (mostly duplicate) solutions: skipped and counted
    res = []
    for part in line.split(" ; ")[1:]:
        t, _ = enc.dec(part.split())
        res.append(t)
    return res


# ---------------------------------------------------------------------------- the engine
def run_programs(batch):
    """batch: list of (program_text, [query_text]) -> list of [('ok', [canon answer]) | ('err', cls)] per query."""
    from problog.program import PrologString
    from problog.engine import DefaultEngine
    from problog.logic import Term
    import sys
    sys.setrecursionlimit(20000)
    out = []
    for src, queries in batch:
        res = []
        try:
            eng = DefaultEngine()
            db = eng.prepare(PrologString(src))
        except BaseException as e:  # noqa
            if isinstance(e, (KeyboardInterrupt, SystemExit)):
                raise
            out.append([('err', 'LOAD:' + pl.err_class(e))] * len(queries))
            continue
        for q in queries:
            try:
                r = pl.with_timeout(eng.query, 60, db, Term.from_string(q))
                res.append(('ok', [T.canon(C('ans', *[T.from_pl(a) for a in row])) for row in r]))
            except BaseException as e:  # noqa
                if isinstance(e, (KeyboardInterrupt, SystemExit)):
                    raise
                res.append(('err', 'OccursCheck' if type(e).__name__ == 'OccursCheck' else pl.err_class(e)))
                eng = DefaultEngine()
                db = eng.prepare(PrologString(src))
        out.append(res)
    return out


# ---------------------------------------------------------------------------- bottom-up evaluator (Datalog, definite)
def bottom_up(prog):
    """Least Herbrand model of a definite, function-free, range-restricted program given as [(head, body)] with
    bodies built from 'call', 'and', 'true' only.  Returns a set of ground atoms (tuple terms)."""
    def body_atoms(b):
        if b[0] == 'true':
            return []
        if b[0] == 'call':
            return [b[1]]
        if b[0] == 'and':
            return body_atoms(b[1]) + body_atoms(b[2])
        raise ValueError("not definite: %r" % (b[0],))

    def match(pat, fact, env):
        if pat[0] == 'v':
            if pat[1] in env:
                return env if env[pat[1]] == fact else None
            e = dict(env)
            e[pat[1]] = fact
            return e
        if pat[0] == 'c':
            if fact[0] != 'c' or fact[1] != pat[1] or len(fact[2]) != len(pat[2]):
                return None
            for p, f in zip(pat[2], fact[2]):
                env = match(p, f, env)
                if env is None:
                    return None
            return env
        return env if pat[:3] == fact[:3] else None

    def subst(t, env):
        if t[0] == 'v':
            return env[t[1]]
        if t[0] == 'c':
            return ('c', t[1], tuple(subst(a, env) for a in t[2]))
        return t[:3]
    facts = set()
    rules = [(h, body_atoms(b)) for h, b in prog]
    changed = True
    while changed:
        changed = False
        for h, atoms in rules:
            envs = [{}]
            for a in atoms:
                nxt = []
                for env in envs:
                    for f in facts:
                        e = match(a, f, env)
                        if e is not None:
                            nxt.append(e)
                envs = nxt
                if not envs:
                    break
            for env in envs:
                f = subst(h, env)
                if f not in facts:
                    facts.add(f)
                    changed = True
    return facts


# ---------------------------------------------------------------------------- program generator
CONSTS = [A('a'), A('b'), A('c'), I(1), I(2), I(3)]


def gen_value(rng, allow_compound=True):
    r = rng.random()
    if allow_compound and r < 0.12:
        return C('f', rng.choice(CONSTS))
    if allow_compound and r < 0.18:
        return C('g', rng.choice(CONSTS), rng.choice(CONSTS))
    return rng.choice(CONSTS)


def gen_facts(rng, name, arity, n, index_stress):
    """Facts for one predicate.  With index_stress a share of the clauses has a variable in some argument, so that
    a call with that argument ground selects clauses from two index buckets whose order disagrees with clause order."""
    cl = []
    for _ in range(n):
        args = []
        for j in range(arity):
            if index_stress and rng.random() < 0.3:
                args.append(V("V%d" % j))
            else:
                args.append(gen_value(rng))
        # repeated variable now and then
        if arity >= 2 and rng.random() < 0.08:
            args[1] = V("V0")
            args[0] = V("V0")
        cl.append((C(name, *args), ('true',)))
    return cl


def gen_program(rng):
    """Layered (non-recursive) program + list predicates + findall wrappers.  Returns (clauses, queries, kind)
    where queries are (query_term, observe) with observe in {'set', 'list'} ('list': the answer contains a findall
    result that must match exactly)."""
    prog = []
    sigs = []          # (name, arity) callable, all answers ground unless fact variables leak
    nfact = rng.randrange(2, 4)
    stress = rng.random() < 0.6
    for i in range(nfact):
        ar = rng.choice([1, 2, 2, 3])
        prog += gen_facts(rng, "p%d" % i, ar, rng.randrange(2, 7), stress)
        sigs.append(("p%d" % i, ar))
    vars_pool = [V(x) for x in "XYZW"]

    def lit(bound, sig_list):
        name, ar = rng.choice(sig_list)
        args = []
        for _ in range(ar):
            r = rng.random()
            if r < 0.25:
                args.append(rng.choice(CONSTS))
            elif r < 0.6 and bound:
                args.append(rng.choice(sorted(bound)))
            else:
                args.append(rng.choice(vars_pool))
        t = C(name, *args)
        return ('call', t), set(a for a in args if a[0] == 'v')
    nrule = rng.randrange(1, 4)
    for i in range(nrule):
        name = "q%d" % i
        ar = rng.choice([1, 2])
        nclauses = rng.randrange(1, 4)
        lower = list(sigs)
        for _ in range(nclauses):
            bound = set()
            goals = []
            g, vs = lit(bound, lower)
            goals.append(g)
            bound |= vs
            for _ in range(rng.randrange(0, 3)):
                r = rng.random()
                if r < 0.5:
                    g, vs = lit(bound, lower)
                    goals.append(g)
                    bound |= vs
                elif r < 0.65 and bound:
                    g1, vs1 = lit(bound, lower)
                    g2, vs2 = lit(bound, lower)
                    goals.append(('or', g1, g2))
                    # a variable is bound after a disjunction only if both branches bind it
                    bound |= (vs1 & vs2)
                elif r < 0.8 and bound:
                    # negation on a goal whose variables are all bound
                    name2, ar2 = rng.choice(lower)
                    args = [rng.choice(sorted(bound)) if rng.random() < 0.7 else rng.choice(CONSTS) for _ in range(ar2)]
                    goals.append(('not', ('call', C(name2, *args))))
                elif r < 0.9 and bound:
                    goals.append(('neq' if rng.random() < 0.5 else 'eq', rng.choice(sorted(bound)), rng.choice(CONSTS)))
                elif bound:
                    inner = rng.choice(sorted(bound))
                    outer = rng.choice([v for v in vars_pool if v != inner])    # never X = f(X)
                    goals.append(('eq', outer, C('f', inner)))
                    bound.add(outer)
            hb = sorted(bound)
            head_args = [rng.choice(hb) if hb and rng.random() < 0.85 else rng.choice(CONSTS) for _ in range(ar)]
            body = goals[-1]
            for g in reversed(goals[:-1]):
                body = ('and', g, body)
            prog.append((C(name, *head_args), body))
        sigs.append((name, ar))
    queries = []
    for name, ar in sigs:
        queries.append((C(name, *[V("Q%d" % j) for j in range(ar)]), 'set'))
        if ar >= 1 and rng.random() < 0.7:
            queries.append((C(name, *([rng.choice(CONSTS)] + [V("Q%d" % j) for j in range(1, ar)])), 'set'))
        if ar >= 2 and rng.random() < 0.4:
            queries.append((C(name, *([V("Q0")] + [rng.choice(CONSTS)] + [V("Q%d" % j) for j in range(2, ar)])), 'set'))
    # findall wrappers: collect the last argument(s) of a predicate, with the first argument ground or free
    nfa = 0
    for name, ar in sigs:
        if rng.random() < 0.8:
            first = rng.choice(CONSTS) if rng.random() < 0.7 else V("A")
            args = [first] + [V("B%d" % j) for j in range(1, ar)]
            pat = args[-1] if ar > 1 and rng.random() < 0.6 else C('t', *[a for a in args if a[0] == 'v']) if any(a[0] == 'v' for a in args) else A('x')
            fname = "fa%d" % nfa
            nfa += 1
            prog.append((C(fname, V("L")), ('findall', pat, ('call', C(name, *args)), V("L"))))
            queries.append((C(fname, V("Q0")), 'list'))
    kind = "layered"
    if rng.random() < 0.35:
        kind = "layered+lists"
        prog.append((C('mem', V('X'), cons(V('X'), ('_',))), ('true',)))
        prog.append((C('mem', V('X'), cons(('_',), V('T'))), ('call', C('mem', V('X'), V('T')))))
        prog.append((C('app', NIL, V('L')), ('true',))) if False else None
        prog.append((C('app', NIL, V('L'), V('L')), ('true',)))
        prog.append((C('app', cons(V('H'), V('T')), V('L'), cons(V('H'), V('R'))), ('call', C('app', V('T'), V('L'), V('R')))))
        items = [rng.choice(CONSTS) for _ in range(rng.randrange(1, 4))]
        lst = NIL
        for x in reversed(items):
            lst = cons(x, lst)
        queries.append((C('mem', V('Q0'), lst), 'set'))
        queries.append((C('app', V('Q0'), V('Q1'), lst), 'set'))
        prog.append((C('fm', V('L')), ('findall', V('X'), ('call', C('mem', V('X'), lst)), V('L'))))
        queries.append((C('fm', V('Q0')), 'list'))
        prog.append((C('fs', V('L')), ('findall', C('t', V('X'), V('Y')), ('call', C('app', V('X'), V('Y'), lst)), V('L'))))
        queries.append((C('fs', V('Q0')), 'list'))
    prog = [c for c in prog if c is not None]
    return prog, queries, kind


def gen_datalog(rng):
    """Recursive Datalog (edge/path style, cyclic graphs, left/right/mutual recursion): SLD does not terminate,
    the reference is the bottom-up least model."""
    nodes = [A(x) for x in "abcd"][:rng.randrange(2, 5)]
    prog = []
    for _ in range(rng.randrange(2, 7)):
        prog.append((C('e', rng.choice(nodes), rng.choice(nodes)), ('true',)))
    X, Y, Z = V('X'), V('Y'), V('Z')
    style = rng.choice(['right', 'left', 'double', 'mutual'])
    prog.append((C('path', X, Y), ('call', C('e', X, Y))))
    if style == 'right':
        prog.append((C('path', X, Y), ('and', ('call', C('e', X, Z)), ('call', C('path', Z, Y)))))
    elif style == 'left':
        prog.append((C('path', X, Y), ('and', ('call', C('path', X, Z)), ('call', C('e', Z, Y)))))
    elif style == 'double':
        prog.append((C('path', X, Y), ('and', ('call', C('path', X, Z)), ('call', C('path', Z, Y)))))
    else:
        prog.append((C('path', X, Y), ('and', ('call', C('e', X, Z)), ('call', C('hop', Z, Y)))))
        prog.append((C('hop', X, Y), ('call', C('path', X, Y))))
        prog.append((C('hop', X, Y), ('and', ('call', C('e', X, Z)), ('call', C('path', Z, Y)))))
    queries = [(C('path', V('Q0'), V('Q1')), 'set'), (C('path', rng.choice(nodes), V('Q1')), 'set'),
               (C('path', V('Q0'), rng.choice(nodes)), 'set')]
    return prog, queries, "datalog-" + style


# ---------------------------------------------------------------------------- ClauseIndex tie
def index_history(rng):
    arity = rng.choice([1, 2, 2, 3])
    keys = [None, 0, 1, 2]
    ops = []
    n = rng.randrange(1, 9)
    for i in range(n):
        ops.append(('append', [rng.choice(keys) if rng.random() < 0.7 else None for _ in range(arity)]))
        if rng.random() < 0.5:
            ops.append(('find', [rng.choice(keys) for _ in range(arity)]))
    for _ in range(rng.randrange(1, 5)):
        ops.append(('find', [rng.choice(keys) for _ in range(arity)]))
    return arity, ops


def index_impl(hist):
    """Runs a history on the real ClauseIndex; returns the list of find results."""
    from problog.clausedb import ClauseIndex
    from problog.logic import Term
    arity, ops = hist
    consts = [Term('k0'), Term('k1'), Term('k2')]

    class Node(object):
        def __init__(self, args):
            self.args = args
            self.arity = len(args)

    class Parent(object):
        def __init__(self):
            self.nodes = []

        def get_node(self, i):
            return self.nodes[i]
    par = Parent()
    ci = ClauseIndex(par, arity)
    out = []
    for op, ks in ops:
        args = [None if k is None else consts[k] for k in ks]
        if op == 'append':
            par.nodes.append(Node(args))
            ci.append(len(par.nodes) - 1)
        else:
            out.append(list(ci.find(args)))
    return out


def index_spec(hist):
    """The property's own reference: the clauses that may match, in clause order."""
    arity, ops = hist
    clauses = []
    out = []
    for op, ks in ops:
        if op == 'append':
            clauses.append(ks)
        else:
            out.append([i for i, c in enumerate(clauses)
                        if all(a is None or k is None or a == k for a, k in zip(ks, c))])
    return out


INDEX_HEADER = """From Coq Require Import NArith List Bool Arith.
From PL.C13 Require Import ModelIndex.
Import ListNotations.
Inductive op := OAppend (ks : list key) | OFind (args : list key).
Fixpoint run (fixed : bool) (n : nat) (ops : list op) (st : state) : list (list nat) :=
  match ops with
  | [] => []
  | OAppend ks :: r => run fixed (S n) r (append ks n st)
  | OFind a :: r => if fixed then find_fixed a st :: run fixed n r st
                    else let '(res, st') := find_code a st in res :: run fixed n r st'
  end.
Definition leqb (a b : list (list nat)) : bool :=
  if list_eq_dec (list_eq_dec Nat.eq_dec) a b then true else false.
"""


def coq_key(k):
    return "None" if k is None else "(Some %d%%N)" % k


def coq_ops(hist):
    return vf.coq_list(["(%s %s)" % ("OAppend" if op == 'append' else "OFind", vf.coq_list([coq_key(k) for k in ks]))
                        for op, ks in hist[1]])


def coq_res(res):
    return vf.coq_list([vf.coq_list(["%d" % x for x in r]) for r in res])


def run_index(ctx):
    n = ctx.n(400, 10000)
    hists = [index_history(ctx.rng) for _ in range(n)]
    # the DESIGN witness first: p(X,1). p(a,2). p(Y,4).  find(a, _)
    hists.insert(0, (2, [('append', [None, 0]), ('append', [0, 1]), ('append', [None, 2]), ('find', [0, None]), ('find', [0, None])]))
    cases_code, cases_fixed = [], []
    nviol = 0
    for h in hists:
        try:
            impl = index_impl(h)
        except Exception as e:
            ctx.violation("ClauseIndex raised %r on %r" % (e, h), {"index_history": h})
            continue
        spec = index_spec(h)
        nfind = sum(1 for o in h[1] if o[0] == 'find')
        nontrivial = any(o[0] == 'append' and None in o[1] for o in h[1]) and any(o[0] == 'find' and any(k is not None for k in o[1]) for o in h[1])
        ctx.case(("index", h[0], tuple((o, tuple(k)) for o, k in h[1])), nontrivial,
                 sample={"index_history": h, "find_results": impl})
        ctx.count("index_histories")
        ctx.count("index_finds", nfind)
        if impl != spec:
            same_sets = [sorted(a) for a in impl] == [sorted(b) for b in spec]
            klass = None
            if same_sets:
                klass = "clause-index-order"
            ctx.count("index_disagree_" + str(klass))
            nviol += 1
            if nviol <= 3 or klass is None:
                small = shrink_hist(h)
                ctx.violation("ClauseIndex.find returns %r on history %r; the clauses that may match, in clause order, are %r"
                              % (index_impl(small), small, index_spec(small)),
                              {"index_history": small, "impl": index_impl(small), "spec": index_spec(small)}, klass=klass)
        cases_code.append("leqb (run false 0 %s empty) %s" % (coq_ops(h), coq_res(impl)))
        cases_fixed.append("leqb (run true 0 %s empty) %s" % (coq_ops(h), coq_res(spec)))
    try:
        bad_code = ctx.coq_failing(INDEX_HEADER, cases_code, name="ixcode")
        bad_fixed = ctx.coq_failing(INDEX_HEADER, cases_fixed, name="ixfixed")
    except RuntimeError as e:
        ctx.broken.append("correspondence:ClauseIndex model does not evaluate")
        ctx.notes.append(str(e))
        return
    # which model describes the code under test?  (as-is before the fix, repaired after it)
    fixed_tree = all(index_impl(h) == index_spec(h) for h in hists[:50])
    ctx.cov["clause_index_repaired_in_tree"] = fixed_tree
    ctx.cov["index_model_code_agree"] = len(cases_code) - len(bad_code)
    ctx.cov["index_model_fixed_equals_spec"] = len(cases_fixed) - len(bad_fixed)
    for i in bad_fixed[:3]:
        ctx.broken.append("correspondence:find_fixed (Coq) differs from the clause-order specification on %r" % (hists[i],))
    if not fixed_tree:
        for i in bad_code[:3]:
            ctx.broken.append("correspondence:find_code (Coq model of the code as it is) differs from ClauseIndex.find on %r" % (hists[i],))
    else:
        # after the repair the implementation must equal find_fixed = spec, checked above through impl != spec
        pass


def shrink_hist(h):
    arity, ops = h
    ops = list(ops)

    def bad(o):
        hh = (arity, o)
        try:
            return index_impl(hh) != index_spec(hh)
        except Exception:
            return False
    i = 0
    while i < len(ops):
        cand = ops[:i] + ops[i + 1:]
        if cand and bad(cand):
            ops = cand
        else:
            i += 1
    return (arity, ops)


# ---------------------------------------------------------------------------- judging programs
def prog_text(prog):
    return "\n".join(clause_text(h, b) for h, b in prog) + "\n"


def judge_one(observe, expected, exp_set, ob):
    """The property-level verdict for one query: (ok, why)."""
    if ob[0] == 'err' and ob[1] == 'Timeout':
        return True, "timeout (recorded, never reported)"
    if ob[0] == 'err':
        return False, "engine raised %s" % ob[1]
    if observe == 'list' and isinstance(expected, list):
        el = [T.canon(C('ans', *t[2])) for t in expected]
        if len(ob[1]) != 1 or len(el) != 1:
            return False, "findall wrapper has %d answers, reference %d" % (len(ob[1]), len(el))
        le, lo = list_items(el[0][2][0]), list_items(ob[1][0][2][0])
        if le is None or lo is None:
            return False, "findall result is not a proper list: %s" % (T.show_obs(ob),)
        if [T.canon(x) for x in lo] != [T.canon(x) for x in le]:
            return False, "findall list %s differs from the SLD list %s" % (T.show_obs(ob), [T.text_canon(x) for x in el])
        if ob[1][0] != el[0]:
            return False, ("findall list %s has the solutions of %s in SLD order but identifies variables of different solutions"
                           % (T.show_obs(ob), [T.text_canon(x) for x in el]))
        return True, ""
    if set(ob[1]) != exp_set:
        return False, "answer set %s differs from the reference %s" % (
            sorted(T.text_canon(x) for x in set(ob[1])), sorted(T.text_canon(x) for x in exp_set))
    return True, ""


def classify_prog(prog, query, observe, expected, observed):
    """Narrow class (input feature + symptom) of an engine/reference disagreement, or None.
      clause-index-order                      findall over one call to a facts-only predicate with a ground argument in a position where a
                                              clause with a non-ground argument precedes one with a ground argument (direct_index_case);
                                              symptom: the findall list is a permutation of the SLD list
      findall-order-not-sld                   any other findall goal (rules, conjunctions, disjunctions, duplicate solutions); same symptom
                                              (findall orders solutions by the highest formula-node id of their proof, which follows SLD
                                              order only while no proof reuses an older node; index order also propagates through rules)
      findall-duplicates-collapsed            some solution has several SLD derivations; symptom: same set of solutions, every one at most as
                                              often as in the SLD list, at least one less often (two proofs of one tabled ground subgoal
                                              are or-ed into one node)
      findall-solutions-share-variables       non-ground solutions; symptom: right solutions in the right order, but variables of
                                              different solutions are the same variable"""
    if observed[0] != 'ok' or not isinstance(expected, list) or observe != 'list':
        return None
    exp = [T.canon(C('ans', *t[2])) for t in expected]
    obs = observed[1]
    if len(obs) != 1 or len(exp) != 1:
        return None
    le, lo = list_items(exp[0][2][0]), list_items(obs[0][2][0])
    if le is None or lo is None:
        return None
    ce, co = [T.canon(x) for x in le], [T.canon(x) for x in lo]
    if ce == co:
        if obs[0] != exp[0] and any(T.tvars(x) for x in le):
            return "findall-solutions-share-variables"
        return None
    if sorted(map(repr, ce)) == sorted(map(repr, co)):
        if direct_index_case(prog, query) and not index_in_order():
            return "clause-index-order"
        return "findall-order-not-sld"
    import collections
    me, mo = collections.Counter(map(repr, ce)), collections.Counter(map(repr, co))
    if set(me) == set(mo) and len(co) < len(ce) and all(mo[k] <= me[k] for k in mo):
        return "findall-duplicates-collapsed"
    return None


_INDEX_IN_ORDER = []


def index_in_order():
    """True when the real ClauseIndex.find returns clauses in program order on the witness history of the
    (repaired) clause-index-order defect: then a permuted findall list cannot be blamed on the index."""
    if not _INDEX_IN_ORDER:
        h = (2, [('append', [None, 0]), ('append', [0, 1]), ('append', [None, 2]), ('find', [0, None])])
        try:
            _INDEX_IN_ORDER.append(index_impl(h) == index_spec(h))
        except Exception:
            _INDEX_IN_ORDER.append(False)
    return _INDEX_IN_ORDER[0]


def direct_index_case(prog, query):
    """The queried wrapper is `w(L) :- findall(T, p(args), L)` where p is defined by facts only, and some ground
    argument of the call sits in a position where a clause of p with a non-ground argument precedes a clause with a
    ground one.  (Facts get fresh formula nodes in call order, so the max-node ordering of findall cannot be the
    cause here: the clause order delivered by ClauseIndex.find is.)"""
    defs = [b for h, b in prog if h[1] == query[1] and len(h[2]) == len(query[2])]
    if len(defs) != 1 or defs[0][0] != 'findall' or defs[0][2][0] != 'call':
        return False
    call = defs[0][2][1]
    heads = [(h, b) for h, b in prog if h[1] == call[1] and len(h[2]) == len(call[2])]
    if not heads or any(b[0] != 'true' for h, b in heads):
        return False
    for j, a in enumerate(call[2]):
        if T.tvars(a) or a[0] == '_':
            continue
        seen_var = False
        for h, _ in heads:
            if T.tvars(h[2][j]) or h[2][j][0] == '_':
                seen_var = True
            elif seen_var:
                return True
    return False


def multi_reach(prog, query):
    """Some predicate is reached through at least two body literals from the query."""
    by = {}
    for h, b in prog:
        by.setdefault((h[1], len(h[2])), []).append(b)

    def lits(g):
        if g[0] == 'call':
            return [(g[1][1], len(g[1][2]))]
        if g[0] in ('and', 'or'):
            return lits(g[1]) + lits(g[2])
        if g[0] == 'not':
            return lits(g[1])
        if g[0] == 'findall':
            return lits(g[2])
        return []
    count = {}
    seen = set()
    todo = [(query[1], len(query[2]))]
    while todo:
        p = todo.pop()
        if p in seen:
            continue
        seen.add(p)
        for b in by.get(p, []):
            for l in lits(b):
                count[l] = count.get(l, 0) + 1
                todo.append(l)
    return any(v >= 2 for v in count.values())


def list_items(t):
    out = []
    while t[0] == 'c' and t[1] == '.' and len(t[2]) == 2:
        out.append(t[2][0])
        t = t[2][1]
    return out if t[:3] == NIL else None


def index_order_feature(prog):
    """Some predicate has, in one argument position, a clause with a non-ground argument that precedes a clause
    with a ground argument (so `curr |= none` reorders them)."""
    by = {}
    for h, b in prog:
        by.setdefault((h[1], len(h[2])), []).append(h)
    for heads in by.values():
        for j in range(len(heads[0][2])):
            seen_var = False
            for h in heads:
                if T.tvars(h[2][j]) or h[2][j][0] == '_':
                    seen_var = True
                elif seen_var:
                    return True
    return False


def run_progs(ctx, exe):
    nprog = ctx.n(160, 4000)
    items = []
    for i in range(nprog):
        r = ctx.rng.random()
        items.append(gen_datalog(ctx.rng) if r < 0.2 else gen_program(ctx.rng))
    # the DESIGN witness first
    X, Y, L = V('X'), V('Y'), V('L')
    wit = [(C('p', X, I(1)), ('true',)), (C('p', A('a'), I(2)), ('true',)), (C('p', Y, I(4)), ('true',)),
           (C('fa', L), ('findall', Y, ('call', C('p', A('a'), Y)), L))]
    items.insert(0, (wit, [(C('fa', V('Q0')), 'list'), (C('p', A('a'), V('Q1')), 'set')], "witness"))
    # minimised witnesses of the other classes seen so far
    Z, W, B, Aa = V('Z'), V('W'), V('B'), A('a')
    w2 = [(C('p1', Aa), ('true',)), (C('p1', A('c')), ('true',)), (C('q0', Y), ('call', C('p1', Y))), (C('q0', W), ('call', C('p1', W))),
          (C('fa', L), ('findall', C('t', X), ('call', C('q0', X)), L))]
    w3 = [(C('p0', V('V0'), Aa), ('true',)), (C('p1', I(1), A('c')), ('true',)), (C('p2', V('V0')), ('true',)),
          (C('q0', X), ('and', ('call', C('p2', X)), ('neq', X, I(1)))),
          (C('q0', X), ('and', ('call', C('p0', W, X)), ('call', C('p1', Y, A('c'))))),
          (C('q1', Z, Z), ('and', ('call', C('q0', Z)), ('and', ('or', ('call', C('p0', Z, I(1))), ('call', C('q0', Z))), ('neq', Z, I(2))))),
          (C('fa', L), ('findall', B, ('call', C('q1', X, B)), L))]
    w4 = [(C('p2', A('b'), V('V1')), ('true',)), (C('p2', V('V0'), V('V1')), ('true',)),
          (C('fa', L), ('findall', B, ('call', C('p2', A('b'), B)), L))]
    for w in (w2, w3, w4):
        items.insert(1, (w, [(C('fa', V('Q0')), 'list')], "witness"))
    enc = new_enc()
    reqs, meta = [], []
    for pi, (prog, queries, kind) in enumerate(items):
        for q, observe in queries:
            if kind.startswith("datalog"):
                continue
            reqs.append(request(enc, [(T.strip_quote(h), b) for h, b in prog], q, 400))
            meta.append((pi, q))
    ctx.log("SLD reference: %d queries" % len(reqs))
    answers = ctx.oracle(exe, reqs, timeout=1800)
    ctx.log("engine: %d programs" % len(items))
    ref = {}
    for (pi, q), a in zip(meta, answers):
        ref[(pi, q)] = parse_answers(enc, a)
    batches = [[(prog_text(prog), [text(q) for q, _ in queries]) for prog, queries, kind in items[i:i + 10]]
               for i in range(0, len(items), 10)]
    obs_all = []
    for r in pl.pmap(run_programs, batches, jobs=ctx.n(8, 14), chunksize=1):
        obs_all.extend(r)
    ctx.log("judging")
    reported = {}
    for pi, ((prog, queries, kind), obs) in enumerate(zip(items, obs_all)):
        ctx.count("programs_" + kind.split('-')[0])
        lm = None
        if kind.startswith("datalog") or all(definite_datalog(c) for c in prog):
            try:
                lm = bottom_up(prog)
            except ValueError:
                lm = None
        for (q, observe), ob in zip(queries, obs):
            ctx.count("queries_" + observe)
            if kind.startswith("datalog"):
                exp_set = set(T.canon(C('ans', *f[2])) for f in lm if T.instance_of(strip_anon(q), f))
                expected = "least-model"
                ctx.count("reference_bottom_up")
            else:
                expected = ref[(pi, q)]
                if not isinstance(expected, list):
                    ctx.count("reference_" + str(expected))
                    continue         # SLD ran out of fuel / floundered: outside the property's quantifier
                exp_set = set(T.canon(C('ans', *t[2])) for t in expected)
                ctx.count("reference_sld")
                if lm is not None:
                    # cross-check of the Python bottom-up evaluator against the Coq-defined reference
                    bu = set(T.canon(C('ans', *f[2])) for f in lm if T.instance_of(strip_anon(q), f))
                    if all(not T.tvars(x) for x in exp_set) and bu != exp_set:
                        ctx.broken.append("correspondence:bottom-up evaluator differs from the SLD reference on %s ?- %s"
                                          % (prog_text(prog).replace("\n", " "), text(q)))
                    ctx.count("bottom_up_cross_checked")
            nontrivial = len(exp_set) >= 1 and (observe == 'list' or len(prog) > 3)
            ctx.case((prog_text(prog), text(q)), nontrivial,
                     sample={"program": prog_text(prog), "query": text(q), "kind": kind, "observe": observe,
                             "expected": sorted(T.text_canon(x) for x in exp_set), "observed": T.show_obs(ob)})
            if ob == ('err', 'OccursCheck'):
                # C14 lets a unification that needs the occurs check raise instead of fail; not this property's business
                ctx.count("skipped_engine_raised_OccursCheck")
                continue
            ok, why = judge_one(observe, expected, exp_set, ob)
            if not ok:
                klass = classify_prog(prog, q, observe, expected, ob)
                ctx.count("disagree_" + str(klass))
                reported[klass] = reported.get(klass, 0) + 1
                if reported[klass] > (15 if klass is None else 3):
                    continue
                sp, sq = shrink_prog(prog, q, observe, exe, enc, klass, kind)
                ctx.violation("%s ?- %s: %s" % (prog_text(sp).replace("\n", " "), text(sq), why if sp is prog else "(shrunk) " + describe(sp, sq, observe, exe, enc, kind)),
                              {"program": prog_text(sp), "query": text(sq), "observe": observe, "kind": kind}, klass=klass)


def strip_anon(t):
    c = [0]
    return T.named_anon(t, c)


def definite_datalog(c):
    h, b = c

    def flat(t):
        return all(a[0] in ('v', 'k') for a in t[2]) if t[0] == 'c' else True

    def okb(g):
        if g[0] == 'true':
            return True
        if g[0] == 'call':
            return flat(g[1])
        if g[0] == 'and':
            return okb(g[1]) and okb(g[2])
        return False
    hv = set(T.tvars(h))

    def bv(g):
        if g[0] == 'call':
            return set(T.tvars(g[1]))
        if g[0] == 'and':
            return bv(g[1]) | bv(g[2])
        return set()
    return flat(h) and okb(b) and hv <= bv(b) and not any(a[0] == '_' for a in h[2])


def evaluate_one(prog, q, observe, exe, enc, kind, ctx=None):
    """(expected, observed, ok) for one program/query; used by the shrinker and replay."""
    import subprocess
    if kind.startswith("datalog"):
        lm = bottom_up(prog)
        exp_set = set(T.canon(C('ans', *f[2])) for f in lm if T.instance_of(strip_anon(q), f))
        expected = "least-model"
    else:
        line = request(enc, [(T.strip_quote(h), b) for h, b in prog], q, 400)
        p = subprocess.run([exe], input=line + "\n", stdout=subprocess.PIPE, text=True, timeout=120)
        expected = parse_answers(enc, p.stdout.strip())
        if not isinstance(expected, list):
            return expected, None, True
        exp_set = set(T.canon(C('ans', *t[2])) for t in expected)
    ob = run_programs([(prog_text(prog), [text(q)])])[0][0]
    return expected, ob, judge_one(observe, expected, exp_set, ob)[0]


def describe(prog, q, observe, exe, enc, kind):
    expected, ob, ok = evaluate_one(prog, q, observe, exe, enc, kind)
    if isinstance(expected, list):
        e = [T.text_canon(T.canon(C('ans', *t[2]))) for t in expected]
    else:
        e = expected
    return "engine %s, reference %s" % (T.show_obs(ob) if ob else None, e)


def shrink_prog(prog, q, observe, exe, enc, klass, kind):
    """Drop clauses while the same class of disagreement persists."""
    def bad(p):
        # every called predicate must stay defined
        defined = set((h[1], len(h[2])) for h, _ in p)

        def calls(g):
            if g[0] == 'call':
                return [(g[1][1], len(g[1][2]))]
            if g[0] in ('and', 'or'):
                return calls(g[1]) + calls(g[2])
            if g[0] == 'not':
                return calls(g[1])
            if g[0] == 'findall':
                return calls(g[2])
            return []
        for h, b in p:
            if any(c not in defined for c in calls(b)):
                return False
        if (q[1], len(q[2])) not in defined:
            return False
        try:
            expected, ob, ok = evaluate_one(p, q, observe, exe, enc, kind)
        except Exception:
            return False
        if ok or ob is None:
            return False
        return classify_prog(p, q, observe, expected, ob) == klass
    cur = list(prog)
    i = 0
    budget = 60
    while i < len(cur) and budget > 0:
        cand = cur[:i] + cur[i + 1:]
        budget -= 1
        if cand and bad(cand):
            cur = cand
        else:
            i += 1
    return (cur, q) if len(cur) < len(prog) else (prog, q)


def run(ctx):
    ctx.cov["rule"] = ("(a) generated pure programs: 2-3 fact predicates (arity 1-3, constants and small compound terms, 60% of the "
                       "programs with variables in fact arguments so that ground call arguments hit two index buckets), 1-3 layered rule "
                       "predicates with , ; \\+ = \\=, findall wrappers over every predicate (first argument ground or free), optionally "
                       "member/append with findall; queried with free and ground arguments; answers compared as sets, findall lists exactly; "
                       "(b) cyclic edge/path Datalog (right/left/double/mutual recursion) against a bottom-up least model; "
                       "(c) random ClauseIndex append/find histories against the Gallina model of the code and the clause-order spec. "
                       "non-trivial: at least one answer and (a findall list or more than 3 clauses)")
    ctx.assumptions += [
        "the reference for Prolog is the Coq-defined SLD interpreter (SWI-Prolog is not installed); fuel 400 (recursion depth); "
        "programs on which it runs out of fuel or flounders are skipped and counted",
        "recursive programs: the reference is a Python bottom-up evaluator, cross-checked against the SLD reference on the "
        "non-recursive Datalog programs of the same run",
        "clause ids grow in program order (ClauseDB._append_node), which is what 'sorted' means in C13_index_order",
    ]
    import sys
    sys.setrecursionlimit(200000)
    ctx.prove("C13/Props.v")
    if ctx.tier == "thorough":
        ctx.coqchk("PL.C13.Props")
    ctx.log("ClauseIndex histories")
    run_index(ctx)
    ctx.log("building oracle")
    exe = ctx.ocaml_oracle("c13", EXTRACT_V, DRIVER_ML)
    run_progs(ctx, exe)
