"""C32 — select_weighted/4,5 and select_uniform/4 define the documented distribution (problog/library/lists.pl)."""
import importlib
import os
import sys
from fractions import Fraction

import vf
import pl

sys.path.insert(0, os.path.join(vf.VERIF, "gen"))

META = {
    "id": "C32",
    "level": "proof",
    "technique": "library clauses parsed with ProbLog's parser into a Gallina value (regenerated every run) and proved equal to the "
                 "clauses the process model mirrors; Coq theorems (induction over the list, telescoping product, over Q) about "
                 "that process; differential runs of the real library against w_i/sum(w) and against the model's exact "
                 "possible-world sums",
    "design_ref": "DESIGN.md §5 C32",
    "text": "Theorems for all positive weight lists of any length about a process model that mirrors the sw/6 clauses one to one "
            "(explanations over independent sw_p facts); the clauses are re-parsed from lists.pl on every run and must equal the "
            "modelled ones; the real library is run on random lists (length 1-6, equal elements, several identifiers, joint calls) "
            "and compared with w_i/sum(w) (1e-9) and with the model's exact world sums evaluated in Coq.",
    "note": "Trusted: Coq kernel + vm_compute; the reading of the three sw/6 clauses as the function `sw` of ModelSelectW.v "
            "(checked syntactically against the parsed clauses and differentially against the engine); the equality "
            "world-sum = sum of products is proved for every single call (C32_world_sum_is_product_sum, C32_weighted_world); "
            "for joint queries of two calls it is evaluated exactly per case.",
}

HEADER = """From Coq Require Import ZArith QArith List Bool NArith.
From PL.C32 Require Import ModelClauses ModelSelectW.
Import ListNotations.
Open Scope Q_scope.
Definition q_is (a b : Q) : bool := Qeq_bool a b.
Definition single (id : N) (ws : list Q) (vs : list N) (v : N) (r : list N) : Q :=
  world_prob (answer_dnf (select_weighted id ws vs) v r).
Definition uniform (id : N) (vs : list N) (v : N) (r : list N) : Q :=
  world_prob (answer_dnf (select_uniform id vs) v r).
Definition joint (id1 id2 : N) (ws1 : list Q) (vs1 : list N) (ws2 : list Q) (vs2 : list N) (v1 : N) (r1 : list N) (v2 : N) (r2 : list N) : Q :=
  world_prob (and_dnf (answer_dnf (select_weighted id1 ws1 vs1) v1 r1) (answer_dnf (select_weighted id2 ws2 vs2) v2 r2)).
"""

ATOMS = ["a", "b", "c", "d"]
IDS = ["id1", "id2", "7", "f(x)", "'my id'"]
WEIGHT_TEXTS = ["1", "2", "3", "5", "7", "0.5", "0.25", "1.5", "0.1", "0.3", "2.75", "10", "100", "0.125", "1e-3"]


def generate(ctx):
    import c32_liblists
    importlib.reload(c32_liblists)
    ctx.generate("C32/GenLibLists.v", c32_liblists.translate(vf.REPO))


# ------------------------------------------------------------------ reference (the documented distribution)
def spec_single(ws, vs):
    tot = sum(ws)
    out = {}
    for i, (w, v) in enumerate(zip(ws, vs)):
        key = (v, tuple(vs[:i] + vs[i + 1:]))
        out[key] = out.get(key, Fraction(0)) + w / tot
    return out


def spec_joint(d1, d2, same_choice):
    out = {}
    if same_choice:
        for k, p in d1.items():
            out[k + k] = p
    else:
        for k1, p1 in d1.items():
            for k2, p2 in d2.items():
                out[k1 + k2] = p1 * p2
    return out


# ------------------------------------------------------------------ the real library
def plist(xs):
    return "[" + ",".join(xs) + "]"


def scenario_program(sc):
    ws = plist(sc["wtxt"])
    vs = plist(sc["vs"])
    ws2 = plist(sc["wtxt2"])
    vs2 = plist(sc["vs2"])
    pairs = plist("(%s,%s)" % (w, v) for w, v in zip(sc["wtxt"], sc["vs"]))
    i1, i2 = sc["id1"], sc["id2"]
    return """:- use_module(library(lists)).
s5(V,R) :- select_weighted(%(i1)s, %(ws)s, %(vs)s, V, R).
s4(V,R) :- select_weighted(%(i1)s, %(pairs)s, V, R).
u(V,R) :- select_uniform(%(i1)s, %(vs)s, V, R).
same(V1,R1,V2,R2) :- select_weighted(%(i1)s, %(ws)s, %(vs)s, V1, R1), select_weighted(%(i1)s, %(ws)s, %(vs)s, V2, R2).
diff(V1,R1,V2,R2) :- select_weighted(%(i1)s, %(ws)s, %(vs)s, V1, R1), select_weighted(%(i2)s, %(ws2)s, %(vs2)s, V2, R2).
query(s5(_,_)). query(s4(_,_)). query(u(_,_)). query(same(_,_,_,_)). query(diff(_,_,_,_)).
""" % dict(i1=i1, i2=i2, ws=ws, vs=vs, ws2=ws2, vs2=vs2, pairs=pairs)


def run_scenario(sc):
    """Returns {pred: {key: prob}} or ('err', class)."""
    def go():
        from problog import get_evaluatable
        from problog.program import PrologString
        from problog.logic import term2list
        res = get_evaluatable().create_from(PrologString(scenario_program(sc))).evaluate()
        out = {}
        for t, p in res.items():
            args = t.args
            key = []
            for j in range(0, len(args), 2):
                key.append(str(args[j]))
                key.append(tuple(str(x) for x in term2list(args[j + 1], deep=False)))
            out.setdefault(t.functor, {})[tuple(key)] = p
        return out
    try:
        return pl.with_timeout(go, 120)
    except BaseException as e:  # noqa
        if isinstance(e, (KeyboardInterrupt, SystemExit)):
            raise
        return ("err", pl.err_class(e))


# ------------------------------------------------------------------ coq encoding
def cq(fr):
    return "(%d # %d)" % (fr.numerator, fr.denominator)


def cqs(ws):
    return vf.coq_list([cq(w) for w in ws])


def cns(ns):
    return "(" + vf.coq_list([vf.coq_N(n) for n in ns]) + ")"


def coinciding(rng):
    """Values with repeated elements at non-last positions whose conditional weights W/remaining-total coincide
    (all equal to r): the per-position facts must still be different facts.  Built backwards from the last weight."""
    n = rng.choice([3, 3, 4, 4, 5, 6])
    num, den = rng.choice([(1, 2), (1, 2), (1, 3), (2, 3), (1, 4), (3, 4)])
    r = Fraction(num, den)
    rem = Fraction((den - num) ** (n - 1)) * rng.choice([1, 1, 2, 3])
    ws = [rem]
    for _ in range(n - 1):
        w = r / (1 - r) * rem
        ws.insert(0, w)
        rem += w
    assert all(w.denominator == 1 for w in ws)
    if rng.random() < 0.3:       # only a prefix coincides
        ws[-1] = ws[-1] + rng.choice([1, 2])
    shape = rng.random()
    if shape < 0.4:
        vs = ["a"] * (n - 1) + ["b"]
    elif shape < 0.6:
        vs = ["a"] * n
    elif shape < 0.8:
        vs = ["a", "a"] + [rng.choice(["a", "b", "c"]) for _ in range(n - 2)]
    else:
        vs = [rng.choice(["a", "b"]) for _ in range(n)]
    return vs, [str(int(w)) for w in ws]


def gen_scenario(rng):
    def one():
        if rng.random() < 0.35:
            return coinciding(rng)
        n = rng.choice([1, 2, 2, 3, 3, 4, 5, 6])
        pool = ATOMS[:rng.choice([1, 2, 3, 4])]
        vs = [rng.choice(pool) for _ in range(n)]
        style = rng.random()
        if style < 0.25:
            wt = [rng.choice(["1", "2"])] * n if rng.random() < 0.5 else [rng.choice(WEIGHT_TEXTS)] * n
        else:
            wt = [rng.choice(WEIGHT_TEXTS) for _ in range(n)]
        return vs, wt
    vs, wt = one()
    vs2, wt2 = one() if rng.random() < 0.5 else (vs, wt)
    i1 = rng.choice(IDS)
    i2 = rng.choice([i for i in IDS if i != i1])
    return {"vs": vs, "wtxt": wt, "vs2": vs2, "wtxt2": wt2, "id1": i1, "id2": i2}


def compare(ctx, sc, pred, got, want, what):
    """got: {key: float}; want: {key: Fraction}.  prob 0 == unreported."""
    bad = []
    for k in set(got) | set(want):
        g = got.get(k, 0.0)
        w = float(want.get(k, 0))
        if abs(g - w) > 1e-9:
            bad.append((k, g, str(want.get(k, Fraction(0)))))
    if bad:
        k, g, w = bad[0]
        ctx.violation("%s: %s with answer %r has probability %.12g, documented %s" % (what, pred, k, g, w),
                      {"scenario": sc, "predicate": pred, "answer": repr(k), "observed": g, "expected": w,
                       "program": scenario_program(sc)}, klass=None)
    return not bad


def run(ctx):
    ctx.cov["rule"] = ("scenarios: value lists of length 1-6 over 1-4 distinct atoms (equal elements frequent), weights from "
                       "ints/dyadic/decimal literals (all-equal in 1/4 of the cases), identifiers incl. compound and quoted; each "
                       "scenario queries select_weighted/5, select_weighted/4 (pairs), select_uniform/4, the joint of two calls "
                       "with the same id and of two calls with different ids (second list independent in half the cases); 35% of the lists (+5 fixed ones) have repeated elements at non-last positions whose conditional weights W/remaining coincide; "
                       "non-trivial = length >= 3 with a repeated element or unequal weights")
    ctx.assumptions += [
        "the function `sw` of ModelSelectW.v is the reading of the three sw/6 clauses (syntactic equality of the parsed "
        "clauses with the transcription is an obligation; the reading itself is checked differentially)",
        "ProbLog's float arithmetic is compared with exact rationals at 1e-9",
        "weights are positive and given as ground numbers; identifiers and values are ground",
    ]
    model_current = True
    try:
        generate(ctx)
    except Exception as e:  # noqa  (fail-closed: the library clauses can no longer be turned into the model value)
        model_current = False
        ctx.broken.append("translator:gen/c32_liblists.py cannot translate lists.pl: %s" % (str(e)[:300],))
        import re
        with open(os.path.join(vf.THEORIES, "C32", "Props.v")) as f:
            ctx.cov["obligations"] += len(re.findall(r"(?m)^\s*Theorem\s", vf.strip_coq_comments(f.read())))
    if model_current:
        ctx.prove("C32/Props.v")
    n = ctx.n(30, 500)
    directed = [(["a", "a", "b"], ["2", "1", "1"]), (["a", "a", "a", "b"], ["4", "2", "1", "1"]),
                (["a", "a", "a", "b"], ["1", "1", "1", "1"]), (["a", "b", "a", "b"], ["9", "6", "4", "8"]),
                (["a", "a", "a"], ["2", "1", "1"])]
    scs = [{"vs": v, "wtxt": w, "vs2": v, "wtxt2": w, "id1": IDS[k % len(IDS)], "id2": IDS[(k + 1) % len(IDS)]}
           for k, (v, w) in enumerate(directed)]
    scs += [gen_scenario(ctx.rng) for _ in range(n)]
    if ctx.replay:
        r = ctx.replay.get("replay", ctx.replay)
        scs = [r["scenario"]]
    results = pl.pmap(run_scenario, scs, jobs=ctx.n(4, 12), chunksize=1)
    atoms = {a: i + 1 for i, a in enumerate(ATOMS)}
    ids = {a: i + 100 for i, a in enumerate(IDS)}
    cases, metas = [], []
    for sc, res in zip(scs, results):
        ws = [Fraction(t) for t in sc["wtxt"]]
        ws2 = [Fraction(t) for t in sc["wtxt2"]]
        vs, vs2 = sc["vs"], sc["vs2"]
        nontrivial = len(vs) >= 3 and (len(set(vs)) < len(vs) or len(set(ws)) > 1)
        ctx.case(("sc", tuple(vs), tuple(sc["wtxt"]), tuple(vs2), tuple(sc["wtxt2"]), sc["id1"], sc["id2"]), nontrivial,
                 sample={"values": vs, "weights": sc["wtxt"], "id": sc["id1"], "result": repr(res) if isinstance(res, tuple) else {repr(k): v for k, v in res.get("s5", {}).items()}})
        ctx.count("len_%d" % len(vs))
        ctx.count("equal_elements" if len(set(vs)) < len(vs) else "distinct_elements")
        rem, conds = sum(ws), []
        for w, v in list(zip(ws, vs))[:-1]:
            conds.append((v, w / rem))
            rem -= w
        if len(set(conds)) < len(conds):
            ctx.count("equal_element_with_coinciding_conditional_weight")
        if isinstance(res, tuple):
            ctx.violation("select_weighted scenario failed with %s" % res[1], {"scenario": sc, "program": scenario_program(sc)}, klass=None)
            continue
        d1 = spec_single(ws, vs)
        d2 = spec_single(ws2, vs2)
        du = spec_single([Fraction(1)] * len(vs), vs)
        compare(ctx, sc, "select_weighted/5", res.get("s5", {}), d1, "weighted")
        compare(ctx, sc, "select_weighted/4", res.get("s4", {}), d1, "weighted pairs")
        compare(ctx, sc, "select_uniform/4", res.get("u", {}), du, "uniform")
        compare(ctx, sc, "two calls, same identifier", res.get("same", {}), spec_joint(d1, d1, True), "same id => same choice")
        compare(ctx, sc, "two calls, different identifiers", res.get("diff", {}), spec_joint(d1, d2, False), "different ids => independent")
        # the model's exact world sums on the same scenario
        cv, cv2 = [atoms[v] for v in vs], [atoms[v] for v in vs2]
        i1, i2 = vf.coq_N(ids[sc["id1"]]), vf.coq_N(ids[sc["id2"]])
        for (v, r), p in d1.items():
            cases.append("q_is (single %s %s %s %s %s) %s" % (i1, cqs(ws), cns(cv), vf.coq_N(atoms[v]), cns([atoms[x] for x in r]), cq(p)))
            metas.append(("single", sc))
        for (v, r), p in du.items():
            cases.append("q_is (uniform %s %s %s %s) %s" % (i1, cns(cv), vf.coq_N(atoms[v]), cns([atoms[x] for x in r]), cq(p)))
            metas.append(("uniform", sc))
        if len(vs) <= 4 and len(vs2) <= 4:
            ks1 = list(d1.items())
            ks2 = list(d2.items())

            def ans(k):
                return "%s %s" % (vf.coq_N(atoms[k[0]]), cns([atoms[x] for x in k[1]]))
            for (k1, p1) in ks1[:3]:
                for (k2, _) in ks1[:3]:
                    cases.append("q_is (joint %s %s %s %s %s %s %s %s) %s"
                                 % (i1, i1, cqs(ws), cns(cv), cqs(ws), cns(cv), ans(k1), ans(k2),
                                    cq(p1 if k1 == k2 else Fraction(0))))
                    metas.append(("joint-same-id", sc))
                for (k2, p2) in ks2[:3]:
                    cases.append("q_is (joint %s %s %s %s %s %s %s %s) %s"
                                 % (i1, i2, cqs(ws), cns(cv), cqs(ws2), cns(cv2), ans(k1), ans(k2), cq(p1 * p2)))
                    metas.append(("joint-different-ids", sc))
    if not model_current:
        ctx.notes.append("model is stale (the clauses could not be regenerated): the Coq side of the tie was skipped; the real "
                         "library was still judged against w_i/sum(w) on %d scenarios" % len(scs))
        return
    ctx.log("evaluating %d model cases in Coq" % len(cases))
    try:
        bad = ctx.coq_failing(HEADER, cases, name="c32", shard=ctx.n(150, 400))
    except RuntimeError as e:
        ctx.broken.append("correspondence:C32 model cases do not evaluate")
        ctx.notes.append(str(e))
        return
    ctx.cov["model_world_sums_checked"] = len(cases)
    ctx.cov["model_world_sums_equal_documented"] = len(cases) - len(bad)
    for i in bad[:5]:
        ctx.broken.append("correspondence:ModelSelectW %s world sum differs from the documented value on %r" % metas[i])
