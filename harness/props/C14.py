"""C14 — unification is sound and complete syntactic unification.

Reference: Robinson unification `mgu` defined and proved correct in Coq
(coq/theories/C14), extracted to OCaml and used as the oracle.  The real engine
is driven through four doors:
  eq    `S = T`        (engine_builtin._builtin_eq  -> engine_unify.unify_value)
  neq   `S \\= T`       (engine_builtin._builtin_neq)
  call  fact `p(T1).` called as `p(T2)`   (ClauseIndex.find + unify_call_head, bindings in the answer)
  body  `w(V1..Vk) :- S = T.` called as `w(_,..,_)`  (bindings handed back through unify_call_return)
"""
import itertools
import os
import sys
import vf
import pl

sys.path.insert(0, os.path.join(vf.VERIF, "gen"))
import c14_unify  # noqa: E402

META = {
    "id": "C14",
    "level": "proof",
    "technique": "Coq proof of Robinson unification (sound, most general, complete, fuel sufficient, idempotent) "
                 "+ differential tie of =/2, \\=/2, clause-head calls and returned bindings against the extracted mgu "
                 "+ fail-closed Python-ast translation of engine_unify.unify_value / unify_call_head into Gallina (GenUnify.v), "
                 "proved to compute an mgu whenever its final bindings dictionary is in solved form (decidable guard; "
                 "a-priori class: one side ground), tied by direct calls of the real functions",
    "design_ref": "DESIGN.md §5 C14",
    "text": "mgu with occurs check is defined in Gallina and proved sound, most general, complete and idempotent for all terms; "
            "the engine's =/2, \\=/2, clause-head unification and binding return are compared with the extracted mgu on "
            "bounded-exhaustive and random term pairs (success/failure and answer instance up to variable renaming). "
            "The code of unify_value itself is translated on every run and proved: raises only without a unifier; final dictionary "
            "has exactly the unifiers as solutions; solved dictionary => its resolution is an mgu equivalent to the reference; "
            "the translated unify_value and unify_call_head are compared with direct calls (value, dictionary, context, exception).",
    "note": "Trusted: translator gen/c14_unify.py and ModelImplUnify.v (meaning of the Python primitives), "
            "Coq kernel, extraction + OCaml driver (term (de)serialisation), Python glue that renders terms as "
            "ProbLog text, reads answers back and renames variables canonically.",
}

# ----------------------------------------------------------------------------
# terms:  ('v', name) | ('_',) | ('k', kind, value[, quoted]) | ('c', functor, (args...))
#   kind: 'a' atom, 'i' int, 'f' float, 's' string.  Lists are '.'/2 and atom '[]'.
NIL = ('k', 'a', '[]')


def V(n):
    return ('v', n)


def A(n, quoted=False):
    return ('k', 'a', n, quoted) if quoted else ('k', 'a', n)


def I(n):
    return ('k', 'i', n)


def F(x):
    return ('k', 'f', x)


def S(x):
    return ('k', 's', x)


def C(f, *args):
    return ('c', f, tuple(args))


def cons(h, t):
    return C('.', h, t)


def text(t):
    k = t[0]
    if k == 'v':
        return t[1]
    if k == '_':
        return '_'
    if k == 'k':
        if t[1] == 'a':
            return "'%s'" % t[2] if (len(t) > 3 and t[3]) else t[2]
        if t[1] == 'i':
            return str(t[2])
        if t[1] == 'f':
            return repr(float(t[2]))
        return '"%s"' % t[2]
    f, args = t[1], t[2]
    if f == '.' and len(args) == 2:
        items, cur = [args[0]], args[1]
        while cur[0] == 'c' and cur[1] == '.' and len(cur[2]) == 2:
            items.append(cur[2][0])
            cur = cur[2][1]
        s = ",".join(text(x) for x in items)
        return "[%s]" % s if cur[:3] == NIL else "[%s|%s]" % (s, text(cur))
    return "%s(%s)" % (f, ",".join(text(a) for a in args))


def tsize(t):
    return 1 + sum(tsize(a) for a in t[2]) if t[0] == 'c' else 1


def tvars(t, acc=None):
    acc = [] if acc is None else acc
    if t[0] == 'v':
        if t[1] not in acc:
            acc.append(t[1])
    elif t[0] == 'c':
        for a in t[2]:
            tvars(a, acc)
    return acc


def strip_quote(t):
    """Canonical symbol identity by Prolog's rules: 'a' and a are the same atom."""
    if t[0] == 'k':
        return t[:3]
    if t[0] == 'c':
        return ('c', t[1], tuple(strip_quote(a) for a in t[2]))
    return t


def canon(t):
    """Rename variables by first occurrence (two terms are variants iff their canon forms are equal)."""
    names = {}

    def go(u):
        if u[0] == 'v':
            if u[1] not in names:
                names[u[1]] = len(names)
            return ('v', names[u[1]])
        if u[0] == '_':
            names[('anon', len(names))] = len(names)
            return ('v', len(names) - 1)
        if u[0] == 'c':
            return ('c', u[1], tuple(go(a) for a in u[2]))
        return u[:3]
    return go(t)


# ---------------------------------------------------------------------------- model encoding
class Enc:
    """Serialises terms for the OCaml oracle: `V n` | `A kind id nargs args...`."""

    def __init__(self):
        self.syms = {}
        self.rev = {}

    def sym(self, kind, val):
        if kind == 'i':
            return val
        key = (kind, val)
        if key not in self.syms:
            self.syms[key] = len(self.syms)
            self.rev[(kind, self.syms[key])] = val
        return self.syms[key]

    def enc(self, t, vmap, out):
        k = t[0]
        if k == 'v':
            if t[1] not in vmap:
                vmap[t[1]] = len(vmap)
            out.append("V %d" % vmap[t[1]])
        elif k == '_':
            vmap[('anon', len(vmap))] = len(vmap)
            out.append("V %d" % (len(vmap) - 1))
        elif k == 'k':
            out.append("A %s %d 0" % (t[1], self.sym(t[1], t[2])))
        else:
            out.append("A a %d %d" % (self.sym('a', t[1]), len(t[2])))
            for a in t[2]:
                self.enc(a, vmap, out)

    def dec(self, toks, i=0):
        if toks[i] == 'V':
            return ('v', int(toks[i + 1])), i + 2
        kind, ident, n = toks[i + 1], int(toks[i + 2]), int(toks[i + 3])
        i += 4
        if n == 0:
            return ('k', kind, ident if kind == 'i' else self.rev[(kind, ident)]), i
        args = []
        for _ in range(n):
            a, i = self.dec(toks, i)
            args.append(a)
        return ('c', self.rev[('a', ident)], tuple(args)), i


EXTRACT_V = """From Coq Require Import NArith ZArith List Extraction ExtrOcamlBasic.
From PL.C14 Require Import ModelUnify.
Extraction Language OCaml.
Set Extraction Output Directory ".".
Extraction "oracle.ml" mgu_inst neq_builtin call_fact.
"""

DRIVER_ML = r"""
open Oracle
let rec pos_of_int n = if n = 1 then XH else if n land 1 = 1 then XI (pos_of_int (n lsr 1)) else XO (pos_of_int (n lsr 1))
let n_of_int n = if n = 0 then N0 else Npos (pos_of_int n)
let z_of_int n = if n = 0 then Z0 else if n > 0 then Zpos (pos_of_int n) else Zneg (pos_of_int (- n))
let rec int_of_pos = function XH -> 1 | XO p -> 2 * int_of_pos p | XI p -> 2 * int_of_pos p + 1
let int_of_n = function N0 -> 0 | Npos p -> int_of_pos p
let int_of_z = function Z0 -> 0 | Zpos p -> int_of_pos p | Zneg p -> - (int_of_pos p)
let rec parse toks = match toks with
  | "V" :: n :: rest -> (TVar (n_of_int (int_of_string n)), rest)
  | "A" :: k :: id :: nargs :: rest ->
      let i = int_of_string id in
      let f = (match k with "a" -> SAtom (n_of_int i) | "i" -> SInt (z_of_int i) | "f" -> SFlt (n_of_int i)
                          | "s" -> SStr (n_of_int i) | _ -> failwith "kind") in
      let rec args n toks acc = if n = 0 then (List.rev acc, toks) else
          let (a, toks') = parse toks in args (n - 1) toks' (a :: acc) in
      let (l, rest') = args (int_of_string nargs) rest [] in
      (TApp (f, l), rest')
  | _ -> failwith "parse"
let rec show b t = match t with
  | TVar v -> Buffer.add_string b (Printf.sprintf "V %d " (int_of_n v))
  | TApp (f, l) ->
      (match f with
       | SAtom i -> Buffer.add_string b (Printf.sprintf "A a %d %d " (int_of_n i) (List.length l))
       | SInt z -> Buffer.add_string b (Printf.sprintf "A i %d %d " (int_of_z z) (List.length l))
       | SFlt i -> Buffer.add_string b (Printf.sprintf "A f %d %d " (int_of_n i) (List.length l))
       | SStr i -> Buffer.add_string b (Printf.sprintf "A s %d %d " (int_of_n i) (List.length l)));
      List.iter (show b) l
let out_opt o = match o with
  | None -> print_string "N\n"
  | Some t -> let b = Buffer.create 64 in show b t; print_string ("S " ^ Buffer.contents b ^ "\n")
let () =
  try
    while true do
      let line = input_line stdin in
      let toks = List.filter (fun s -> s <> "") (String.split_on_char ' ' line) in
      match toks with
      | "inst" :: rest -> let (s, r1) = parse rest in let (t, r2) = parse r1 in let (u, _) = parse r2 in
                          out_opt (mgu_inst s t u)
      | "neq" :: rest -> let (s, r1) = parse rest in let (t, _) = parse r1 in
                          print_string (if neq_builtin s t then "T\n" else "F\n")
      | "call" :: rest -> let (s, r1) = parse rest in let (t, _) = parse r1 in out_opt (call_fact s t)
      | _ -> failwith "mode"
    done
  with End_of_file -> ()
"""


# ---------------------------------------------------------------------------- reading engine answers
def from_pl(t):
    """problog term / engine variable -> our tuple form."""
    from problog.logic import Term, Var, Constant
    if t is None:
        return ('_',)
    if isinstance(t, int):
        return ('v', t)
    if isinstance(t, Var):
        return ('v', t.name) if t.name != '_' else ('_',)
    if isinstance(t, Constant):
        v = t.functor
        if type(v) == int:
            return ('k', 'i', v)
        if type(v) == float:
            return ('k', 'f', v)
        sv = str(v)
        return ('k', 's', sv[1:-1] if len(sv) >= 2 and sv[0] == '"' else sv)
    f = str(t.functor)
    if len(f) >= 2 and f[0] == "'" and f[-1] == "'":
        f = f[1:-1]
    if t.arity == 0:
        return ('k', 'a', f)
    return ('c', f, tuple(from_pl(a) for a in t.args))


def run_batch(batch):
    """batch: list of (mode, s, t) -> list of observations ('ok', [canon answer terms]) | ('err', class).
    One engine, one database per batch."""
    from problog.program import PrologString
    from problog.engine import DefaultEngine
    from problog.logic import Term
    import sys
    sys.setrecursionlimit(20000)
    lines = []
    goals = []
    for i, (mode, s, t) in enumerate(batch):
        if mode == 'eq':
            goals.append("%s = %s" % (text(s), text(t)))
        elif mode == 'neq':
            goals.append("%s \\= %s" % (text(s), text(t)))
        elif mode == 'call':
            # s is the call, t the fact's argument
            lines.append("p%d(%s)." % (i, text(t)))
            goals.append("p%d(%s)" % (i, text(s)))
        elif mode == 'callN':
            # spread the arguments of two compound terms over a predicate's argument list
            lines.append("p%d(%s)." % (i, ",".join(text(a) for a in t[2])))
            goals.append("p%d(%s)" % (i, ",".join(text(a) for a in s[2])))
        elif mode == 'body':
            vs = tvars(C('x', s, t))
            lines.append("w%d(%s) :- %s = %s." % (i, ",".join(vs) if vs else "x", text(s), text(t)))
            goals.append("w%d(%s)" % (i, ",".join("Q%d" % k for k in range(len(vs))) if vs else "x"))
        else:
            raise ValueError(mode)
    out = []

    base = []

    def fresh():
        # an engine whose run was aborted by an exception keeps its stack: take a new engine on the same
        # (already compiled) database
        e = DefaultEngine()
        if not base:
            base.append(e.prepare(PrologString("\n".join(lines) + "\n")))
            return e, base[0]
        return e, e.prepare(base[0])
    try:
        eng, db = fresh()
    except Exception as e:  # the generated program itself must load
        return [('err', 'LOAD:' + pl.err_class(e))] * len(batch)
    for g in goals:
        if eng is None:
            eng, db = fresh()     # an exception leaves the engine's stack in an undefined state
        try:
            q = Term.from_string(g)
            res = pl.with_timeout(eng.query, 60, db, q)
            out.append(('ok', [canon(C('ans', *[from_pl(a) for a in r])) for r in res]))
        except BaseException as e:  # noqa
            if isinstance(e, (KeyboardInterrupt, SystemExit)):
                raise
            out.append(('err', 'OccursCheck' if type(e).__name__ == 'OccursCheck' else pl.err_class(e)))
            eng = None
    return out


# ---------------------------------------------------------------------------- generation
LEAVES_SMALL = [A('a'), A('b'), I(1), V('X'), V('Y'), V('Z')]
LEAVES_MED = LEAVES_SMALL + [NIL, A('a', True), I(-3), F(1.0), S('a'), A('1', True), A('hello world', True), I(10), ('_',)]


def terms_by_size(leaves, n):
    """All terms of size <= n (size = number of symbols) over the leaves, f/1, g/2 and list cells."""
    by = {1: list(leaves)}
    for k in range(2, n + 1):
        cur = [C('f', x) for x in by[k - 1]]
        for i in range(1, k - 1):
            for x in by[i]:
                for y in by[k - 1 - i]:
                    cur.append(C('g', x, y))
                    cur.append(cons(x, y))
        by[k] = cur
    return [t for k in range(1, n + 1) for t in by[k]]


def rand_term(rng, depth, leaves, nvars=4):
    r = rng.random()
    if depth <= 0 or r < 0.3:
        k = rng.random()
        if k < 0.5:
            return V(rng.choice("XYZWUV"[:nvars]))
        return rng.choice(leaves)
    if r < 0.5:
        return C('f', rand_term(rng, depth - 1, leaves, nvars))
    if r < 0.75:
        return C('g', rand_term(rng, depth - 1, leaves, nvars), rand_term(rng, depth - 1, leaves, nvars))
    if r < 0.85:
        return C('h', *[rand_term(rng, depth - 1, leaves, nvars) for _ in range(3)])
    if r < 0.93:
        return cons(rand_term(rng, depth - 1, leaves, nvars), rand_term(rng, depth - 1, leaves, nvars))
    items = [rand_term(rng, depth - 2, leaves, nvars) for _ in range(rng.randrange(1, 4))]
    t = NIL
    for x in reversed(items):
        t = cons(x, t)
    return t


def mutate(rng, t, leaves, nvars):
    """A term close to t: replace some subterms by variables / other terms (keeps many pairs unifiable)."""
    if rng.random() < 0.25:
        return V(rng.choice("XYZWUV"[:nvars])) if rng.random() < 0.8 else rand_term(rng, 1, leaves, nvars)
    if t[0] == 'c':
        return ('c', t[1], tuple(mutate(rng, a, leaves, nvars) for a in t[2]))
    return t


def rand_pair(rng, leaves):
    nvars = rng.choice([2, 3, 4, 6])
    d = rng.choice([2, 3, 3, 4])
    s = rand_term(rng, d, leaves, nvars)
    if s[0] != 'c' and rng.random() < 0.8:
        s = C('g', s, rand_term(rng, d - 1, leaves, nvars))
    k = rng.random()
    if k < 0.6:
        t = mutate(rng, s, leaves, nvars)
        s = mutate(rng, s, leaves, nvars) if rng.random() < 0.7 else s
    else:
        t = rand_term(rng, d, leaves, nvars)
    return s, t


ALIAS_POOL_SMALL = [V('X'), V('Y'), A('a'), A('b')]
ALIAS_POOL = [V('X'), V('Y'), V('Z'), V('W'), A('a'), A('b'), C('f', A('a')), C('f', A('b')), C('f', V('X')), C('f', V('Z'))]


def shape(kind, args):
    """One argument vector, three ways of hanging it into a term: flat t/n, right-nested g/2, list."""
    if kind == 0:
        return C('t', *args)
    if kind == 1:
        t = args[-1]
        for x in reversed(args[:-1]):
            t = C('g', x, t)
        return t
    t = NIL
    for x in reversed(args):
        t = cons(x, t)
    return t


def alias_pairs_exhaustive():
    """All pairs t(A1,A2,A3) / t(B1,B2,B3) with arguments from {X,Y,a,b}: every order in which two variables can be
    bound, aliased and then hit by a clashing or agreeing binding (4 096 pairs)."""
    import itertools
    vecs = list(itertools.product(ALIAS_POOL_SMALL, repeat=3))
    return [(shape(0, u), shape(0, v)) for u in vecs for v in vecs]


def alias_pair_random(rng):
    n = rng.choice([3, 3, 4, 4, 5])
    k = rng.randrange(3)
    pool = ALIAS_POOL[:rng.choice([6, 8, 10])]
    return (shape(k, [rng.choice(pool) for _ in range(n)]), shape(k, [rng.choice(pool) for _ in range(n)]))


# ---------------------------------------------------------------------------- classification of defects
def rational_unifiable(s, t):
    """Unification WITHOUT occurs check (rational trees, union-find).  Only used to *name* the
    class of a disagreement ("would unify were it not for the occurs check"), never as the judge."""
    parent = {}
    bind = {}

    def find(v):
        while v in parent:
            v = parent[v]
        return v
    seen = set()
    todo = [(strip_quote(s), strip_quote(t))]
    fresh = [0]

    def deanon(u):
        if u[0] == '_':
            fresh[0] += 1
            return ('v', ('anon', fresh[0]))
        if u[0] == 'c':
            return ('c', u[1], tuple(deanon(a) for a in u[2]))
        return u
    todo = [(deanon(todo[0][0]), deanon(todo[0][1]))]
    while todo:
        a, b = todo.pop()
        if a[0] == 'v':
            a = ('v', find(a[1]))
            if a[1] in bind:
                a = bind[a[1]]
        if b[0] == 'v':
            b = ('v', find(b[1]))
            if b[1] in bind:
                b = bind[b[1]]
        if a == b:
            continue
        if a[0] == 'v' and b[0] == 'v':
            parent[a[1]] = b[1]
        elif a[0] == 'v':
            bind[a[1]] = b
        elif b[0] == 'v':
            bind[b[1]] = a
        else:
            if (id(a), id(b)) in seen:
                continue
            seen.add((id(a), id(b)))
            if a[0] != b[0] or a[:2] != b[:2] if a[0] == 'c' else a[:3] != b[:3]:
                return False
            if a[0] == 'c':
                if len(a[2]) != len(b[2]):
                    return False
                todo.extend(zip(a[2], b[2]))
    return True


def first_obstacle(s, t):
    """Robinson unification, equations taken left to right depth first (the order of ModelUnify.inner): returns
    None (unifiable), 'occurs' or 'clash' = the first obstacle met.  Only used to *name* a disagreement class
    ("the unification runs into the occurs check before any clash"), never as the judge."""
    fresh = [0]

    def deanon(u):
        if u[0] == '_':
            fresh[0] += 1
            return ('v', ('anon', fresh[0]))
        if u[0] == 'c':
            return ('c', u[1], tuple(deanon(a) for a in u[2]))
        return u[:3]

    def sub(u, x, r):
        if u[0] == 'v':
            return r if u[1] == x else u
        if u[0] == 'c':
            return ('c', u[1], tuple(sub(a, x, r) for a in u[2]))
        return u

    def occ(x, u):
        if u[0] == 'v':
            return u[1] == x
        return u[0] == 'c' and any(occ(x, a) for a in u[2])
    todo = [(deanon(strip_quote(s)), deanon(strip_quote(t)))]
    while todo:
        a, b = todo.pop(0)
        if a == b:
            continue
        if b[0] == 'v' and a[0] != 'v':
            a, b = b, a
        if a[0] == 'v':
            if occ(a[1], b):
                return 'occurs'
            todo = [(sub(l, a[1], b), sub(r, a[1], b)) for l, r in todo]
            continue
        if a[0] != b[0] or (a[0] == 'k' and a != b):
            return 'clash'
        if a[0] == 'c':
            if a[1] != b[1] or len(a[2]) != len(b[2]):
                return 'clash'
            todo = list(zip(a[2], b[2])) + todo
    return None


def occurs_check_case(s, t):
    """The pair has no unifier and the occurs check is what stands in the way: either it is the only obstacle (the pair
    unifies over rational trees) or it is the first obstacle Robinson's algorithm meets (a clash further on may depend
    on the cyclic binding)."""
    return rational_unifiable(s, t) or first_obstacle(s, t) == 'occurs'


def has_quoted(t):
    if t[0] == 'k':
        return len(t) > 3 and t[3]
    if t[0] == 'c':
        return any(has_quoted(a) for a in t[2])
    return False


def quoted_numeric(t):
    if t[0] == 'k':
        if len(t) > 3 and t[3]:
            try:
                float(t[2])
                return True
            except ValueError:
                return False
        return False
    if t[0] == 'c':
        return any(quoted_numeric(a) for a in t[2])
    return False


def instance_of(general, specific):
    """one-way matching: is `specific` an instance of `general` (both canon-free tuple terms)?"""
    m = {}

    def go(g, s):
        if g[0] == 'v':
            if g[1] in m:
                return m[g[1]] == s
            m[g[1]] = s
            return True
        if g[0] != s[0]:
            return False
        if g[0] == 'c':
            return g[1] == s[1] and len(g[2]) == len(s[2]) and all(go(x, y) for x, y in zip(g[2], s[2]))
        return g[:3] == s[:3]
    return go(general, specific)


def rename_apart(t, suffix="'"):
    if t[0] == 'v':
        return ('v', str(t[1]) + suffix)
    if t[0] == 'c':
        return ('c', t[1], tuple(rename_apart(a, suffix) for a in t[2]))
    return t


def numeric_atoms_as_numbers(t):
    if t[0] == 'k' and len(t) > 3 and t[3]:
        try:
            return ('k', 'i', int(t[2]))
        except ValueError:
            try:
                return ('k', 'f', float(t[2]))
            except ValueError:
                return t
    if t[0] == 'c':
        return ('c', t[1], tuple(numeric_atoms_as_numbers(a) for a in t[2]))
    return t


def repeated_var(t):
    seen = set()

    def go(u):
        if u[0] == 'v':
            if u[1] in seen:
                return True
            seen.add(u[1])
            return False
        if u[0] == 'c':
            return any([go(a) for a in u[2]])
        return False
    return go(t)


def count_vars(t, acc):
    if t[0] == 'v':
        acc[t[1]] = acc.get(t[1], 0) + 1
    elif t[0] == 'c':
        for a in t[2]:
            count_vars(a, acc)
    return acc


def call_var_faces_shared_head_var(call, head):
    """A variable that occurs at least twice in the call stands, at one of its occurrences, opposite a compound subterm
    of the clause head that contains a head variable occurring at least twice in the head.  (unify_call_head then records
    the binding of that head variable on the call side only, so a later clash with the same head variable goes unnoticed.)"""
    cv, hv = count_vars(call, {}), count_vars(head, {})

    def go(c, h):
        if c[0] == 'v':
            return cv.get(c[1], 0) >= 2 and h[0] == 'c' and any(hv.get(v, 0) >= 2 for v in tvars(h))
        if c[0] == 'c' and h[0] == 'c' and c[1] == h[1] and len(c[2]) == len(h[2]):
            return any(go(x, y) for x, y in zip(c[2], h[2]))
        return False
    return go(call, head)


def classify(mode, s, t, expected, observed):
    """Narrow class (input features + symptom) of a disagreement, or None.
    Classes:
      <door>-indirect-occurs-check-missed   no unifier, and the occurs check is the only obstacle (the pair unifies over
                                            rational trees) or the first one Robinson's algorithm meets; symptom: = / head call succeeds, \\= fails
      <door>-bindings-not-propagated        goal with a repeated variable; unifiable; symptom: exactly one answer that is strictly
                                            more general than the mgu instance (eq/head: goal asked at top level through
                                            engine.query; body: `w(Vars) :- S = T`, sharing between returned bindings is lost)
      indirect-occurs-check-unbounded-recursion   same input feature; symptom: RecursionError (not a ProbLogError) or no answer in 60 s
      head-repeated-variable-clash-missed   top-level call against a clause head; no unifier because of a clash; a repeated call variable
                                            stands opposite a compound head subterm holding a head variable that occurs again in the head
                                            (call_var_faces_shared_head_var); symptom: the call succeeds
      head-quoted-atom-not-matched          a quoted atom occurs; unifiable; symptom: the call against the clause head fails
      quoted-numeric-atom-equals-number     a quoted atom spelled like a number occurs and the pair would unify if that atom
                                            were the number; symptom: = / head call succeeds, \\= fails"""
    door = {'eq': 'eq', 'body': 'eq', 'neq': 'neq', 'call': 'head', 'callN': 'head'}[mode]
    if mode == 'callN':     # only the argument lists are matched; the two functors play no role
        s, t = C('ans', *s[2]), C('ans', *t[2])
    t_cls = rename_apart(t) if door == 'head' else t
    if observed[0] == 'err':
        unif = (expected is False) if mode == 'neq' else (expected is not None)
        if observed[1] in ('INTERNAL:RecursionError', 'Timeout') and not unif and occurs_check_case(s, t_cls):
            # e.g. Y = f(X), X = f(Y): unify_value follows the cyclic bindings for ever
            return "indirect-occurs-check-unbounded-recursion"
        return None
    obs = observed[1]
    if mode == 'neq':
        exp_ok, succeeded = (not expected), (not obs)     # in terms of the underlying unification
    else:
        exp_ok, succeeded = expected is not None, bool(obs)
    if not exp_ok and succeeded:
        if rational_unifiable(s, t_cls):
            return "%s-indirect-occurs-check-missed" % door
        if (quoted_numeric(s) or quoted_numeric(t)) and \
                rational_unifiable(numeric_atoms_as_numbers(s), numeric_atoms_as_numbers(t_cls)):
            return "quoted-numeric-atom-equals-number"
        if first_obstacle(s, t_cls) == 'occurs':
            return "%s-indirect-occurs-check-missed" % door
        if door == 'head' and call_var_faces_shared_head_var(s, t_cls):
            return "head-repeated-variable-clash-missed"
        return None
    if mode == 'neq':
        return None
    if exp_ok and not succeeded:
        if door == 'head' and (has_quoted(s) or has_quoted(t)):
            return "head-quoted-atom-not-matched"
        return None
    if exp_ok and len(obs) == 1 and obs[0] != expected:
        if instance_of(obs[0], expected) and repeated_var(C('x', s, t) if door == 'eq' else s):
            return "%s-bindings-not-propagated" % ('body' if mode == 'body' else door)
        return None
    return None




# ---------------------------------------------------------------------------- the implementation's own algorithm
# gen/c14_unify.py translates unify_value / _unify_call_head_single / unify_call_head of problog/engine_unify.py into
# coq/theories/C14/GenUnify.v on every run; PropsImpl.v proves the translated unify_value correct under the decidable
# guard `solved`; the translated functions are extracted and compared, input by input, with DIRECT calls of the real
# Python functions (returned value, final bindings dictionary / clause context, exception class).
def generate(ctx):
    text = c14_unify.generate(vf.REPO)
    ctx.generate("C14/GenUnify.v", text)
    return text


def optional_build(ctx, rel):
    """Compile a file (with its cone) outside ctx.prove; returns (ok, tail of output)."""
    vfile = os.path.join("theories", rel)
    with vf.BuildLock():
        cone = vf.coq_cone(vfile)
        mk = vf.refresh_makefile(cone, "." + ctx.prop + "x")
        rc, out = vf.sh(["make", "-f", mk, "-j4"] + [f[:-2] + ".vo" for f in cone], cwd=vf.COQ, timeout=900)
    return rc == 0, out[-800:]


IMPL_EXTRACT_V = """From Coq Require Import NArith ZArith List Extraction ExtrOcamlBasic.
Require Import PL.C14.GenUnify PL.C14.ModelImplUnify PL.C14.ModelUnify .
Extraction Language OCaml.
Set Extraction Output Directory ".".
Extraction "oracle.ml" unify_value unify_call_head solved sv_visible resolve.
"""

IMPL_DRIVER_ML = r"""
open Oracle
let rec pos_of_int n = if n = 1 then XH else if n land 1 = 1 then XI (pos_of_int (n lsr 1)) else XO (pos_of_int (n lsr 1))
let n_of_int n = if n = 0 then N0 else Npos (pos_of_int n)
let z_of_int n = if n = 0 then Z0 else if n > 0 then Zpos (pos_of_int n) else Zneg (pos_of_int (- n))
let rec int_of_pos = function XH -> 1 | XO p -> 2 * int_of_pos p | XI p -> 2 * int_of_pos p + 1
let int_of_n = function N0 -> 0 | Npos p -> int_of_pos p
let int_of_z = function Z0 -> 0 | Zpos p -> int_of_pos p | Zneg p -> - (int_of_pos p)
let rec nat_of_int n = if n = 0 then O else S (nat_of_int (n - 1))
let mksym k i = match k with "a" -> SAtom (n_of_int i) | "i" -> SInt (z_of_int i) | "f" -> SFlt (n_of_int i)
                           | "s" -> SStr (n_of_int i) | _ -> failwith "kind"
let rec parse toks = match toks with
  | "N" :: rest -> (PNone, rest)
  | "V" :: n :: rest -> (PVar (n_of_int (int_of_string n)), rest)
  | "A" :: k :: id :: nargs :: rest ->
      let (l, rest') = parse_n (int_of_string nargs) rest [] in
      (PTerm (mksym k (int_of_string id), l), rest')
  | _ -> failwith "parse"
and parse_n n toks acc = if n = 0 then (List.rev acc, toks) else
      let (a, toks') = parse toks in parse_n (n - 1) toks' (a :: acc)
let parse_list toks = match toks with
  | n :: rest -> parse_n (int_of_string n) rest []
  | _ -> failwith "list"
let showsym b f n = match f with
  | SAtom i -> Buffer.add_string b (Printf.sprintf "A a %d %d " (int_of_n i) n)
  | SInt z -> Buffer.add_string b (Printf.sprintf "A i %d %d " (int_of_z z) n)
  | SFlt i -> Buffer.add_string b (Printf.sprintf "A f %d %d " (int_of_n i) n)
  | SStr i -> Buffer.add_string b (Printf.sprintf "A s %d %d " (int_of_n i) n)
let rec show b v = match v with
  | PNone -> Buffer.add_string b "N "
  | PVar n -> Buffer.add_string b (Printf.sprintf "V %d " (int_of_n n))
  | PTerm (f, l) -> showsym b f (List.length l); List.iter (show b) l
let rec showt b t = match t with
  | TVar v -> Buffer.add_string b (Printf.sprintf "V %d " (int_of_n v))
  | TApp (f, l) -> showsym b f (List.length l); List.iter (showt b) l
let show_list b l = Buffer.add_string b (Printf.sprintf "%d " (List.length l)); List.iter (show b) l
let keycode k = match k with PVar n -> int_of_n n | _ -> -1
let show_store b sv =
  let vis = List.sort (fun (k1, _) (k2, _) -> compare (keycode k1) (keycode k2)) (sv_visible sv) in
  List.iter (fun (k, u) -> show b k; Buffer.add_string b ":= "; show b u; Buffer.add_string b "| ") vis
let exn_name = function UnifyError -> "UnifyError" | OccursCheck -> "OccursCheck" | AssertionError -> "AssertionError"
let fuel = nat_of_int 400
let () =
  try
    while true do
      let line = input_line stdin in
      let toks = List.filter (fun s -> s <> "") (String.split_on_char ' ' line) in
      let b = Buffer.create 256 in
      (match toks with
      | "uv" :: rest ->
          let (s, r1) = parse rest in let (t, _) = parse r1 in
          (match unify_value fuel s t [] with
           | Ret (r, h) ->
               Buffer.add_string b "R ; "; show b r; Buffer.add_string b "; "; show_store b h;
               if solved h then (Buffer.add_string b "; 1 ; "; showt b (resolve h r)) else Buffer.add_string b "; 0 ; -"
           | Raise e -> Buffer.add_string b ("X ; " ^ exn_name e)
           | OutOfFuel -> Buffer.add_string b "F")
      | "head" :: rest ->
          let (call, r1) = parse_list rest in let (head, r2) = parse_list r1 in let (tc, _) = parse_list r2 in
          (match unify_call_head fuel call head tc with
           | Ret (res, (tc', sv)) ->
               Buffer.add_string b "R ; "; show_list b res; Buffer.add_string b "; "; show_list b tc';
               Buffer.add_string b "; "; show_store b sv
           | Raise e -> Buffer.add_string b ("X ; " ^ exn_name e)
           | OutOfFuel -> Buffer.add_string b "F")
      | _ -> failwith "mode");
      print_string (Buffer.contents b ^ "\n")
    done
  with End_of_file -> ()
"""


def var_code(v):
    """Python engine variable (int) -> variable code of ModelImplUnify (PVar n)."""
    return 2 * (-v - 1) if v < 0 else 2 * v + 1


class ImplEnc:
    """Terms for the translated model.  A functor is identified by what `Term.signature` keeps of it
    (str(functor) without surrounding quotes): that is the only thing unify_value looks at."""

    def __init__(self):
        self.syms = {}
        self.rev = {}

    def sym(self, functor):
        key = str(functor).strip("'")
        if key not in self.syms:
            self.syms[key] = len(self.syms)
            self.rev[self.syms[key]] = key
        return self.syms[key]

    def toks(self, v, out):
        """a Python value as the engine sees it: None | int | Term"""
        if v is None:
            out.append("N")
        elif type(v) == int:
            out.append("V %d" % var_code(v))
        else:
            out.append("A a %d %d" % (self.sym(v.functor), len(v.args)))
            for a in v.args:
                self.toks(a, out)
        return out

    def text(self, v):
        return " ".join(self.toks(v, []))

    def list_text(self, l):
        return " ".join(["%d" % len(l)] + [self.text(x) for x in l])

    def dict_text(self, d):
        return " ".join("%s := %s |" % (self.text(k), self.text(d[k])) for k in sorted(d, key=var_code))

    def dec_term(self, toks, i=0):
        """model term (resolved instance) -> harness tuple form with signature-level constants"""
        if toks[i] == 'V':
            return ('v', int(toks[i + 1])), i + 2
        ident, n = int(toks[i + 2]), int(toks[i + 3])
        i += 4
        if n == 0:
            return ('k', 'a', self.rev[ident]), i
        args = []
        for _ in range(n):
            a, i = self.dec_term(toks, i)
            args.append(a)
        return ('c', self.rev[ident], tuple(args)), i


def sigview(t):
    """harness tuple term -> the same term with every constant replaced by its `signature` spelling"""
    if t[0] == 'k':
        if t[1] == 'a':
            return ('k', 'a', str(t[2]).strip("'"))
        if t[1] == 'i':
            return ('k', 'a', str(t[2]))
        if t[1] == 'f':
            return ('k', 'a', str(float(t[2])))
        if t[1] == 's':
            return ('k', 'a', '"%s"' % t[2])
        return t
    if t[0] == 'c':
        return ('c', t[1], tuple(sigview(a) for a in t[2]))
    return t


def py_term(t, vmap, head=False):
    """harness tuple term -> the value the engine hands to unify_value: variables are negative ints numbered by first
    occurrence (head=True: clause-head variables 0,1,2,...), `_` is None (in a head: a fresh head variable)."""
    from problog.logic import Term, Constant
    k = t[0]
    if k == 'v':
        if t[1] not in vmap:
            vmap[t[1]] = len(vmap) if head else -(len(vmap) + 1)
        return vmap[t[1]]
    if k == '_':
        if head:
            vmap[('anon', len(vmap))] = len(vmap)
            return len(vmap) - 1
        return None
    if k == 'k':
        if t[1] == 'a':
            return Term("'%s'" % t[2]) if (len(t) > 3 and t[3]) else Term(t[2])
        if t[1] == 'i':
            return Constant(t[2])
        if t[1] == 'f':
            return Constant(float(t[2]))
        return Constant('"%s"' % t[2])
    return Term(t[1], *[py_term(a, vmap, head) for a in t[2]])


def int_const_hits_var(vals):
    """Some integer Constant in the values has the number of an engine variable of the same call.  Python's
    Constant.__eq__ compares str(): `-2 == Constant(-2)` is True, so unify_value's `if value2 != value` skips the binding.
    The translated model keeps variables and constants apart (documented domain restriction of ModelImplUnify.v)."""
    from problog.logic import Constant
    ints, consts = set(), set()

    def go(v):
        if v is None:
            return
        if type(v) == int:
            ints.add(v)
        else:
            if isinstance(v, Constant) and type(v.functor) == int:
                consts.add(v.functor)
            for a in v.args:
                go(a)
    for v in vals:
        go(v)
    return bool(ints & consts)


def has_anon(t):
    return t[0] == '_' or (t[0] == 'c' and any(has_anon(a) for a in t[2]))


def call_direct(fn, *args):
    """-> ('R', value) | ('X', exception class name) | ('F',) for RecursionError"""
    try:
        return ('R', fn(*args))
    except RecursionError:
        return ('F',)
    except Exception as e:  # noqa
        return ('X', type(e).__name__)


def judge_direct(ctx, enc, exe, iexe, pairs, proved=True):
    """Direct route.  For every pair (s, t):
      uv    unify_value(s, t, {})                       vs  translated model (value, dictionary, exception)  and vs  mgu
      head  unify_call_head([s], [t'], [None]*k)         (and argument-spread when both are compound of equal arity)
            with t' = t read as a clause head            vs  translated model (result, context, dictionary)  and vs  call_fact
    iexe None: the translated model is not available (translator failed); only the judge against the reference runs."""
    from problog.engine_unify import unify_value, unify_call_head
    old_limit = sys.getrecursionlimit()
    sys.setrecursionlimit(1500)
    ienc = ImplEnc()
    reqs, ref_reqs, cases = [], [], []
    sig_reqs = []        # the theorems' reference: mgu of the two terms with constants identified as `signature` does
    for s, t in pairs:
        # ---- unify_value
        vmap = {}
        ps, pt = py_term(s, vmap), py_term(t, vmap)
        req = "uv %s %s" % (ienc.text(ps), ienc.text(pt))
        d = {}
        ob = call_direct(unify_value, ps, pt, d)
        if ob[0] == 'R':
            got = "R ; %s ; %s" % (ienc.text(ob[1]), ienc.dict_text(d))
        elif ob[0] == 'X':
            got = "X ; " + ob[1]
        else:
            got = "F"
        out = ["inst"]
        vm = {}
        c = [0]
        s2, t2 = named_anon(s, c), named_anon(t, c)
        enc.enc(strip_quote(s2), vm, out)
        enc.enc(strip_quote(t2), vm, out)
        enc.enc(strip_quote(s2), vm, out)
        cases.append(('uv', s, t, got, ob[0], int_const_hits_var([ps, pt])))
        reqs.append(req)
        ref_reqs.append(" ".join(out))
        out = ["inst"]
        vm = {}
        enc.enc(sigview(s2), vm, out)
        enc.enc(sigview(t2), vm, out)
        enc.enc(sigview(s2), vm, out)
        sig_reqs.append(" ".join(out))
        # ---- unify_call_head
        forms = [((s,), (t,))]
        if s[0] == 'c' and t[0] == 'c' and len(s[2]) == len(t[2]) and len(s[2]) > 1:
            forms.append((s[2], t[2]))
        for cargs, hargs in forms:
            vmc, vmh = {}, {}
            pc = [py_term(a, vmc) for a in cargs]
            ph = [py_term(a, vmh, head=True) for a in hargs]
            tc = [None] * len(vmh)
            req = "head %s %s %s" % (ienc.list_text(pc), ienc.list_text(ph), ienc.list_text(tc))
            hit = int_const_hits_var(pc + ph)
            ob = call_direct(unify_call_head, pc, ph, tc)
            if ob[0] == 'R':
                # the function's own dictionary is local: the model returns it, Python does not
                got = "R ; %s ; %s" % (ienc.list_text(ob[1]), ienc.list_text(tc))
            elif ob[0] == 'X':
                got = "X ; " + ob[1]
            else:
                got = "F"
            out = ["call"]
            enc.enc(strip_quote(C('ans', *[named_anon(a, [0]) if False else a for a in cargs])), {}, out)
            enc.enc(strip_quote(C('ans', *hargs)), {}, out)
            cases.append(('head', C('ans', *cargs), C('ans', *hargs), got, ob[0], hit))
            reqs.append(req)
            ref_reqs.append(" ".join(out))
            sig_reqs.append(" ".join(out))
    sys.setrecursionlimit(old_limit)
    model = ctx.oracle(iexe, reqs) if iexe else [None] * len(reqs)
    ref = ctx.oracle(exe, ref_reqs)
    sigref = ctx.oracle(exe, sig_reqs)

    def norm(x):
        return " ".join(x.split())
    for (kind, s, t, got, tag, hit), m, r, rq, r2 in zip(cases, model, ref, reqs, sigref):
        key = ("direct-" + kind, canon(C('x', strip_quote(s), strip_quote(t))))
        nontrivial = (s[0] == 'c' or t[0] == 'c') and bool(tvars(C('x', s, t)))
        ctx.case(key, nontrivial, sample={"mode": "direct-" + kind, "s": text(s), "t": text(t), "python": got, "model": m})
        ctx.count("mode_direct_" + kind)
        ctx.count("direct_%s_python_%s" % (kind, {'R': 'returns', 'X': 'raises_' + got.split(";")[-1].strip(), 'F': 'RecursionError'}[tag]))
        unif = r != 'N'
        # ---- (a) implementation vs reference (the property's judge; concrete violations)
        why = None
        if tag == 'R' and not unif:
            why = "returns a result although the terms have no unifier"
        elif tag == 'X' and unif:
            why = "raises %s although the terms are unifiable" % got.split(";")[-1].strip()
        elif tag == 'X' and got.split(";")[-1].strip() not in ('UnifyError', 'OccursCheck'):
            why = "raises %s" % got.split(";")[-1].strip()
        elif tag == 'F':
            why = "RecursionError (unbounded recursion)" + ("" if not unif else " although the terms are unifiable")
        if why:
            mode = 'neq' if kind == 'uv' else 'call'
            if tag == 'F':
                klass = classify(mode, s, t, True if mode == 'neq' else None, ('err', 'INTERNAL:RecursionError')) if not unif else None
            elif tag == 'R':
                klass = classify(mode, s, t, True if mode == 'neq' else None, ('ok', [] if mode == 'neq' else [('x',)]))
            else:
                klass = None
            if klass is None and hit:
                klass = "int-constant-equals-variable-number"
            ctx.count("direct_disagree_" + str(klass))
            seen = ctx.__dict__.setdefault("_c14_reported", {})
            seen[("direct", klass)] = seen.get(("direct", klass), 0) + 1
            if seen[("direct", klass)] <= (25 if klass is None else 2):
                what = ("direct call unify_value(%s, %s, {}): %s" if kind == 'uv' else
                        "direct call unify_call_head(call %s, head %s): %s") % (text(s), text(t), why)
                ctx.violation(what, {"mode": "direct-" + kind, "s": text(s), "t": text(t), "s_term": s, "t_term": t,
                                     "python": got, "model": m}, klass=klass)
        # ---- (b) implementation vs translated model (the tie)
        if m is None:
            continue
        mm = norm(m)
        if kind == 'uv':
            fields = [norm(x) for x in mm.split(";")]
            cmp_model = " ; ".join(fields[:3]) if fields[0] == 'R' else mm
            cmp_py = " ; ".join(norm(x) for x in got.split(";"))
        else:
            fields = [norm(x) for x in mm.split(";")]
            cmp_model = " ; ".join(fields[:3]) if fields[0] == 'R' else mm
            cmp_py = " ; ".join(norm(x) for x in got.split(";"))
        if cmp_model != cmp_py and hit:
            # outside the model's domain: an integer constant equal to a variable's number (see int_const_hits_var)
            ctx.count("direct_model_mismatch_int_constant_equals_variable_number")
            continue
        if hit:
            ctx.count("direct_int_constant_equals_variable_number_cases")
        if cmp_model != cmp_py:
            ctx.count("direct_model_mismatch")
            if sum(1 for b in ctx.broken if b.startswith("correspondence:direct")) < 5:
                ctx.broken.append("correspondence:direct %s on %s / %s: python `%s` model `%s` (request %s)"
                                  % (kind, text(s), text(t), cmp_py, cmp_model, rq))
            continue
        ctx.count("direct_model_agrees")
        if kind == 'uv' and fields[0] == 'R':
            solved = fields[3] == '1'
            ctx.count("direct_uv_dictionary_" + ("solved" if solved else "NOT_solved"))
            if has_anon(s) or has_anon(t) or not proved or hit:
                continue        # anonymous variables: outside the theorems' domain (nonone); theorems not proved for this source
            unif2 = r2 != 'N'         # unifiable when constants are identified the way `signature` identifies them
            if solved and not unif2:
                ctx.broken.append("correspondence:theorem C14_impl_solved_is_mgu contradicted by the reference on %s / %s" % (text(s), text(t)))
            if not solved and unif2:
                # not covered by a theorem: a solved-form test that rejects a correct run would make the guard too strong
                ctx.count("direct_uv_guard_rejects_correct_run")
                ctx.broken.append("correspondence:guard `solved` false on a unifiable pair %s / %s" % (text(s), text(t)))
            if solved and unif2:
                inst, _ = ienc.dec_term(fields[4].split())
                exp, _ = enc.dec(r2.split()[1:])
                if canon(inst) != canon(sigview(exp)):
                    ctx.count("direct_uv_resolved_instance_differs")
                    ctx.broken.append("correspondence:resolved dictionary of %s / %s gives %s, mgu instance %s"
                                      % (text(s), text(t), text_canon(canon(inst)), text_canon(canon(sigview(exp)))))
                else:
                    ctx.count("direct_uv_resolved_instance_is_mgu_instance")
                    if fields[1] != " ".join(ienc.text(None).split()) and canon(inst) != canon(sigview_dec(ienc, fields[1])):
                        ctx.count("direct_uv_returned_value_unresolved")


def sigview_dec(ienc, toks_text):
    """returned value (pval tokens without None) as a harness tuple term"""
    toks = toks_text.split()
    if 'N' in toks:
        return ('k', 'a', '<contains None>')
    t, _ = ienc.dec_term(toks)
    return t


# ---------------------------------------------------------------------------- the check
def judge(ctx, enc, exe, cases):
    """cases: list of (mode, s, t).  Runs oracle + engine, reports."""
    # oracle requests
    reqs = []
    for mode, s, t in cases:
        vmap = {}
        out = []
        if mode == 'neq':
            out.append("neq")
            enc.enc(strip_quote(s), vmap, out)
            enc.enc(strip_quote(t), vmap, out)
        elif mode in ('call', 'callN'):
            # separate variable scopes: the model renames the head apart itself, so both may use the same ids
            out.append("call")
            enc.enc(strip_quote(s) if mode == 'call' else strip_quote(C('ans', *s[2])), vmap, out)
            vmap2 = {}
            enc.enc(strip_quote(t) if mode == 'call' else strip_quote(C('ans', *t[2])), vmap2, out)
        else:
            out.append("inst")
            enc.enc(strip_quote(s), vmap, out)
            enc.enc(strip_quote(t), vmap, out)
            if mode == 'eq':
                u = C('ans', s, t)
            else:
                vs = tvars(C('x', s, t))
                u = C('ans', *[V(v) for v in vs]) if vs else C('ans', A('x'))
            # the third term must reuse the same variable numbering, including anonymous ones: re-encode with
            # a fresh anonymous counter is wrong, so anonymous variables are replaced by named ones beforehand
            enc.enc(strip_quote(u), vmap, out)
        reqs.append(" ".join(out))
    answers = ctx.oracle(exe, reqs)
    expected = []
    for (mode, s, t), a in zip(cases, answers):
        if mode == 'neq':
            expected.append(a == 'T')
        elif a == 'N':
            expected.append(None)
        else:
            term, _ = enc.dec(a.split()[1:])
            if mode == 'call':
                term = C('ans', term)
            expected.append(canon(term))
    # engine
    B = 400
    batches = [cases[i:i + B] for i in range(0, len(cases), B)]
    obs = []
    for r in pl.pmap(run_batch, batches, jobs=ctx.n(8, 14), chunksize=1):
        obs.extend(r)
    nbad = 0
    # reference-free contradiction: on one and the same pair `=` and `\=` must not both fail, nor both succeed
    # (`=` observed at top level and inside a clause body)
    by_pair = {}
    for (mode, s, t), ob in zip(cases, obs):
        if mode in ('eq', 'body', 'neq') and ob[0] == 'ok':
            by_pair.setdefault((s, t), {})[mode] = bool(ob[1])
    for (s, t), r in by_pair.items():
        if 'neq' not in r:
            continue
        for m in ('eq', 'body'):
            if m in r and r[m] == r['neq']:
                ctx.count("eq_neq_contradictions")
                nbad += 1
                # only a pair with a real occurs-check obstacle may fall under the known \= class
                klass = "neq-indirect-occurs-check-missed" if (not r['neq'] and occurs_check_case(s, t)) else None
                ctx.count("contradiction_" + str(klass))
                seen = ctx.__dict__.setdefault("_c14_reported", {})
                seen[("contra", klass)] = seen.get(("contra", klass), 0) + 1
                if seen[("contra", klass)] > (25 if klass is None else 2):
                    continue
                ctx.violation("%s = %s (%s) and %s \\= %s both %s" % (text(s), text(t), "top level" if m == 'eq' else "in a clause body",
                                                                     text(s), text(t), "succeed" if r['neq'] else "fail"),
                              {"mode": "contradiction-" + m, "s": text(s), "t": text(t), "s_term": s, "t_term": t}, klass=klass)
    for (mode, s, t), exp, ob in zip(cases, expected, obs):
        key = (mode, canon(C('x', strip_quote(s), strip_quote(t))))
        if mode == 'neq':
            unif = not exp
        else:
            unif = exp is not None
        nontrivial = (s[0] == 'c' or t[0] == 'c') and bool(tvars(C('x', s, t)))
        ctx.case(key, nontrivial, sample={"mode": mode, "s": text(s), "t": text(t),
                                          "expected": None if exp is None else (exp if mode == 'neq' else text_canon(exp)),
                                          "observed": show_obs(ob)})
        ctx.count("mode_" + mode)
        ctx.count("unifiable" if unif else "not_unifiable")
        if not unif and rational_unifiable(s, t):
            ctx.count("occurs_check_cases")
        ok = True
        why = ""
        if ob[0] == 'err':
            ctx.count("engine_error_" + ob[1])
            # an occurs-check situation may raise a ProbLog error instead of failing, never otherwise
            if unif:
                ok, why = False, "raised %s although the terms are unifiable" % ob[1]
            elif ob[1] == 'OccursCheck':
                ok = True     # not unifiable, and the engine says "infinite unification": allowed by the property
                if not rational_unifiable(s, t):
                    ctx.count("occurs_check_error_on_pair_that_also_clashes")
            else:
                ok, why = False, "raised %s on a non-unifiable pair" % ob[1]
        elif mode == 'neq':
            if exp and len(ob[1]) != 1:
                ok, why = False, "\\= failed although the terms have no unifier"
            if not exp and ob[1]:
                ok, why = False, "\\= succeeded although the terms are unifiable"
        else:
            if exp is None and ob[1]:
                ok, why = False, "succeeded with %s although the terms have no unifier" % show_obs(ob)
            elif exp is not None and not ob[1]:
                ok, why = False, "failed although an mgu exists (expected instance %s)" % text_canon(exp)
            elif exp is not None and len(ob[1]) != 1:
                ok, why = False, "returned %d answers for one unification" % len(ob[1])
            elif exp is not None and ob[1][0] != exp:
                ok, why = False, "answer %s is not a variant of the mgu instance %s" % (show_obs(ob), text_canon(exp))
        if not ok:
            nbad += 1
            klass = classify(mode, s, t, exp, ob)
            ctx.count("disagree_" + str(klass))
            seen = ctx.__dict__.setdefault("_c14_reported", {})
            seen[klass] = seen.get(klass, 0) + 1
            if seen[klass] > (25 if klass is None else 4):
                continue            # counted in the histogram; replay files only for the first few of a class
            goal = {"eq": "%s = %s", "neq": "%s \\= %s", "call": "fact p(%s) called as p(%s)" if False else "call p(%s) against fact p(%s)",
                    "callN": "call %s against fact %s", "body": "w(Vars) :- %s = %s"}[mode] % (text(s), text(t))
            ctx.violation("%s: %s" % (goal, why),
                          {"mode": mode, "s": text(s), "t": text(t), "s_term": s, "t_term": t,
                           "expected": None if exp is None else (exp if mode == 'neq' else text_canon(exp)),
                           "observed": show_obs(ob)}, klass=klass)
    return nbad


def text_canon(t):
    def ren(u):
        if u[0] == 'v':
            return ('v', "_G%s" % u[1])
        if u[0] == 'c':
            return ('c', u[1], tuple(ren(a) for a in u[2]))
        return u
    return text(ren(t))


def show_obs(ob):
    if ob[0] == 'err':
        return "error:" + ob[1]
    return [text_canon(a) for a in ob[1]]


def named_anon(t, counter):
    """anonymous variables become fresh named ones `_Ak` is not valid Prolog; keep `_` in the text but give the
    model distinct variables: done in Enc.  For modes that reuse variables in a third term (eq/body) we must not
    contain `_` at all."""
    if t[0] == '_':
        counter[0] += 1
        return V("A%d" % counter[0])
    if t[0] == 'c':
        return ('c', t[1], tuple(named_anon(a, counter) for a in t[2]))
    return t


def make_cases(pairs, modes):
    """`_` stays anonymous only inside program text (facts); goals handed to engine.query() get named
    variables instead, because that API identifies all Var('_') of a goal by name."""
    cases = []
    for s, t in pairs:
        for m in modes:
            c = [0]
            s2 = named_anon(s, c)
            t2 = t if m in ('call', 'callN') else named_anon(t, c)
            if m == 'callN':
                if not (s[0] == 'c' and t[0] == 'c'):
                    continue
            cases.append((m, s2, t2))
    return cases


def run(ctx):
    ctx.cov["rule"] = ("(1) all ordered pairs of terms of size<=3 (thorough: also a random half of all pairs of size <=4) over f/1, g/2, list cells and leaves {a,b,1,X,Y,Z} "
                       "plus sampled pairs of size<=3 over a larger leaf set (quoted atoms, negative/multi-digit ints, floats, strings, [], _), each through =, \\=, fact call, "
                       "argument-spread fact call and body-= with returned bindings; (2) random pairs of depth<=4 with up to 6 "
                       "shared variables, half of them mutations of one another so that about half are unifiable. "
                       "Every pair additionally goes DIRECTLY into engine_unify.unify_value(s, t, {}) and unify_call_head([s],[t'],ctx) "
                       "(and argument-spread) and into the translated Gallina functions: returned value, final dictionary / context and "
                       "exception class must be identical; the direct results are also judged against mgu / call_fact. "
                       "A case is non-trivial when a side is compound and a variable occurs; distinct = (door, pair up to renaming)")
    ctx.assumptions += [
        "translated model: engine variables are ints (negative = calling context, >= 0 = clause-head slots), None = anonymous/unbound; "
        "a functor is identified by what Term.signature keeps of it; RecursionError = recursion depth exhausted (model fuel 400, Python limit 1500); "
        "theorems about unify_value hold for values without None inside (nonone)",
        "the Python glue renders model terms as ProbLog text and reads engine answers back faithfully",
        "atoms are identified after removing quotes ('a' is a), numbers by value, int 1 and float 1.0 and atom '1' are different constants (ISO)",
        "an engine error is acceptable only as OccursCheck (a GroundingError, hence a ProbLogError) on a pair that has no unifier; "
        "this includes pairs that also clash elsewhere, and it is accepted for \\= as well as for = (the property lets an "
        "occurs-check situation raise instead of fail)",
    ]
    ok = ctx.prove("C14/Props.v")
    if ctx.tier == "thorough":
        ctx.coqchk("PL.C14.Props")
    # ---- the implementation's algorithm: translator (fail-closed) -> GenUnify.v -> PropsImpl.v.  A source the translator
    # does not understand, or one for which the proofs no longer go through, is a broken obligation, NOT the end of the
    # check: the engine routes and the direct judge below still look for the concrete failing input.
    model_ok = True
    try:
        generate(ctx)
    except Exception as e:  # noqa  (TranslateError, SyntaxError, OSError ...)
        model_ok = False
        ctx.broken.append("translator:gen/c14_unify.py cannot translate engine_unify.py (%s: %s)" % (type(e).__name__, str(e)[:300]))
        ctx.notes.append("translator failed: %s: %s" % (type(e).__name__, e))
        ctx.log("translator failed: %s" % str(e)[:200])
    iexe = None
    impl_proved = False
    if model_ok:
        try:
            impl_proved = bool(ctx.prove("C14/PropsImpl.v"))
        except Exception as e:  # noqa
            ctx.broken.append("proof-cone:C14/PropsImpl.v (%s: %s)" % (type(e).__name__, str(e)[:300]))
        if ctx.tier == "thorough" and not ctx.broken:
            ctx.coqchk("PL.C14.PropsImpl")
        ctx.log("Props.v + PropsImpl.v: %d/%d" % (ctx.cov["discharged"], ctx.cov["obligations"]))
        try:
            okm, tail = optional_build(ctx, "C14/GenUnify.v")      # the model must run even when a proof broke
            if okm:
                iexe = ctx.ocaml_oracle("c14impl", IMPL_EXTRACT_V, IMPL_DRIVER_ML)
            else:
                ctx.broken.append("model:C14/GenUnify.v does not compile")
                ctx.notes.append(tail)
        except Exception as e:  # noqa
            ctx.broken.append("model:C14/GenUnify.v oracle (%s: %s)" % (type(e).__name__, str(e)[:300]))
        # Findings.v: the known defect classes reproduced on the translated code by vm_compute.  Outside the cone of
        # the Props files; when it stops compiling a finding is gone (recorded, never a violation).
        try:
            okf, tail = optional_build(ctx, "C14/Findings.v")
            ctx.cov["findings_files"] = {"C14/Findings.v": "compiles (known findings reproduced on the translated code)" if okf
                                         else "does not compile (a known finding no longer reproduces on the translated code)"}
        except Exception as e:  # noqa
            ctx.cov["findings_files"] = {"C14/Findings.v": "not built: %s" % str(e)[:200]}
    else:
        try:
            with open(os.path.join(vf.THEORIES, "C14", "PropsImpl.v")) as f:
                import re
                ctx.cov["obligations"] += len(re.findall(r"^\s*(?:Theorem|Corollary)\s", vf.strip_coq_comments(f.read()), re.M))
        except OSError:
            pass
    exe = ctx.ocaml_oracle("c14", EXTRACT_V, DRIVER_ML)
    enc = Enc()
    modes = ['eq', 'neq', 'call', 'callN', 'body']
    if ctx.replay and ctx.replay.get("replay", {}).get("s_term"):
        r = ctx.replay["replay"]

        def tup(x):
            return tuple(tup(y) for y in x) if isinstance(x, list) else x
        if str(r["mode"]).startswith("direct"):
            judge_direct(ctx, enc, exe, iexe, [(tup(r["s_term"]), tup(r["t_term"]))] if r["mode"] == "direct-uv" else
                         [(tup(r["s_term"])[2][0], tup(r["t_term"])[2][0])] if len(tup(r["s_term"])[2]) == 1 else
                         [(tup(r["s_term"]), tup(r["t_term"]))], impl_proved)
        else:
            judge(ctx, enc, exe, [(r["mode"], tup(r["s_term"]), tup(r["t_term"]))])
        return
    # (0) regression corpus: hand-picked witnesses of each class
    import json

    def tup(x):
        return tuple(tup(y) for y in x) if isinstance(x, list) else x
    with open(os.path.join(vf.CORPUS, "C14", "seeds.json")) as f:
        seeds = [(tup(a), tup(b)) for a, b in json.load(f)["pairs"]]
    judge(ctx, enc, exe, make_cases(seeds, modes))
    judge_direct(ctx, enc, exe, iexe, seeds, impl_proved)
    # recorded probe (not judged here, see notes/C14.md "int-constant-equals-variable-number"): t(X,X,Z) = t(-2,Z,a)
    try:
        from problog.engine_unify import unify_value as _uv
        from problog.logic import Term as _T, Constant as _C
        _d = {}
        _r = call_direct(_uv, _T('t', -1, -1, -2), _T('t', _C(-2), -2, _T('a')), _d)
        ctx.cov["probe_int_constant_equals_variable_number"] = {
            "call": "unify_value(t(V-1,V-1,V-2), t(-2,V-2,a), {})  [no unifier: V-1 = -2, V-2 = V-1, V-2 = a]",
            "observed": str(_r), "dictionary": str(_d)}
    except Exception as e:  # noqa
        ctx.cov["probe_int_constant_equals_variable_number"] = {"error": str(e)[:200]}
    # (1) bounded exhaustive
    if ctx.tier == "thorough":
        ts = terms_by_size(LEAVES_SMALL, 4)       # 312 terms -> 97 344 ordered pairs, a fixed-seed half of them
        pairs = [(s, t) for s in ts for t in ts if ctx.rng.random() < 0.5]
        ts3 = terms_by_size(LEAVES_SMALL, 3)
        pairs += [(s, t) for s in ts3 for t in ts3]
        ts_extra = terms_by_size(LEAVES_MED, 3)
        pairs += [(ctx.rng.choice(ts_extra), ctx.rng.choice(ts_extra)) for _ in range(15000)]
    else:
        ts = terms_by_size(LEAVES_SMALL, 3)       # 90 terms -> 8 100 ordered pairs
        pairs = [(s, t) for s in ts for t in ts]
        ts2 = terms_by_size(LEAVES_MED, 3)
        pairs += [(ctx.rng.choice(ts2), ctx.rng.choice(ts2)) for _ in range(1500)]
    ctx.cov["exhaustive_pairs"] = len(pairs)
    judge(ctx, enc, exe, make_cases(pairs, modes))
    judge_direct(ctx, enc, exe, iexe, pairs, impl_proved)
    # (1b) aliasing family: flat argument vectors with variables repeated on both sides
    ap = alias_pairs_exhaustive() + [alias_pair_random(ctx.rng) for _ in range(ctx.n(2500, 30000))]
    ctx.cov["alias_pairs"] = len(ap)
    judge(ctx, enc, exe, make_cases(ap, modes))
    judge_direct(ctx, enc, exe, iexe, ap, impl_proved)
    # (2) random larger pairs
    nrand = ctx.n(2500, 40000)
    rp = [rand_pair(ctx.rng, LEAVES_MED) for _ in range(nrand)]
    ctx.cov["random_pairs"] = len(rp)
    judge(ctx, enc, exe, make_cases(rp, modes))
    judge_direct(ctx, enc, exe, iexe, rp, impl_proved)
