"""C19 — findall/all in probabilistic programs follow the possible-world semantics."""
import itertools
import os
import sys
from fractions import Fraction

import vf
import pl

sys.path.insert(0, os.path.join(vf.VERIF, "gen"))
import c19_findall as cf  # noqa: E402
import c19_select_sublist as css  # noqa: E402
import c19_copynode_diff as ccn  # noqa: E402

META = {
    "id": "C19",
    "level": "proof",
    "technique": "Coq proofs over hand models of the findall machinery: _select_sublist partitions the truth assignments; enumerate_branches is a DNF of the node on every acyclic formula under every supported valuation and on every (cyclic) formula under every least/stable model (no empty branch; multiplicity = number of branches on acyclic formulas); the findall/3 and all/3 builtins (collection, stable sort by the max-node heuristic, _select_sublist, add_and, dropping FALSE nodes / the empty list) yield lists of which exactly one holds per assignment = the true proofs in the model's order. Models tied to the real code by differential runs on recorded builtin calls; findall/all programs judged against a possible-world enumerator",
    "design_ref": "DESIGN.md §5 C19",
    "text": "Unbounded theorems (any list, any assignment) on the Gallina model of _select_sublist: existence+uniqueness of the satisfied entry and equality of its sublist with the ordered list of true solutions. "
            "The model is compared with the real generator on random (term,node) lists (exact output incl. enumeration order). "
            "The real findall/all builtins are recorded on generated programs (findall_target dump, results, enumerate_branches outputs, list given to _select_sublist, outputs) and compared with ModelBranches (eb, mult, all_proofs+sort_mx, findall_model, all_out); the hypotheses of C19_findall_lists_partition (copy_node/add_and keys have the value of the conjunction) and its conclusion are judged on the real data by exhaustive assignments. "
            "Whole findall/3, all/3 programs are judged against exhaustive world enumeration done in the harness (exact rationals)."
            " The rest of the findall machinery is modelled too (enumerate_branches, get_node_multiplicity, the max-node ordering, findall/all output lists): branches are equivalent to the node (acyclic graphs, and cyclic graphs under any stable model), and the result lists partition the assignments in the explicit sort_mx order; tied by recording the real builtins' calls.",
    "note": "Trusted: Coq kernel+vm_compute; _select_sublist and BaseFormula.negate are TRANSLATED from the source on every run (gen/c19_select_sublist.py, fail-closed; readings of the Python constructs in SelectPrelude.v) and the translation is proved equal to the hand model (C19_generated_is_model), both also sampled against the real generator; the harness world enumerator for propositional findall programs; "
            "hand model of enumerate_branches/get_node_multiplicity/_builtin_findall_base/_builtin_all (sampled correspondence on recorded calls); target node numbering abstracted (pn, cn) under the builder-correctness hypothesis checked per call in Props.v, concrete in PropsExtra.v: hand model of copy_node + add_and threaded through the real target (ModelCopyNode.findall_concrete, on the C09 builder model), tied on every recorded findall/3 call without AD atoms by structural equality of the final target node list and the outputs; "
            "solution ORDER: the model fixes 'stable sort by mx'; that this is Prolog order is NOT proved (known findings).",
}

HEADER = """From Coq Require Import ZArith NArith List Bool.
From PL.C19 Require Import ModelSelectSublist.
Import ListNotations.
Definition keq (a b : key) : bool := match a, b with None, None => true | Some x, Some y => Z.eqb x y | _, _ => false end.
Fixpoint leq {A} (e : A -> A -> bool) (x y : list A) : bool :=
  match x, y with [], [] => true | a :: x', b :: y' => e a b && leq e x' y' | _, _ => false end.
Definition eeq (a b : list Z * list key) : bool := leq Z.eqb (fst a) (fst b) && leq keq (snd a) (snd b).
"""


def generate(ctx):
    """Regenerate coq/theories/C19/GenSelectSublist.v from vf.REPO (fail-closed translator).  On a
    translator failure a stub without definitions is written first, so that the theorems about the
    generated model cannot be discharged against a stale file; then the error is re-raised."""
    try:
        text = css.translate(vf.REPO)
    except Exception as e:
        ctx.generate("C19/GenSelectSublist.v", css.stub("%s: %s" % (type(e).__name__, e)))
        raise
    ctx.generate("C19/GenSelectSublist.v", text)


HEADER_GEN = """From PL.C19 Require Import SelectPrelude GenSelectSublist.
"""


class FakeTarget:
    TRUE = 0
    FALSE = None

    def negate(self, k):
        if k is None:
            return 0
        if k == 0:
            return None
        return -k


def coq_key(k):
    return "None" if k is None else "(Some %s)" % vf.coq_Z(k)


def spec_entries(lst):
    """Property-level reference: for every assignment to the distinct non-constant
    node ids there must be exactly one entry whose constraints hold, and its terms
    are the true solutions in order."""
    ids = sorted({abs(k) for _, k in lst if k not in (0, None)})
    return ids


def val(assign, k):
    if k is None:
        return False
    if k == 0:
        return True
    return assign[k] if k > 0 else not assign[-k]


def run_select_sublist(ctx):
    from problog.engine_builtin import _select_sublist
    from problog.formula import LogicFormula
    real_target = LogicFormula()     # its TRUE / FALSE / negate are the BaseFormula members the translator reads
    n = ctx.n(300, 6000)
    cases, metas = [], []
    for _ in range(n):
        ln = ctx.rng.choice([0, 1, 2, 3, 4, 5, 6])
        lst = []
        for i in range(ln):
            r = ctx.rng.random()
            if r < 0.15:
                k = 0
            elif r < 0.25:
                k = None
            else:
                k = ctx.rng.choice([1, 2, 3, 4, 5]) * ctx.rng.choice([1, 1, -1])
            lst.append((ctx.rng.randrange(1, 4), k))
        try:
            out = [(list(t), list(ns)) for t, ns in _select_sublist(lst, real_target)]
        except Exception as e:
            ctx.violation("_select_sublist raised %r on %r" % (e, lst), {"lst": lst}, klass=None)
            continue
        ids = spec_entries(lst)
        nontrivial = len(ids) >= 2 and len(lst) > len(ids)
        ctx.case(("ss", tuple(lst)), nontrivial, sample={"lst": lst, "entries": out[:4]})
        ctx.count("select_sublist_len_%d" % ln)
        # judge: partition property, by exhaustive assignments
        for bits in itertools.product([False, True], repeat=len(ids)):
            a = dict(zip(ids, bits))
            sat = [t for t, ns in out if all(val(a, k) for k in ns)]
            want = [t for t, k in lst if val(a, k)]
            if len(sat) != 1 or sat[0] != want:
                ctx.violation("_select_sublist(%r): under assignment %r the satisfied entries are %r, expected exactly [%r]"
                              % (lst, a, sat, want), {"lst": lst, "assignment": {str(k): v for k, v in a.items()}, "entries": out},
                              klass=None)
                break
        coq_lst = vf.coq_list(["(%s, %s)" % (vf.coq_Z(t), coq_key(k)) for t, k in lst])
        coq_out = vf.coq_list(["(%s, %s)" % (vf.coq_list([vf.coq_Z(t) for t in ts]), vf.coq_list([coq_key(k) for k in ns])) for ts, ns in out])
        cases.append("leq eeq (select_sublist %s) %s" % (coq_lst, coq_out))
        metas.append(lst)
    try:
        bad = ctx.coq_failing(HEADER, cases, name="ss")
    except RuntimeError as e:
        ctx.broken.append("correspondence:ModelSelectSublist does not evaluate")
        ctx.notes.append(str(e))
        return
    ctx.cov["select_sublist_model_vs_impl_agree"] = len(cases) - len(bad)
    for i in bad[:5]:
        ctx.broken.append("correspondence:ModelSelectSublist.select_sublist vs engine_builtin._select_sublist on %r" % (metas[i],))
    # the GENERATED definition (translator output) against the same observed outputs: validates the translator's
    # reading of the Python constructs (SelectPrelude.v) independently of the equality proof in ProofsGen.v
    try:
        bad = ctx.coq_failing(HEADER + HEADER_GEN, [c.replace("(select_sublist ", "(select_sublist_gen ", 1) for c in cases], name="ssg")
    except RuntimeError as e:
        ctx.broken.append("correspondence:GenSelectSublist does not evaluate")
        ctx.notes.append(str(e)[-1500:])
        return
    ctx.cov["select_sublist_generated_vs_impl_agree"] = len(cases) - len(bad)
    for i in bad[:5]:
        ctx.broken.append("correspondence:GenSelectSublist.select_sublist_gen vs engine_builtin._select_sublist on %r" % (metas[i],))


# ------------------------------------------------------------------ whole programs
def gen_findall_program(rng):
    """Propositional-domain program: probabilistic facts / one AD / a derived
    predicate p/1 with clauses in a fixed order; query findall or all over p/1."""
    nf = rng.randint(1, 4)
    probs = [Fraction(rng.randint(1, 9), 10) for _ in range(nf)]
    lines = ["%s::f%d." % (float(p), i) for i, p in enumerate(probs)]
    clauses = []
    for _ in range(rng.randint(1, 5)):
        val_ = rng.choice(["a", "b", "c"])
        body = sorted(rng.sample(range(nf), rng.randint(0, min(2, nf))))
        neg = [rng.random() < 0.25 for _ in body]
        clauses.append((val_, list(zip(body, neg))))
    for v, body in clauses:
        if body:
            lines.append("p(%s) :- %s." % (v, ", ".join(("\\+f%d" % i) if ng else ("f%d" % i) for i, ng in body)))
        else:
            lines.append("p(%s)." % v)
    kind = rng.choice(["findall", "all"])
    lines.append("q(L) :- %s(X, p(X), L)." % kind)
    lines.append("query(q(_)).")
    return "\n".join(lines), probs, clauses, kind


def spec_findall(probs, clauses, kind):
    """World enumeration: list of solutions of p(X) in Prolog order (clause order,
    duplicates kept)."""
    dist = {}
    for bits in itertools.product([False, True], repeat=len(probs)):
        w = Fraction(1)
        for b, p in zip(bits, probs):
            w *= p if b else (1 - p)
        sol = [v for v, body in clauses if all(bits[i] != ng for i, ng in body)]
        if kind == "all":
            # all/3 = YAP all/3: duplicates eliminated (docs/source/modeling_basic.rst), empty list excluded
            sol = [v for i, v in enumerate(sol) if v not in sol[:i]]
            if not sol:
                continue
        key = "q([%s])" % ",".join(sol)
        dist[key] = dist.get(key, Fraction(0)) + w
    return {k: v for k, v in dist.items() if v != 0}


def _eval(src):
    return pl.evaluate(src, timeout=30)


def run_programs(ctx):
    n = ctx.n(120, 3000)
    progs = [gen_findall_program(ctx.rng) for _ in range(n)]
    results = pl.pmap(_eval, [p[0] for p in progs], jobs=8)
    for (src, probs, clauses, kind), res in zip(progs, results):
        want = spec_findall(probs, clauses, kind)
        nontrivial = len(want) >= 3
        ctx.case(("prog", src), nontrivial, sample={"program": src, "expected": {k: str(v) for k, v in want.items()}})
        ctx.count("prog_" + kind)
        if res[0] == "err":
            if res[1] == "Timeout":
                ctx.count("prog_timeout")
                continue
            ctx.violation("findall program raised %s:\n%s" % (res[1], src), {"program": src, "error": res[1]}, klass=None)
            continue
        got = {k.replace(" ", ""): v for k, v in res[1].items() if abs(v) > 1e-12}
        wantf = {k: float(v) for k, v in want.items()}
        if close(got, wantf):
            ctx.count("prog_exact_agreement")
            continue
        # symptom classes (narrow): same distribution once element ORDER is ignored /
        # once repeated solutions of the same answer are merged as well
        if close(canon(got, sorted), canon(wantf, sorted)):
            klass = "findall-result-order-not-clause-order"
        elif close(canon(got, lambda l: sorted(set(l))), canon(wantf, lambda l: sorted(set(l)))):
            klass = "findall-duplicate-proofs-of-same-answer-merged"
        else:
            klass = None
        ctx.violation("findall/all result lists differ from the possible-world semantics (Prolog order, duplicates kept):\n%s\n got %r\n want %r"
                      % (src, got, wantf),
                      {"program": src, "got": got, "want": {k: str(v) for k, v in want.items()}}, klass=klass)


# ------------------------------------------------------------------ the findall machinery on recorded calls
HEADER2 = HEADER + """From PL.C09 Require Import BoolGraph.
From PL.C19 Require Import ModelBranches.
Definition beq (a b : Z * list Z) : bool := Z.eqb (fst a) (fst b) && leq Z.eqb (snd a) (snd b).
Definition obeq (x : option (list (Z * list Z))) (y : list (Z * list Z)) : bool :=
  match x with Some l => leq beq l y | None => false end.
Definition peq (a b : Z * Z * list Z) : bool :=
  Z.eqb (fst (fst a)) (fst (fst b)) && Z.eqb (snd (fst a)) (snd (fst b)) && leq Z.eqb (snd a) (snd b).
Definition tbl_pn (t : list (list Z * key)) (b : list Z) : key :=
  match find (fun e => leq Z.eqb (fst e) b) t with Some e => snd e | None => None end.
Definition tbl_cn (t : list (list key * key)) (ks : list key) : key :=
  match find (fun e => leq keq (fst e) ks) t with Some e => snd e | None => None end.
Definition oeq (a b : list Z * key) : bool := leq Z.eqb (fst a) (fst b) && keq (snd a) (snd b).
Definition omeq (x : option nat) (m : nat) : bool := match x with Some k => Nat.eqb k m | None => false end.
"""


def _capture(src):
    return cf.capture(src, timeout=30)


def _capture_cn(src):
    # cf.capture + the length of the real target before/after every findall/3 call (tie of ModelCopyNode)
    return ccn.capture(src, timeout=30)


def coq_graph(nodes):
    out = []
    for i, n in enumerate(nodes):
        if n[0] == "atom":
            out.append("NAtom %s" % vf.coq_N(i))
        else:
            if any(c is None for c in n[1]):
                raise ValueError("FALSE child in a node")
            out.append("%s %s" % ("NAnd" if n[0] == "conj" else "NOr", vf.coq_list([vf.coq_Z(c) for c in n[1]])))
    return vf.coq_list(out)


def coq_zl(l):
    return vf.coq_list([vf.coq_Z(x) for x in l])


def list_str(terms):
    return "[" + ", ".join(terms) + "]"


def judge_call(ctx, src, ci, c, cases, metas, defs):
    """Judge one recorded builtin call against the property-level reading and emit the
    Coq comparison terms.  Returns False when the call was skipped."""
    kind = c["kind"]
    rep = {"program": src, "call": ci, "kind": kind}
    if "results" not in c or "lst" not in c or "entries" not in c:
        ctx.count("call_incomplete_record")
        return False
    results, lst, entries, out, cn = c["results"], c["lst"], c["entries"], c["out"], c["cn"]
    tgt, sg = c["target"], c["src"]
    codes = {t: i for i, t in enumerate(sorted({t for t, _ in results}))}
    if len(lst) > 7:
        ctx.count("call_skipped_more_than_7_proofs")
        return False
    src_acyclic = cf.is_acyclic(sg)
    try:   # least-model reading of both formulas must exist (no negation through a cycle)
        cf.evaluator(tgt, {i: False for i in cf.atom_ids(tgt)})
        cf.evaluator(sg, {i: False for i in cf.atom_ids(sg)})
    except cf.Unsupported:
        ctx.count("call_skipped_negation_through_cycle")
        return False
    if not src_acyclic:
        ctx.count("call_cyclic_findall_target")
    if not cf.is_acyclic(tgt):
        ctx.count("call_cyclic_target")
    ids = sorted(set(cf.atom_ids(tgt)) | set(cf.atom_ids(sg)))
    if len(ids) > 8:
        ctx.count("call_skipped_more_than_8_atoms")
        return False
    gname = "g%d" % len(defs)
    defs.append("Definition %s : graph := %s." % (gname, coq_graph(sg)))
    fuel = "(default_fuel %s)" % gname
    coq_results = vf.coq_list(["(%s, %s)" % (vf.coq_Z(codes[t]), coq_key(n)) for t, n in results])

    def add(case, what):
        cases.append(case)
        metas.append((what, src))

    # pairing of the outputs with the entries of _select_sublist (order kept, FALSE nodes dropped)
    kept = [(e, k) for e, k in zip(entries, cn) if k != "skip" and k is not None]
    if [(list_str(e[0]), k) for e, k in kept] != [(l, k) for l, k in out]:
        ctx.violation("%s/3 builtin: outputs are not the entries of _select_sublist with a non-FALSE add_and node, in order:\n%s\nentries+nodes %r\noutputs %r"
                      % (kind, src, list(zip(entries, cn)), out), rep, klass=None)
        return False
    coq_out = vf.coq_list(["(%s, %s)" % (coq_zl([codes[t] for t in e[0]]), coq_key(k)) for e, k in kept])
    cn_tbl = vf.coq_list(["(%s, %s)" % (vf.coq_list([coq_key(x) for x in e[1]]), coq_key(k))
                          for e, k in zip(entries, cn) if k != "skip"])

    if kind == "all":
        if [(t, n) for t, n in results] != [(t, n) for t, n in lst]:
            ctx.violation("all/3: list given to _select_sublist differs from the engine results:\n%s" % src, rep, klass=None)
            return False
        coq_lst = vf.coq_list(["(%s, %s)" % (vf.coq_Z(codes[t]), coq_key(n)) for t, n in lst])
        add("leq oeq (all_out %s (tbl_cn %s) %s) %s" % (vf.coq_bool(c["allow_none"]), cn_tbl, coq_lst, coq_out), "all_out")
        proofs_true = None
    else:
        # ---- enumerate_branches / multiplicity vs the model (cyclic formulas included: the model has the guard)
        if len(c["enum"]) != len(results) or [i for i, _, _ in c["enum"]] != [n for _, n in results]:
            ctx.violation("findall/3: enumerate_branches is not called once per result in order:\n%s" % src, rep, klass=None)
            return False
        unsorted = []
        for r, ((t, n), (_, brs, mult)) in enumerate(zip(results, c["enum"])):
            obs = vf.coq_list(["(%s, %s)" % (vf.coq_Z(mx), coq_zl(b)) for mx, b in brs])
            add("obeq (eb_key %s %s %s) %s" % (gname, fuel, coq_key(n), obs), "enumerate_branches")
            if isinstance(mult, int):
                add("omeq (mult_key %s %s %s) %s" % (gname, fuel, coq_key(n), vf.coq_nat(mult)), "get_node_multiplicity")
                if src_acyclic and mult != len(brs):
                    ctx.violation("get_node_multiplicity(%r) = %d but enumerate_branches yields %d branches:\n%s"
                                  % (n, mult, len(brs), src), rep, klass=None)
            for bi, (mx, b) in enumerate(brs):
                unsorted.append((mx, t, b))
        order = sorted(unsorted, key=lambda x: x[0])      # the same stable sort the builtin uses
        if [t for _, t, _ in order] != [t for t, _ in lst]:
            ctx.violation("findall/3: the list given to _select_sublist is not the proofs stably sorted by mx:\n%s\nproofs %r\nlist %r"
                          % (src, order, lst), rep, klass=None)
            return False
        add("match all_proofs %s %s %s with Some ps => leq peq (sort_mx ps) %s | None => false end"
            % (gname, fuel, coq_results,
               vf.coq_list(["(%s, %s, %s)" % (vf.coq_Z(mx), vf.coq_Z(codes[t]), coq_zl(b)) for mx, t, b in order])), "all_proofs+sort_mx")
        pn = {}
        functional = True
        for (mx, t, b), (_, k) in zip(order, lst):
            if b and pn.setdefault(tuple(b), k) != k:
                functional = False
        if functional:
            pn_tbl = vf.coq_list(["(%s, %s)" % (coq_zl(b), coq_key(k)) for b, k in pn.items()])
            add("match findall_model %s %s (tbl_pn %s) (tbl_cn %s) %s with Some o => leq oeq o %s | None => false end"
                % (gname, fuel, pn_tbl, cn_tbl, coq_results, coq_out), "findall_model")
        else:
            ctx.count("call_pn_not_functional")
        proofs_true = order

    # ---- property-level judge by exhaustive assignments (hypotheses AND conclusion of the Coq theorems)
    for a in cf.assignments(ids):
        tv = cf.evaluator(tgt, a)
        if kind == "findall":
            sv = cf.evaluator(sg, a)
            for (t, n), (_, brs, _) in zip(results, c["enum"]):
                dnf = any(bool(b) and all(sv(x) for x in b) for _, b in brs)
                if dnf != sv(n):
                    ctx.violation("enumerate_branches(%r) is not equivalent to the node under %r (branches %r):\n%s"
                                  % (n, a, brs, src), dict(rep, assignment=a), klass=None)
                    return False
            for (mx, t, b), (_, k) in zip(proofs_true, lst):
                if tv(k) != (bool(b) and all(sv(x) for x in b)):
                    ctx.violation("findall/3: proof node %r (copy_node+add_and of branch %r) is not equivalent to the branch under %r:\n%s"
                                  % (k, b, a, src), dict(rep, assignment=a), klass=None)
                    return False
            want = [t for (mx, t, b) in proofs_true if bool(b) and all(sv(x) for x in b)]
            expect_one = True
        else:
            want = [t for t, n in lst if tv(n)]
            expect_one = c["allow_none"] or bool(want)
        for e, k in zip(entries, cn):
            if k != "skip" and tv(k) != all(tv(x) for x in e[1]):
                ctx.violation("%s/3: add_and(%r) = %r is not the conjunction under %r:\n%s" % (kind, e[1], k, a, src),
                              dict(rep, assignment=a), klass=None)
                return False
        sat = [l for l, k in out if tv(k)]
        if (expect_one and sat != [list_str(want)]) or (not expect_one and sat):
            ctx.violation("%s/3: under assignment %r the result lists whose node holds are %r, expected %s:\n%s"
                          % (kind, a, sat, ("exactly [%s]" % list_str(want)) if expect_one else "none", src),
                          dict(rep, assignment=a, outputs=out), klass=None)
            return False
    return True


CYCLE_CLASS = "findall-cyclic-goal-branch-ignores-recursive-call"


def run_machinery(ctx):
    n = ctx.n(150, 3000)
    progs = []
    for _ in range(n):
        r = ctx.rng.random()
        progs.append(cf.gen_relational_program(ctx.rng) if r < 0.3 else cf.gen_cyclic_program(ctx.rng) if r < 0.5
                     else cf.gen_rich_program(ctx.rng))
    caps = pl.pmap(_capture_cn, [p[0] for p in progs], jobs=8)
    cases, metas, defs = [], [], []
    cn_cases, cn_metas, cn_cap = [], [], ctx.n(150, 3000)
    for (src, kind), (st, err, calls) in zip(progs, caps):
        if st == "err":
            if err == "Timeout":
                ctx.count("machinery_timeout")
                continue
            ctx.violation("grounding a findall/all program raised %s:\n%s" % (err, src), {"program": src, "error": err}, klass=None)
            continue
        for ci, c in enumerate(calls):
            ok = judge_call(ctx, src, ci, c, cases, metas, defs)
            ctx.count("machinery_%s_%s" % (c["kind"], "judged" if ok is True else "not_judged"))
            # tie of ModelCopyNode.findall_concrete: only calls the Python judge is satisfied with
            if c["kind"] == "findall" and ok is True:
                if len(cn_cases) >= cn_cap:
                    ctx.count("copynode_skipped:case_cap_reached")
                else:
                    term, why = ccn.coq_case(c, src)
                    if term is None:
                        ctx.count("copynode_skipped:" + why)
                    else:
                        cn_cases.append(term)
                        cn_metas.append(src)
                        ctx.count("copynode_case")
                        for f in ccn.features(c):
                            ctx.count("copynode_case_" + f)
            nontrivial = ok is True and len(c.get("lst", [])) >= 3 and len(c.get("out", [])) >= 3
            ctx.case(("call", src, ci), nontrivial,
                     sample={"program": src, "results": c.get("results"), "branches": [e[1] for e in c.get("enum", [])],
                             "sorted_list": c.get("lst"), "outputs": c.get("out", [])[:6]})
    # fixed probe for the repaired defect (class CYCLE_CLASS, status fixed: a VIOLATION if it returns):
    # the recorded call is judged like every other one (least-model reading of the cyclic findall_target)
    # and the reported distribution against P(q([])) = 1/4, P(b in L) = P(c in L) = 5/8
    st, err, calls = cf.capture(cf.CYCLIC_WITNESS)
    res = pl.evaluate(cf.CYCLIC_WITNESS, timeout=60)
    rep = {"program": cf.CYCLIC_WITNESS}
    if st != "ok" or not calls or res[0] != "ok":
        ctx.violation("cyclic findall witness does not evaluate: %r %r" % (err, res[1]), rep, klass=CYCLE_CLASS)
    else:
        ok = judge_call(ctx, cf.CYCLIC_WITNESS, 0, calls[0], cases, metas, defs)
        ctx.case(("cyclic-witness",), ok is True, sample={"program": cf.CYCLIC_WITNESS, "branches": [e[1] for e in calls[0]["enum"]]})
        dist = {k.replace(" ", ""): v for k, v in res[1].items()}
        p_empty = dist.get("q([])", 0.0)
        p_b = sum(v for k, v in dist.items() if "b" in parse_list(k))
        p_c = sum(v for k, v in dist.items() if "c" in parse_list(k))
        cut = [(n, brs) for n, brs, _ in calls[0]["enum"] if any(set(b) == {5, 7} for _, b in brs)]
        if cut or abs(p_empty - 0.25) > 1e-9 or abs(p_b - 0.625) > 1e-9 or abs(p_c - 0.625) > 1e-9 or abs(sum(dist.values()) - 1) > 1e-9:
            ctx.violation("findall/3 over a cyclic goal: a recursive call cut by the cycle guard of enumerate_branches counts as true "
                          "(branches through e(b,c),e(c,b) only: %r); P(q([])) = %r (expected 0.25), P(b in L) = %r, P(c in L) = %r (expected 0.625)"
                          % (cut, p_empty, p_b, p_c), dict(rep, got=dist), klass=CYCLE_CLASS)
        else:
            ctx.count("cyclic_witness_ok")
    try:
        bad = ctx.coq_failing(HEADER2 + "\n".join(defs) + "\n", cases, name="fm", shard=250, jobs=4)
    except RuntimeError as e:
        ctx.broken.append("correspondence:ModelBranches does not evaluate")
        ctx.notes.append(str(e))
        return
    ctx.cov["findall_machinery_model_vs_impl_cases"] = len(cases)
    ctx.cov["findall_machinery_model_vs_impl_agree"] = len(cases) - len(bad)
    for i in bad[:5]:
        ctx.broken.append("correspondence:ModelBranches.%s vs /repo on program %r" % metas[i])
    # ModelCopyNode.findall_concrete started from the real target as it was before the call must rebuild
    # the identical final node list of the target and the identical outputs (lists, keys, order)
    try:
        bad_cn = ctx.coq_failing(ccn.HEADER, cn_cases, name="cn", shard=50, jobs=4) if cn_cases else []
    except RuntimeError as e:
        ctx.broken.append("correspondence:ModelCopyNode does not evaluate")
        ctx.notes.append(str(e))
        return
    ctx.cov["findall_copynode_model_vs_impl_cases"] = len(cn_cases)
    ctx.cov["findall_copynode_model_vs_impl_agree"] = len(cn_cases) - len(bad_cn)
    for i in bad_cn[:5]:
        ctx.broken.append("correspondence:ModelCopyNode.findall_concrete (target node list / outputs) vs /repo on program %r" % (cn_metas[i],))


def parse_list(key):
    inner = key[len("q(["):-2]
    return [x for x in inner.split(",") if x]


def canon(dist, f):
    out = {}
    for k, v in dist.items():
        kk = ",".join(f(parse_list(k)))
        out[kk] = out.get(kk, 0.0) + v
    return out


def close(a, b):
    return set(a) == set(b) and all(abs(a[k] - b[k]) <= 1e-9 for k in a)


def run(ctx):
    ctx.cov["rule"] = ("(a) random (term,node) lists of length 0-6 with TRUE/FALSE/signed node ids (repeated ids allowed) through _select_sublist: "
                       "non-trivial = >=2 distinct node ids and at least one deterministic or repeated element; "
                       "(b) random propositional programs with findall/3 or all/3 over a predicate with 1-5 ordered clauses over 1-4 probabilistic facts: "
                       "non-trivial = >=3 distinct result lists with non-zero probability; "
                       "(c) random programs, 50% propositional (facts, optional AD and deterministic fact, intermediate predicates with negation, p/1 with 1-4 clauses), "
                       "30% relational (probabilistic/deterministic edges of a DAG, two-step path predicate, compound templates, one call per binding of an outer variable), "
                       "20% recursive goals over digraphs with cycles (cyclic findall_target, least-model reading) "
                       "under findall/3, all/3, all_or_none/3: every recorded builtin call is compared with ModelBranches and judged by exhaustive assignments: "
                       "non-trivial = >=3 proofs and >=3 output lists")
    ctx.assumptions += ["_select_sublist / BaseFormula.negate: translated from the source on every run (gen/c19_select_sublist.py, unverified "
                        "fail-closed glue + SelectPrelude.v readings of the Python constructs) and PROVED equal to the hand model; "
                        "hand and generated model additionally tied by sampled differential runs",
                        "hand model of enumerate_branches / get_node_multiplicity / _builtin_findall_base / _builtin_all tied on recorded builtin calls; "
                        "target keys (copy_node, add_and) abstracted, their builder-correctness hypothesis judged per call",
                        "ModelCopyNode (copy_node/add_and into the real target): hand model tied on recorded findall/3 calls (identical target node list and outputs); "
                        "calls of programs with an annotated disjunction are not compared (atom_info not reconstructed); C19_findall_lists_partition_concrete needs a topologically ordered target before the call",
                        "findall order = stable sort by mx (the code's heuristic), not Prolog order",
                        "harness-side world enumerator (Fractions) is the judge for whole programs"]
    try:
        generate(ctx)
    except Exception as e:  # translator failed closed: recorded, the judges below still run
        ctx.broken.append("translator:gen/c19_select_sublist.py: %s" % (str(e)[:300],))
        ctx.notes.append(str(e))
    ctx.prove("C19/Props.v")
    ctx.prove("C19/PropsExtra.v")
    run_select_sublist(ctx)
    run_machinery(ctx)
    run_programs(ctx)
    # Findings.v (not in the cone of Props.v): model-level witness of the cyclic-goal defect
    try:
        rc, out = vf.sh(["coqc"] + vf.COQFLAGS + ["-w", "none", "theories/C19/Findings.v"], cwd=vf.COQ, timeout=300)
        ctx.cov["findings_files"] = {"C19/Findings.v": "compiles (C19_cycle_guard_refuted: the cycle guard's empty branch is not a proof)" if rc == 0
                                     else "does NOT compile: " + out[-400:]}
    except Exception as e:  # noqa
        ctx.cov["findings_files"] = {"C19/Findings.v": "not built: %s" % str(e)[:200]}
