"""C19 — findall/all in probabilistic programs follow the possible-world semantics."""
import itertools
from fractions import Fraction

import vf
import pl

META = {
    "id": "C19",
    "level": "proof",
    "technique": "Coq proof that _select_sublist partitions the truth assignments (exactly one entry per assignment, its list = true solutions in order) over a hand model tied to engine_builtin._select_sublist by differential runs; findall/all programs judged against a possible-world enumerator",
    "design_ref": "DESIGN.md §5 C19",
    "text": "Unbounded theorems (any list, any assignment) on the Gallina model of _select_sublist: existence+uniqueness of the satisfied entry and equality of its sublist with the ordered list of true solutions. "
            "The model is compared with the real generator on random (term,node) lists (exact output incl. enumeration order). "
            "Whole findall/3, all/3 programs are judged against exhaustive world enumeration done in the harness (exact rationals).",
    "note": "Trusted: Coq kernel+vm_compute; hand model of _select_sublist (sampled correspondence); the harness world enumerator for propositional findall programs; "
            "solution ORDER of the sub-goal inside findall (proof order) is only tied by the sampled programs, not proved.",
}

HEADER = """From Coq Require Import ZArith NArith List Bool.
From PL.C19 Require Import ModelSelectSublist.
Import ListNotations.
Definition keq (a b : key) : bool := match a, b with None, None => true | Some x, Some y => Z.eqb x y | _, _ => false end.
Fixpoint leq {A} (e : A -> A -> bool) (x y : list A) : bool :=
  match x, y with [], [] => true | a :: x', b :: y' => e a b && leq e x' y' | _, _ => false end.
Definition eeq (a b : list Z * list key) : bool := leq Z.eqb (fst a) (fst b) && leq keq (snd a) (snd b).
"""


class FakeTarget:
    TRUE = 0
    FALSE = None

    def negate(self, k):
        if k is None:
            return 0
        if k == 0:
            return None
        return -k


def coq_key(k):
    return "None" if k is None else "(Some %s)" % vf.coq_Z(k)


def spec_entries(lst):
    """Property-level reference: for every assignment to the distinct non-constant
    node ids there must be exactly one entry whose constraints hold, and its terms
    are the true solutions in order."""
    ids = sorted({abs(k) for _, k in lst if k not in (0, None)})
    return ids


def val(assign, k):
    if k is None:
        return False
    if k == 0:
        return True
    return assign[k] if k > 0 else not assign[-k]


def run_select_sublist(ctx):
    from problog.engine_builtin import _select_sublist
    n = ctx.n(300, 6000)
    cases, metas = [], []
    for _ in range(n):
        ln = ctx.rng.choice([0, 1, 2, 3, 4, 5, 6])
        lst = []
        for i in range(ln):
            r = ctx.rng.random()
            if r < 0.15:
                k = 0
            elif r < 0.25:
                k = None
            else:
                k = ctx.rng.choice([1, 2, 3, 4, 5]) * ctx.rng.choice([1, 1, -1])
            lst.append((ctx.rng.randrange(1, 4), k))
        try:
            out = [(list(t), list(ns)) for t, ns in _select_sublist(lst, FakeTarget())]
        except Exception as e:
            ctx.violation("_select_sublist raised %r on %r" % (e, lst), {"lst": lst}, klass=None)
            continue
        ids = spec_entries(lst)
        nontrivial = len(ids) >= 2 and len(lst) > len(ids)
        ctx.case(("ss", tuple(lst)), nontrivial, sample={"lst": lst, "entries": out[:4]})
        ctx.count("select_sublist_len_%d" % ln)
        # judge: partition property, by exhaustive assignments
        for bits in itertools.product([False, True], repeat=len(ids)):
            a = dict(zip(ids, bits))
            sat = [t for t, ns in out if all(val(a, k) for k in ns)]
            want = [t for t, k in lst if val(a, k)]
            if len(sat) != 1 or sat[0] != want:
                ctx.violation("_select_sublist(%r): under assignment %r the satisfied entries are %r, expected exactly [%r]"
                              % (lst, a, sat, want), {"lst": lst, "assignment": {str(k): v for k, v in a.items()}, "entries": out},
                              klass=None)
                break
        coq_lst = vf.coq_list(["(%s, %s)" % (vf.coq_Z(t), coq_key(k)) for t, k in lst])
        coq_out = vf.coq_list(["(%s, %s)" % (vf.coq_list([vf.coq_Z(t) for t in ts]), vf.coq_list([coq_key(k) for k in ns])) for ts, ns in out])
        cases.append("leq eeq (select_sublist %s) %s" % (coq_lst, coq_out))
        metas.append(lst)
    try:
        bad = ctx.coq_failing(HEADER, cases, name="ss")
    except RuntimeError as e:
        ctx.broken.append("correspondence:ModelSelectSublist does not evaluate")
        ctx.notes.append(str(e))
        return
    ctx.cov["select_sublist_model_vs_impl_agree"] = len(cases) - len(bad)
    for i in bad[:5]:
        ctx.broken.append("correspondence:ModelSelectSublist.select_sublist vs engine_builtin._select_sublist on %r" % (metas[i],))


# ------------------------------------------------------------------ whole programs
def gen_findall_program(rng):
    """Propositional-domain program: probabilistic facts / one AD / a derived
    predicate p/1 with clauses in a fixed order; query findall or all over p/1."""
    nf = rng.randint(1, 4)
    probs = [Fraction(rng.randint(1, 9), 10) for _ in range(nf)]
    lines = ["%s::f%d." % (float(p), i) for i, p in enumerate(probs)]
    clauses = []
    for _ in range(rng.randint(1, 5)):
        val_ = rng.choice(["a", "b", "c"])
        body = sorted(rng.sample(range(nf), rng.randint(0, min(2, nf))))
        neg = [rng.random() < 0.25 for _ in body]
        clauses.append((val_, list(zip(body, neg))))
    for v, body in clauses:
        if body:
            lines.append("p(%s) :- %s." % (v, ", ".join(("\\+f%d" % i) if ng else ("f%d" % i) for i, ng in body)))
        else:
            lines.append("p(%s)." % v)
    kind = rng.choice(["findall", "all"])
    lines.append("q(L) :- %s(X, p(X), L)." % kind)
    lines.append("query(q(_)).")
    return "\n".join(lines), probs, clauses, kind


def spec_findall(probs, clauses, kind):
    """World enumeration: list of solutions of p(X) in Prolog order (clause order,
    duplicates kept)."""
    dist = {}
    for bits in itertools.product([False, True], repeat=len(probs)):
        w = Fraction(1)
        for b, p in zip(bits, probs):
            w *= p if b else (1 - p)
        sol = [v for v, body in clauses if all(bits[i] != ng for i, ng in body)]
        if kind == "all":
            # all/3 = YAP all/3: duplicates eliminated (docs/source/modeling_basic.rst), empty list excluded
            sol = [v for i, v in enumerate(sol) if v not in sol[:i]]
            if not sol:
                continue
        key = "q([%s])" % ",".join(sol)
        dist[key] = dist.get(key, Fraction(0)) + w
    return {k: v for k, v in dist.items() if v != 0}


def _eval(src):
    return pl.evaluate(src, timeout=30)


def run_programs(ctx):
    n = ctx.n(120, 3000)
    progs = [gen_findall_program(ctx.rng) for _ in range(n)]
    results = pl.pmap(_eval, [p[0] for p in progs])
    for (src, probs, clauses, kind), res in zip(progs, results):
        want = spec_findall(probs, clauses, kind)
        nontrivial = len(want) >= 3
        ctx.case(("prog", src), nontrivial, sample={"program": src, "expected": {k: str(v) for k, v in want.items()}})
        ctx.count("prog_" + kind)
        if res[0] == "err":
            if res[1] == "Timeout":
                ctx.count("prog_timeout")
                continue
            ctx.violation("findall program raised %s:\n%s" % (res[1], src), {"program": src, "error": res[1]}, klass=None)
            continue
        got = {k.replace(" ", ""): v for k, v in res[1].items() if abs(v) > 1e-12}
        wantf = {k: float(v) for k, v in want.items()}
        if close(got, wantf):
            ctx.count("prog_exact_agreement")
            continue
        # symptom classes (narrow): same distribution once element ORDER is ignored /
        # once repeated solutions of the same answer are merged as well
        if close(canon(got, sorted), canon(wantf, sorted)):
            klass = "findall-result-order-not-clause-order"
        elif close(canon(got, lambda l: sorted(set(l))), canon(wantf, lambda l: sorted(set(l)))):
            klass = "findall-duplicate-proofs-of-same-answer-merged"
        else:
            klass = None
        ctx.violation("findall/all result lists differ from the possible-world semantics (Prolog order, duplicates kept):\n%s\n got %r\n want %r"
                      % (src, got, wantf),
                      {"program": src, "got": got, "want": {k: str(v) for k, v in want.items()}}, klass=klass)


def parse_list(key):
    inner = key[len("q(["):-2]
    return [x for x in inner.split(",") if x]


def canon(dist, f):
    out = {}
    for k, v in dist.items():
        kk = ",".join(f(parse_list(k)))
        out[kk] = out.get(kk, 0.0) + v
    return out


def close(a, b):
    return set(a) == set(b) and all(abs(a[k] - b[k]) <= 1e-9 for k in a)


def run(ctx):
    ctx.cov["rule"] = ("(a) random (term,node) lists of length 0-6 with TRUE/FALSE/signed node ids (repeated ids allowed) through _select_sublist: "
                       "non-trivial = >=2 distinct node ids and at least one deterministic or repeated element; "
                       "(b) random propositional programs with findall/3 or all/3 over a predicate with 1-5 ordered clauses over 1-4 probabilistic facts: "
                       "non-trivial = >=3 distinct result lists with non-zero probability")
    ctx.assumptions += ["hand model of _select_sublist tied by sampled differential runs",
                        "harness-side world enumerator (Fractions) is the judge for whole programs"]
    ctx.prove("C19/Props.v")
    run_select_sublist(ctx)
    run_programs(ctx)
