"""C15 -- term comparison and sort/2 follow the standard order of terms.

Proof part: coq/theories/C15/Props.v (spec: total order, sort_u; code: generated
model of struct_cmp & co against the spec) -- see the header of Props.v.
Tie: (T) gen/c15_structcmp.py regenerates GenStructCmp.v from the source on
every run; (C) bounded-exhaustive ground terms through the real code (direct
struct_cmp calls and compare/3, @<.., ==, sort/2 through the engine) judged
against the standard order (Python reference, itself cross-checked against
the Coq definition) and compared with the generated model (vm_compute).
"""
import os
import sys
from fractions import Fraction

import vf
import pl

sys.path.insert(0, os.path.join(vf.VERIF, "gen"))
import c15_structcmp  # noqa: E402

META = {
    "id": "C15",
    "level": "proof",
    "technique": "Coq: standard order of terms proved a total order, sort/2 spec proved unique; fail-closed Python-ast->Gallina "
                 "translation of struct_cmp/StructSort/compare/3/@<../sort/2 with equivalence theorems; bounded-exhaustive differential tie",
    "design_ref": "DESIGN.md §5 C15",
    "text": "Theorems with unbounded quantifiers over all terms (spec) and over the domain of the generated model (code); the model is "
            "regenerated from engine_builtin.py on every run; ground terms over a small signature are run as pairs/triples/lists "
            "through the real builtins and judged against the Coq-defined standard order.",
    "note": "Trusted: Coq kernel + vm_compute; translator gen/c15_structcmp.py and ModelPrelude.v (meaning of Python primitives); "
            "CPython sorted() is a stable sort using only __lt__, set() iterates each __eq__ class once; SWI-Prolog is not installed, "
            "the reference order is the Coq definition (DESIGN 6.4).",
}

FSCALE = 2 ** 1074
K_NUM = "struct-cmp-numbers-compared-as-strings"
K_QUO = "struct-cmp-quoted-atoms"
K_MIN = "struct-cmp-minus-compound-as-number"
K_CMP3 = "compare3-unquoted-order-atom-rejected"

# ------------------------------------------------------------------ signature
INTS = ["0", "1", "2", "9", "10", "11", "20", "100", "-1", "-3", "-20", "-100", "123456789",
        "9007199254740991", "-9007199254740991"]
FLOATS = ["0.0", "0.5", "1.0", "1.5", "2.0", "9.0", "9.5", "10.0", "20.0", "100.0", "-0.5", "-3.0", "-3.5",
          "-20.0", "1.0e10", "0.1", "0.0025"]
ATOMS = ["a", "b", "c", "ab", "abc", "zzz", "z", "f", "g", "[]", "aBc", "a_1",
         "'zzz'", "'abc'", "'a'", "'a b'", "'Abc'", "'[]'", "'hello world'", "'!'"]
STRINGS = ['""', '"a"', '"abc"', '"b"', '"zzz"', '"a b"', '"A"']
ARG1 = ["a", "b", "'a'", "1", "2", "10", "1.0", '"a"', "zzz"]
ARG2 = ["a", "b", "1", "10", "'a'"]


def pool_sources(ctx, extra):
    out = list(INTS) + list(FLOATS) + list(ATOMS) + list(STRINGS)
    out += ["f(%s)" % x for x in ARG1]
    out += ["'f'(%s)" % x for x in ("a", "1", "'a'")]
    out += ["'zz z'(%s)" % x for x in ("a", "10")]
    out += ["g(%s,%s)" % (x, y) for x in ARG2 for y in ARG2]
    out += ["f(%s,%s)" % (x, y) for x, y in (("a", "b"), ("1", "2"), ("10", "9"))]
    out += ["h(a,b,c)", "h(1,10,2)", "a(b)", "abc(1)"]
    out += ["[%s]" % x for x in ARG1] + ["[%s,%s]" % (x, y) for x, y in (("a", "b"), ("1", "2"), ("10", "9"), ("2", "10"), ("b", "a"))]
    out += ["[1,2,3]", "[a|b]"]
    out += ["a-b", "a+b", "1-2", "- a", "-(3)", "'-'(3)", "'-'(a)", "'-'(1.5)", "'-'(10)"]
    out += ["f(f(a))", "f(g(a,b))", "g(f(1),f(10))", "g(f(10),f(1))", "[[a]]", "[f(a),g(b,c)]", "f([1,2])", "f([10,2])",
            "g(f(a),'f'(a))", "f('zzz')", "f(\"a\")"]
    rng = ctx.rng
    atomic = INTS + FLOATS + ATOMS + STRINGS

    def rnd(depth):
        if depth == 0 or rng.random() < 0.35:
            return rng.choice(atomic)
        k = rng.random()
        if k < 0.3:
            return "f(%s)" % rnd(depth - 1)
        if k < 0.55:
            return "g(%s,%s)" % (rnd(depth - 1), rnd(depth - 1))
        if k < 0.7:
            return "%s(%s)" % (rng.choice(["a", "zzz", "'zzz'", "'a b'", "h"]), ",".join(rnd(depth - 1) for _ in range(rng.choice([1, 2, 3]))))
        return "[%s]" % ",".join(rnd(depth - 1) for _ in range(rng.choice([0, 1, 2, 3])))
    seen = set(out)
    tries = 0
    while extra > 0:
        t = rnd(3)
        tries += 1
        if t not in seen:
            seen.add(t)
            out.append(t)
            extra -= 1
        if tries > 100000:
            break
    # distinct sources only
    res, s2 = [], set()
    for t in out:
        if t not in s2:
            s2.add(t)
            res.append(t)
    return res


# ------------------------------------------------------------------ real objects and their encoding
def parse_pool(sources):
    """The Term objects exactly as a builtin receives them (through the engine)."""
    from problog.program import PrologString
    from problog.engine import DefaultEngine
    from problog.logic import Term
    src = "\n".join("p(%d, %s)." % (i, s) for i, s in enumerate(sources))
    eng = DefaultEngine()
    db = eng.prepare(PrologString(src))
    objs = [None] * len(sources)
    for r in eng.query(db, Term("p", None, None)):
        objs[int(r[0])] = r[1]
    assert all(o is not None for o in objs)
    return objs


def enc(t):
    """ProbLog object -> model term (nested tuples), looking only at what is stored."""
    from problog.logic import Term, Constant
    if type(t) is Constant:
        v = t.functor
        if type(v) is int:
            return ("i", v)
        if type(v) is float:
            fr = Fraction(v) * FSCALE
            assert fr.denominator == 1
            return ("f", int(fr), repr(v))
        if type(v) is str:
            return ("s", v)
        raise ValueError("constant %r" % (v,))
    if type(t) is Term:
        return ("t", str(t.functor), tuple(enc(a) for a in t.args))
    raise ValueError("not a plain ground term: %r (%s)" % (t, type(t).__name__))


def atom_text(f):
    if len(f) >= 2 and f[0] == "'" and f[-1] == "'":
        return f[1:-1]
    return f


def denote(e):
    if e[0] == "t":
        return ("t", atom_text(e[1]), tuple(denote(a) for a in e[2]))
    return e


def cmp3(x, y):
    return -1 if x < y else (1 if x > y else 0)


def rank(e, sa):
    k = e[0]
    if k in ("i", "f"):
        return 1
    if k == "s":
        return 2 if sa else 3
    if k == "t":
        return 4 if e[2] else (3 if sa else 2)
    raise ValueError(e)


def codes(s):
    return [ord(c) for c in s]


def std_cmp(a, b, sa=True):
    """The property's own reference (mirrors ModelStd.std_cmp_gen; cross-checked against it on every run)."""
    ra, rb = rank(a, sa), rank(b, sa)
    if ra != rb:
        return cmp3(ra, rb)
    if a[0] in ("i", "f"):
        va = a[1] * FSCALE if a[0] == "i" else a[1]
        vb = b[1] * FSCALE if b[0] == "i" else b[1]
        c = cmp3(va, vb)
        if c:
            return c
        return cmp3(0 if a[0] == "f" else 1, 0 if b[0] == "f" else 1)
    if a[0] == "s":
        return cmp3(codes(a[1]), codes(b[1]))
    c = cmp3(len(a[2]), len(b[2]))
    if c:
        return c
    c = cmp3(codes(a[1]), codes(b[1]))
    if c:
        return c
    for x, y in zip(a[2], b[2]):
        c = std_cmp(x, y, sa)
        if c:
            return c
    return 0


def has_string(e):
    return e[0] == "s" or (e[0] == "t" and any(has_string(x) for x in e[2]))


def spec_cmp(a, b):
    """Expected result for raw encodings a, b: order of the denoted terms (ProbLog's documented class order)."""
    return std_cmp(denote(a), denote(b), True)


def is_num(e):
    return e[0] in ("i", "f")


def num_text(e):
    return str(e[1]) if e[0] == "i" else e[2]


def is_minus_compound(e):
    return e[0] == "t" and e[1] == "'-'" and len(e[2]) == 1 and (is_num(e[2][0]) or is_minus_compound(e[2][0]))


def quoted_names(e):
    return e[0] == "t" and (e[1].startswith("'") or any(quoted_names(x) for x in e[2]))


def deciding(a, b):
    """Descend through equal functors to the sub-pair where raw and denoted views first differ/decide."""
    while a[0] == "t" and b[0] == "t" and len(a[2]) == len(b[2]) and a[2] and a[1] == b[1] and not is_minus_compound(a):
        for x, y in zip(a[2], b[2]):
            if x != y:
                a, b = x, y
                break
        else:
            break
    return a, b


def classify(a, b, observed):
    """Narrow class of a comparison a?b whose observed result differs from spec_cmp."""
    x, y = deciding(a, b)
    if is_num(x) and is_num(y):
        vx = x[1] * FSCALE if x[0] == "i" else x[1]
        vy = y[1] * FSCALE if y[0] == "i" else y[1]
        if vx != vy and observed == cmp3(num_text(x), num_text(y)):
            return K_NUM
        return None
    if is_minus_compound(x) or is_minus_compound(y):
        return K_MIN
    if (x[0] == "t" and x[1].startswith("'")) or (y[0] == "t" and y[1].startswith("'")):
        # symptom: the result is what comparing the raw spellings gives
        if x[0] == "t" and y[0] == "t" and len(x[2]) == len(y[2]) and observed == cmp3(codes(x[1]), codes(y[1])) and x[1] != y[1]:
            return K_QUO
    return None


# ------------------------------------------------------------------ coq literals
def coq_text(s):
    return "[%s]%%N" % "; ".join(str(ord(c)) for c in s) if s else "(@nil N)"


def coq_term(e):
    k = e[0]
    if k == "i":
        return "(TInt (%d)%%Z)" % e[1]
    if k == "f":
        return "(TFlt (%d)%%Z)" % e[1]
    if k == "s":
        return "(TStr %s)" % coq_text(e[1])
    return "(TFun %s [%s])" % (coq_text(e[1]), "; ".join(coq_term(x) for x in e[2]))


def floats_in(e, acc):
    if e[0] == "f":
        acc[e[1]] = e[2]
    elif e[0] == "t":
        for x in e[2]:
            floats_in(x, acc)


def coq_header(encs, with_model=True):
    """with_model=False: only the spec-level definitions (used when the translator failed: GenStructCmp.v is stale)."""
    if not with_model:
        lines = ["From Coq Require Import ZArith NArith List Bool.", "From PL.C15 Require Import ModelStd.", "Import ListNotations."]
        for i, e in enumerate(encs):
            lines.append("Definition p%d : term := %s." % (i, coq_term(e)))
        lines.append("Definition pool : list term := [%s]." % "; ".join("p%d" % i for i in range(len(encs))))
        lines.append("Fixpoint zs_eqb (l m : list Z) : bool := match l, m with [] , [] => true | x :: l', y :: m' => Z.eqb x y && zs_eqb l' m' | _, _ => false end.")
        lines.append("Definition row_spec (a : term) (exp : list Z) : bool := zs_eqb (map (fun b => cmpZ (plg_cmp (denote a) (denote b))) pool) exp.")
        lines.append("Definition sort_spec_ok (xs exp : list term) : bool := list_eqb (plg_sort (map denote xs)) exp.")
        return "\n".join(lines) + "\n"
    fl = {}
    for e in encs:
        floats_in(e, fl)
    lines = ["From Coq Require Import ZArith NArith List Bool.",
             "From PL.C15 Require Import ModelStd ModelPrelude GenStructCmp.",
             "Import ListNotations.",
             "Definition fr (k : Z) : text :="]
    for k, r in sorted(fl.items()):
        lines.append("  if Z.eqb k (%d)%%Z then %s else" % (k, coq_text(r)))
    lines.append("  (@nil N).")
    for i, e in enumerate(encs):
        lines.append("Definition p%d : term := %s." % (i, coq_term(e)))
    lines.append("Definition pool : list term := [%s]." % "; ".join("p%d" % i for i in range(len(encs))))
    lines.append("Fixpoint zs_eqb (l m : list Z) : bool := match l, m with [] , [] => true | x :: l', y :: m' => Z.eqb x y && zs_eqb l' m' | _, _ => false end.")
    lines.append("Definition row_impl (a : term) (obs : list Z) : bool := zs_eqb (map (struct_cmp fr a) pool) obs.")
    lines.append("Definition row_spec (a : term) (exp : list Z) : bool := zs_eqb (map (fun b => cmpZ (plg_cmp (denote a) (denote b))) pool) exp.")
    lines.append("Definition tk (c : Z) : text := order_token (if Z.ltb c 0 then Lt else if Z.eqb c 0 then Eq else Gt).")
    # engine-level observation of one pair: token returned by compare/3, which of the three given tokens succeed,
    # and the six comparison builtins
    lines.append("Definition eng_ok (a b : term) (tok : text) (klt keq kgt olt ole ogt oge oeq one : bool) : bool :="
                 " term_eqb (_builtin_compare_answer fr a b) (TFun tok [])"
                 " && Bool.eqb (_builtin_compare_check fr (TFun (order_token Lt) []) a b) klt"
                 " && Bool.eqb (_builtin_compare_check fr (TFun (order_token Eq) []) a b) keq"
                 " && Bool.eqb (_builtin_compare_check fr (TFun (order_token Gt) []) a b) kgt"
                 " && Bool.eqb (_builtin_struct_lt fr a b) olt && Bool.eqb (_builtin_struct_le fr a b) ole"
                 " && Bool.eqb (_builtin_struct_gt fr a b) ogt && Bool.eqb (_builtin_struct_ge fr a b) oge"
                 " && Bool.eqb (_builtin_same a b) oeq && Bool.eqb (_builtin_notsame a b) one.")
    # sorted(set(xs), key=StructSort): the model evaluates ONE iteration order of the set (the theorems quantify over all of them).
    # When the comparator ties on two distinct elements (only through the '-'(N) defect: -3 vs '-'(3)) CPython's hash order decides;
    # the observation is then accepted when it is an arrangement of the same elements without an adjacent inversion.
    lines.append("Fixpoint adj_ok (lt : term -> term -> bool) (l : list term) : bool := match l with x :: r => match r with y :: _ => negb (lt y x) && adj_ok lt r | [] => true end | [] => true end.")
    lines.append("Fixpoint remove1 (x : term) (l : list term) : option (list term) := match l with [] => None | y :: r => if term_eqb x y then Some r else option_map (cons y) (remove1 x r) end.")
    lines.append("Fixpoint perm_b (l m : list term) : bool := match l with [] => match m with [] => true | _ => false end | x :: l' => match remove1 x m with Some m' => perm_b l' m' | None => false end end.")
    lines.append("Definition sort_ok (xs obs : list term) : bool := list_eqb (_builtin_sort_sorted fr (py_set_list xs)) obs"
                 " || (perm_b obs (py_set_list xs) && adj_ok (StructSort__lt__ fr) obs).")
    lines.append("Definition sort_spec_ok (xs exp : list term) : bool := list_eqb (plg_sort (map denote xs)) exp.")
    return "\n".join(lines) + "\n"


def zlist(xs):
    return "[%s]%%Z" % "; ".join(str(x) for x in xs)


# ------------------------------------------------------------------ running the implementation
def direct_rows(args):
    """struct_cmp on every pair of the pool (rows lo..hi), in a forked worker."""
    sources, lo, hi = args
    from problog.engine_builtin import struct_cmp
    objs = parse_pool(sources)
    rows = []
    for i in range(lo, hi):
        a = objs[i]
        row = []
        for b in objs:
            try:
                row.append(struct_cmp(a, b))
            except Exception as e:  # noqa
                row.append("EXC:" + type(e).__name__)
        rows.append(row)
    return rows


ENGINE_RULES = r"""
c(I,O) :- t(I,A,B), compare(O,A,B).
k(I,lt) :- t(I,A,B), compare('<',A,B).
k(I,eq) :- t(I,A,B), compare('=',A,B).
k(I,gt) :- t(I,A,B), compare('>',A,B).
o(I,lt) :- t(I,A,B), A @< B.
o(I,le) :- t(I,A,B), A @=< B.
o(I,gt) :- t(I,A,B), A @> B.
o(I,ge) :- t(I,A,B), A @>= B.
o(I,eq) :- t(I,A,B), A == B.
o(I,ne) :- t(I,A,B), A \== B.
"""


def engine_batch(pairs):
    """pairs: list of (srcA, srcB).  One program, three queries.  Returns per pair
    (token or None, frozenset of succeeding k-tags, frozenset of succeeding o-tags) or ('EXC', name)."""
    from problog.program import PrologString
    from problog.engine import DefaultEngine
    from problog.logic import Term
    src = "\n".join("t(%d, %s, %s)." % (i, a, b) for i, (a, b) in enumerate(pairs)) + ENGINE_RULES
    try:
        eng = DefaultEngine()
        db = eng.prepare(PrologString(src))
        toks = [None] * len(pairs)
        ks = [set() for _ in pairs]
        os_ = [set() for _ in pairs]
        for r in eng.query(db, Term("c", None, None)):
            i = int(r[0])
            toks[i] = "MULTI" if toks[i] is not None else str(r[1].functor)
        for r in eng.query(db, Term("k", None, None)):
            ks[int(r[0])].add(str(r[1]))
        for r in eng.query(db, Term("o", None, None)):
            os_[int(r[0])].add(str(r[1]))
        return [(toks[i], frozenset(ks[i]), frozenset(os_[i])) for i in range(len(pairs))]
    except Exception as e:  # noqa
        if len(pairs) == 1:
            return [("EXC", type(e).__name__, str(e)[:200])]
        mid = len(pairs) // 2
        return engine_batch(pairs[:mid]) + engine_batch(pairs[mid:])


def sort_batch(lists):
    """lists: list of list-of-sources.  Returns per list the result of sort/2 as encoded terms, or ('EXC', ..)."""
    from problog.program import PrologString
    from problog.engine import DefaultEngine
    from problog.logic import Term
    from problog.engine_builtin import list_elements
    src = "\n".join("l(%d, [%s])." % (i, ",".join(xs)) for i, xs in enumerate(lists)) + "\ns(I,L) :- l(I,X), sort(X,L).\nli(I,X) :- l(I,X).\n"
    try:
        eng = DefaultEngine()
        db = eng.prepare(PrologString(src))
        res = [None] * len(lists)
        inp = [None] * len(lists)
        for r in eng.query(db, Term("li", None, None)):
            inp[int(r[0])] = [enc(x) for x in list_elements(r[1])[0]]
        for r in eng.query(db, Term("s", None, None)):
            i = int(r[0])
            els, tail = list_elements(r[1])
            if res[i] is not None or str(tail) != "[]":
                res[i] = ("EXC", "multiple-or-partial")
            else:
                res[i] = [enc(x) for x in els]
        return list(zip(inp, res))
    except Exception as e:  # noqa
        if len(lists) == 1:
            return [(None, ("EXC", type(e).__name__ + ": " + str(e)[:200]))]
        mid = len(lists) // 2
        return sort_batch(lists[:mid]) + sort_batch(lists[mid:])


def spec_sort(encs):
    """sort/2 per the property: strictly ascending, duplicate-free list of the denoted elements."""
    import functools
    ds = [denote(e) for e in encs]
    ds.sort(key=functools.cmp_to_key(lambda a, b: std_cmp(a, b, True)))
    out = []
    for d in ds:
        if not out or std_cmp(out[-1], d, True) != 0:
            out.append(d)
    return out


TOK = {-1: "'<'", 0: "'='", 1: "'>'"}
TAG = {-1: "lt", 0: "eq", 1: "gt"}


def expected_engine(e):
    o = set()
    if e < 0:
        o |= {"lt", "le", "ne"}
    elif e == 0:
        o |= {"le", "ge", "eq"}
    else:
        o |= {"gt", "ge", "ne"}
    return (TOK[e], frozenset([TAG[e]]), frozenset(o))


# ------------------------------------------------------------------ the check
def generate(ctx):
    text = c15_structcmp.generate(vf.REPO)
    ctx.generate("C15/GenStructCmp.v", text)
    return text


def optional_build(ctx, rel):
    """Compile a file outside the cone of Props.v; returns (ok, tail of output)."""
    vfile = os.path.join("theories", rel)
    with vf.BuildLock():
        cone = vf.coq_cone(vfile)
        mk = vf.refresh_makefile(cone, "." + ctx.prop + "x")
        rc, out = vf.sh(["make", "-f", mk, "-j8"] + [f[:-2] + ".vo" for f in cone], cwd=vf.COQ, timeout=900)
    return rc == 0, out[-800:]


def report(ctx, found, what_fmt):
    """found: list of (klass, size, what, replay).  At most 2 smallest witnesses per class."""
    by = {}
    for k, size, what, rep in found:
        by.setdefault(k, []).append((size, what, rep))
        ctx.count("violating_cases[%s]" % k)
    for k in sorted(by, key=lambda x: (x is None, x or "")):
        for size, what, rep in sorted(by[k], key=lambda z: (z[0], z[1]))[:2]:
            ctx.violation(what, rep, klass=k)


def run(ctx):
    ctx.cov["rule"] = ("bounded-exhaustive: every ordered pair of a pool of ground terms (ints incl. multi-digit/negative/2^53-1, floats, "
                       "atoms incl. quoted, strings, f/1, g/2, lists, operators, depth<=2, plus random terms of depth<=3) through struct_cmp "
                       "directly and through compare/3 (both modes), @<, @=<, @>, @>=, ==, \\== in the engine; order laws on all triples "
                       "of a sub-pool; random lists through sort/2.  A pair is non-trivial when the two terms differ; distinct = distinct "
                       "source pairs / lists.")
    ctx.assumptions += [
        "ModelPrelude.v gives the meaning of the Python primitives the translated code calls (is_variable, .functor, float(), str(), ...)",
        "float(int) is exact only for |int| < 2^53: stated as the domain of the code theorems",
        "CPython sorted() is a stable sort using only __lt__; set() yields each __eq__ class once (order arbitrary: theorem holds for every order)",
        "reference order = Coq definition of the standard order (SWI-Prolog/YAP not installed); string-vs-atom position follows "
        "ProbLog's documented order (String < Atom), recorded as differing from SWI-7, not an obligation (DESIGN 6.4)",
        "variables are outside the tie (ground terms only); the theorems cover engine-int variables",
    ]
    # ---- 1. translator (fail-closed).  A source the translator does not understand is a broken obligation, NOT the end of
    # the check: the judges below run on the real engine in any case and look for the concrete failing input.
    model_ok = True
    try:
        generate(ctx)
    except Exception as e:  # noqa  (TranslateError, SyntaxError, OSError ...)
        model_ok = False
        ctx.broken.append("translator:gen/c15_structcmp.py cannot translate engine_builtin.py (%s: %s)" % (type(e).__name__, str(e)[:300]))
        ctx.notes.append("translator failed: %s: %s" % (type(e).__name__, e))
        ctx.log("translator failed: %s" % str(e)[:200])
    # ---- 2. proofs (only against a freshly generated model; a stale GenStructCmp.v proves nothing about this source)
    if model_ok:
        try:
            ctx.prove("C15/Props.v")
        except Exception as e:  # noqa
            ctx.broken.append("proof-cone:C15/Props.v (%s: %s)" % (type(e).__name__, str(e)[:300]))
        ctx.log("Props.v: %d/%d" % (ctx.cov["discharged"], ctx.cov["obligations"]))
    else:
        try:
            with open(os.path.join(vf.THEORIES, "C15", "Props.v")) as f:
                import re
                ctx.cov["obligations"] += len(re.findall(r"^\s*(?:Theorem|Corollary)\s", vf.strip_coq_comments(f.read()), re.M))
        except OSError:
            pass
        ok0, _ = optional_build(ctx, "C15/ModelStd.v")      # the spec-level oracle is still needed by the judge's cross-check
    # Findings.v: witnesses (vm_compute on the generated model) of the KNOWN findings that remain -- quoted atoms, '-'(N).
    # Outside the cone of Props.v; when it stops compiling the findings are gone (recorded, never a violation).
    if model_ok:
        try:
            okf, tail = optional_build(ctx, "C15/Findings.v")
            ctx.cov["findings_files"] = {"C15/Findings.v": "compiles (known findings reproduced on the generated model)" if okf
                                         else "does not compile (known finding no longer reproduces)"}
        except Exception as e:  # noqa
            ctx.cov["findings_files"] = {"C15/Findings.v": "not built: %s" % str(e)[:200]}

    if ctx.replay:
        replay(ctx, ctx.replay.get("replay", ctx.replay))
        return
    # corpus of minimised past disagreements, replayed first
    cdir = os.path.join(vf.CORPUS, "C15")
    for name in sorted(os.listdir(cdir)) if os.path.isdir(cdir) else []:
        if name.endswith(".json"):
            import json
            with open(os.path.join(cdir, name)) as f:
                replay(ctx, json.load(f))
            ctx.count("corpus_replayed")

    # ---- 3. pool
    sources = pool_sources(ctx, ctx.n(20, 830))
    objs = parse_pool(sources)
    encs = [enc(o) for o in objs]
    n = len(sources)
    ctx.cov["pool_size"] = n
    for e in encs:
        ctx.count("pool_kind_" + {"i": "int", "f": "float", "s": "string", "t": "atom" if not (e[0] == "t" and e[2]) else "compound"}[e[0]])
    ctx.log("pool of %d terms -> %d ordered pairs" % (n, n * n))

    # ---- 4. direct struct_cmp on all pairs, judged against the order
    step = max(1, n // 28)
    chunks = [(sources, lo, min(n, lo + step)) for lo in range(0, n, step)]
    M = []
    for rows in pl.pmap(direct_rows, chunks, chunksize=1):
        M.extend(rows)
    dens = [denote(e) for e in encs]
    E = [[std_cmp(a, b, True) for b in dens] for a in dens]
    found = []
    for i in range(n):
        for j in range(n):
            obs, exp = M[i][j], E[i][j]
            # every consumer of struct_cmp except compare/3 only looks at the sign; compare/3 is judged through the engine
            sg = cmp3(obs, 0) if isinstance(obs, int) else obs
            if sg != exp:
                k = classify(encs[i], encs[j], sg) if isinstance(obs, int) else None
                found.append((k, len(sources[i]) + len(sources[j]),
                              "struct_cmp(%s, %s) = %r, standard order of terms says %d" % (sources[i], sources[j], obs, exp),
                              {"kind": "pair", "a": sources[i], "b": sources[j], "observed": obs, "expected": exp}))
    # coverage bookkeeping: every pair is an evaluation; distinct keys are recorded for a 1/stride sample of columns
    stride = max(1, n // 50)
    for i in range(n):
        for j in range(0, n, stride):
            ctx.case(("pair", sources[i], sources[j]), encs[i] != encs[j],
                     sample={"a": sources[i], "b": sources[j], "struct_cmp": M[i][j], "expected": E[i][j]})
    ctx.cov["evaluations"] += n * n - n * len(range(0, n, stride))
    ctx.cov["pairs_direct"] = n * n
    ctx.cov["pairs_direct_agree_with_order"] = n * n - len(found)
    ctx.cov["pairs_where_swi7_string_position_differs(recorded,not judged)"] = sum(
        1 for i in range(n) if has_string(encs[i]) or True for j in range(n)
        if (has_string(encs[i]) or has_string(encs[j])) and std_cmp(dens[i], dens[j], False) != E[i][j])
    report(ctx, found, None)
    ctx.log("direct: %d pairs, %d disagree with the order" % (n * n, len(found)))

    # order laws on the implementation's own matrix of signs (independent of the reference)
    S = [[cmp3(x, 0) if isinstance(x, int) else x for x in row] for row in M]
    laws = []
    sub = list(range(min(n, ctx.n(110, 260))))
    for i in sub:
        if S[i][i] != 0:
            laws.append((None, len(sources[i]), "struct_cmp(%s, %s) = %r, not reflexive" % (sources[i], sources[i], S[i][i]),
                         {"kind": "pair", "a": sources[i], "b": sources[i], "observed": S[i][i], "expected": 0}))
        for j in sub:
            if isinstance(S[i][j], int) and isinstance(S[j][i], int) and S[i][j] != -S[j][i]:
                k = classify(encs[i], encs[j], S[i][j])
                laws.append((k, len(sources[i]) + len(sources[j]),
                             "antisymmetry fails: struct_cmp(%s,%s)=%r but struct_cmp(%s,%s)=%r" % (sources[i], sources[j], S[i][j], sources[j], sources[i], S[j][i]),
                             {"kind": "pair", "a": sources[i], "b": sources[j], "observed": S[i][j], "expected": E[i][j]}))
    ntr = 0
    for i in sub:
        Mi = S[i]
        for j in sub:
            if Mi[j] != -1:
                continue
            Mj = S[j]
            for k2 in sub:
                if Mj[k2] == -1:
                    ntr += 1
                    if Mi[k2] != -1:
                        kk = classify(encs[i], encs[k2], Mi[k2]) or classify(encs[i], encs[j], Mi[j]) or classify(encs[j], encs[k2], Mj[k2])
                        laws.append((kk, len(sources[i]) + len(sources[j]) + len(sources[k2]),
                                     "transitivity fails: %s @< %s and %s @< %s but struct_cmp(%s,%s)=%r"
                                     % (sources[i], sources[j], sources[j], sources[k2], sources[i], sources[k2], Mi[k2]),
                                     {"kind": "triple", "a": sources[i], "b": sources[j], "c": sources[k2]}))
    ctx.cov["triples_checked_for_transitivity"] = ntr
    ctx.cov["evaluations"] += ntr
    report(ctx, laws, None)

    # ---- 5. the generated model on the same pairs, and the Python reference against the Coq order
    # (all Coq-side cases are collected and evaluated in one go at the end: coqc start-up dominates small runs)
    hdr = coq_header(encs, model_ok)
    coq_cases = []   # (kind, meta, bool term)
    for i in range(n):
        if model_ok:
            coq_cases.append(("rowimpl", i, "row_impl p%d %s" % (i, zlist([x if isinstance(x, int) else 77 for x in M[i]]))))
        if ctx.tier == "quick" or i % 3 == 0:     # harness reference vs Coq definition: every row in quick, every third in thorough
            coq_cases.append(("rowspec", i, "row_spec p%d %s" % (i, zlist(E[i]))))

    # ---- 6. through the engine: compare/3 (both modes), @<.., ==, \==
    npairs_engine = ctx.n(n * n, 200000)
    allpairs = [(i, j) for i in range(n) for j in range(n)]
    if npairs_engine < len(allpairs):
        allpairs = ctx.rng.sample(allpairs, npairs_engine)
    B = 1500
    batches = [[(sources[i], sources[j]) for (i, j) in allpairs[lo:lo + B]] for lo in range(0, len(allpairs), B)]
    eng_obs = []
    for r in pl.pmap(engine_batch, batches, chunksize=1):
        eng_obs.extend(r)
    found = []
    TOKV = {"'<'": -1, "'='": 0, "'>'": 1}
    ORD = frozenset(["lt", "le", "gt", "ge"])
    for (i, j), ob in zip(allpairs, eng_obs):
        exp = expected_engine(E[i][j])
        ctx.cov["evaluations"] += 1
        if ob[0] == "EXC":
            found.append((None, len(sources[i]) + len(sources[j]), "engine raised %s on comparison builtins of (%s, %s): %s" % (ob[1], sources[i], sources[j], ob[2]),
                          {"kind": "engine-pair", "a": sources[i], "b": sources[j], "observed": list(ob)}))
            continue
        if ob == exp:
            continue
        k = None
        order_obs = (ob[0], ob[1], ob[2] & ORD)
        order_exp = (exp[0], exp[1], exp[2] & ORD)
        if order_obs != order_exp:
            # the order part is wrong: which single comparison value explains it?
            c = TOKV.get(ob[0])
            if c is not None and order_obs == (lambda e: (e[0], e[1], e[2] & ORD))(expected_engine(c)):
                k = classify(encs[i], encs[j], c)
        else:
            # only ==/\== differ from the order: the same atom under two spellings
            if E[i][j] == 0 and "ne" in ob[2] and (quoted_names(encs[i]) or quoted_names(encs[j])):
                k = K_QUO
        found.append((k, len(sources[i]) + len(sources[j]),
                      "compare(O,%s,%s) gave O=%s, compare with given order succeeds for %s, comparison builtins true: %s; "
                      "standard order says O=%s, %s" % (sources[i], sources[j], ob[0], sorted(ob[1]), sorted(ob[2]), exp[0], sorted(exp[2])),
                      {"kind": "engine-pair", "a": sources[i], "b": sources[j], "observed": [ob[0], sorted(ob[1]), sorted(ob[2])],
                       "expected": [exp[0], sorted(exp[1]), sorted(exp[2])]}))
    ctx.cov["pairs_engine"] = len(allpairs)
    ctx.cov["pairs_engine_agree_with_order"] = len(allpairs) - len(found)
    report(ctx, found, None)
    ctx.log("engine: %d pairs, %d disagree with the order" % (len(allpairs), len(found)))
    # model vs engine observations
    sel = list(range(len(allpairs)))
    if len(sel) > ctx.n(6000, 30000):
        sel = sorted(ctx.rng.sample(sel, ctx.n(6000, 30000)))
    for idx in (sel if model_ok else []):
        (i, j), ob = allpairs[idx], eng_obs[idx]
        if ob[0] == "EXC" or ob[0] is None or ob[0] == "MULTI":
            coq_cases.append(("eng", idx, "false"))
            continue
        coq_cases.append(("eng", idx, "eng_ok p%d p%d %s %s %s %s %s %s %s %s %s %s" % (
            i, j, coq_text(ob[0]), *[vf.coq_bool(t in ob[1]) for t in ("lt", "eq", "gt")],
            *[vf.coq_bool(t in ob[2]) for t in ("lt", "le", "gt", "ge", "eq", "ne")])))

    # compare/3 called the usual Prolog way, with an unquoted order atom
    r = engine_batch_plain()
    ctx.cov["evaluations"] += 1
    if r is not True:
        ctx.violation("compare(<, 1, 2) does not succeed: %s (SWI/YAP: true)" % (r,),
                      {"kind": "goal", "program": "q :- compare(<, 1, 2).", "observed": str(r), "expected": "q succeeds"}, klass=K_CMP3)

    # ---- 7. sort/2
    nl = ctx.n(300, 20000)
    lists = []
    small = [s for s in sources if len(s) <= 12]
    for _ in range(nl):
        ln = ctx.rng.choice([0, 1, 2, 2, 3, 4, 5, 6, 8])
        base = ctx.rng.choice([small, INTS, INTS + FLOATS, ATOMS, small])
        xs = [ctx.rng.choice(base) for _ in range(ln)]
        if xs and ctx.rng.random() < 0.3:
            xs.append(ctx.rng.choice(xs))   # duplicate
        lists.append(xs)
    lists[:4] = [["10", "9", "2", "1"], ["b", "a", "'zzz'", "abc"], [], ["1", "1.0", "1"]]
    Bs = 400
    res = []
    for r in pl.pmap(sort_batch, [lists[lo:lo + Bs] for lo in range(0, len(lists), Bs)], chunksize=1):
        res.extend(r)
    index_of = {src: i for i, src in enumerate(sources)}
    enc_index = {}
    for i, e in enumerate(encs):
        enc_index.setdefault(e, i)

    def pref(e):
        return "p%d" % enc_index[e] if e in enc_index else coq_term(e)
    failing = {}   # frozenset of classes of the mis-compared element pairs -> [lists]
    nbad = 0
    for li, (xs, (inp, ob)) in enumerate(zip(lists, res)):
        ctx.case(("sort", tuple(xs)), len(set(xs)) > 1, sample={"sort": xs})
        ctx.count("sort_len_%d" % len(xs))
        if inp is None or ob is None or (isinstance(ob, tuple) and ob and ob[0] == "EXC"):
            nbad += 1
            ctx.violation("sort(%s, L) failed or raised: %r" % ("[" + ",".join(xs) + "]", ob), {"kind": "sort", "list": xs, "observed": repr(ob)}, klass=None)
            continue
        exp = spec_sort(inp)
        if [denote(e) for e in ob] != exp:
            nbad += 1
            ks = set()
            for x in xs:
                for y in xs:
                    i, j = index_of[x], index_of[y]
                    if S[i][j] != E[i][j]:
                        ks.add(classify(encs[i], encs[j], S[i][j]) if isinstance(S[i][j], int) else None)
            failing.setdefault(frozenset(ks), []).append(xs)
        cin = "; ".join(pref(e) for e in inp)
        if model_ok:
            coq_cases.append(("sortm", li, "sort_ok [%s] [%s]" % (cin, "; ".join(pref(e) for e in ob))))
        if ctx.tier == "quick" or li % 3 == 0:
            coq_cases.append(("sorts", li, "sort_spec_ok [%s] [%s]" % (cin, "; ".join(pref(e) for e in exp))))
    ctx.cov["sort_lists"] = len(lists)
    ctx.cov["sort_lists_agree_with_spec"] = len(lists) - nbad
    found = []
    for ks in sorted(failing, key=lambda z: sorted(str(k) for k in z)):
        group = sorted(failing[ks], key=lambda xs: (sum(len(x) for x in xs), xs))
        ctx.count("sort_violating_lists[%s]" % "+".join(sorted(str(k) for k in ks)), len(group))
        # a wrong result although every element pair compares correctly, or an unclassified pair: never suppressed
        for xs in group[:2]:
            small_xs = shrink_list(xs)
            k = classify_sort(small_xs) if (ks and None not in ks) else None
            o, e = show_sort(small_xs)
            found.append((k, sum(len(x) for x in small_xs), "sort([%s], L) gives %s, the standard order says %s" % (",".join(small_xs), o, e),
                          {"kind": "sort", "list": small_xs, "observed": o, "expected": e}))
    report(ctx, found, None)
    ctx.log("sort: %d lists, %d disagree with the spec" % (len(lists), nbad))

    # ---- 8. evaluate the Coq side: generated model vs observations, harness reference vs Coq definitions
    # rows cost ~n struct_cmp evaluations each, the other cases a handful: spread the rows evenly over the shards
    heavy = [c for c in coq_cases if c[0].startswith("row")]
    light = [c for c in coq_cases if not c[0].startswith("row")]
    coq_cases = []
    per = (len(light) // len(heavy) + 1) if heavy else 0
    li = 0
    for h in heavy:
        coq_cases.append(h)
        coq_cases.extend(light[li:li + per])
        li += per
    coq_cases.extend(light[li:])
    terms = [c[2] for c in coq_cases]
    shard = len(terms) if ctx.tier == "quick" else max(50, (len(terms) + 23) // 24)
    try:
        bad = ctx.coq_failing(hdr, terms, name="all", shard=max(1, shard), timeout=3000, jobs=6)
    except RuntimeError as e:
        ctx.broken.append("correspondence:C15 cases do not evaluate in Coq")
        ctx.notes.append(str(e))
        bad = None
    if bad is not None:
        badk = {}
        for b in bad:
            badk.setdefault(coq_cases[b][0], []).append(coq_cases[b][1])
        tot = {}
        for k, _, _ in coq_cases:
            tot[k] = tot.get(k, 0) + 1
        ctx.cov["coq_side"] = {"model_vs_impl_rows(struct_cmp, %d columns each)" % n: "%d/%d agree" % (tot.get("rowimpl", 0) - len(badk.get("rowimpl", [])), tot.get("rowimpl", 0)),
                               "harness_reference_vs_ModelStd_rows": "%d/%d agree" % (tot.get("rowspec", 0) - len(badk.get("rowspec", [])), tot.get("rowspec", 0)),
                               "model_vs_engine_pairs(compare/3 both modes, 6 comparison builtins)": "%d/%d agree" % (tot.get("eng", 0) - len(badk.get("eng", [])), tot.get("eng", 0)),
                               "model_vs_engine_sort_lists": "%d/%d agree" % (tot.get("sortm", 0) - len(badk.get("sortm", [])), tot.get("sortm", 0)),
                               "harness_reference_vs_ModelStd_sort": "%d/%d agree" % (tot.get("sorts", 0) - len(badk.get("sorts", [])), tot.get("sorts", 0))}
        for i in badk.get("rowspec", [])[:3]:
            ctx.broken.append("correspondence:harness reference std_cmp differs from ModelStd.plg_cmp in the row of %s" % sources[i])
        for i in badk.get("rowimpl", [])[:3]:
            cs = ["Z.eqb (struct_cmp fr p%d p%d) (%s)%%Z" % (i, j, M[i][j] if isinstance(M[i][j], int) else 77) for j in range(n)]
            try:
                bj = ctx.coq_failing(hdr, cs, name="rowimpl1", shard=len(cs))
            except RuntimeError:
                bj = []
            for j in bj[:2]:
                ctx.broken.append("correspondence:generated struct_cmp model differs from problog.engine_builtin.struct_cmp on (%s, %s): impl %r"
                                  % (sources[i], sources[j], M[i][j]))
            if not bj:
                ctx.broken.append("correspondence:generated struct_cmp model differs from the implementation in the row of %s" % sources[i])
        for idx in badk.get("eng", [])[:3]:
            (i, j), ob = allpairs[idx], eng_obs[idx]
            ctx.broken.append("correspondence:generated builtin models differ from the engine on (%s, %s): engine %r" % (sources[i], sources[j], ob))
        for li in badk.get("sortm", [])[:3]:
            ctx.broken.append("correspondence:generated sort model differs from sort/2 on [%s]" % ",".join(lists[li]))
        for li in badk.get("sorts", [])[:3]:
            ctx.broken.append("correspondence:harness reference sort differs from ModelStd.plg_sort on [%s]" % ",".join(lists[li]))
        ctx.log("coq side: %d cases, %d bad" % (len(terms), len(bad)))
    if ctx.tier == "thorough" and model_ok:
        ctx.coqchk("PL.C15.Props")


def engine_batch_plain():
    from problog.program import PrologString
    from problog.engine import DefaultEngine
    from problog.logic import Term
    try:
        eng = DefaultEngine()
        db = eng.prepare(PrologString("q :- compare(<, 1, 2)."))
        return True if eng.query(db, Term("q")) else "fails"
    except Exception as e:  # noqa
        return "%s: %s" % (type(e).__name__, str(e)[:160])


def run_sort(xs):
    (inp, ob), = sort_batch([xs])
    return inp, ob


def sort_bad(xs):
    inp, ob = run_sort(xs)
    if inp is None or ob is None or (isinstance(ob, tuple) and ob and ob[0] == "EXC"):
        return False
    return [denote(e) for e in ob] != spec_sort(inp)


def shrink_list(xs):
    xs = list(xs)
    i = 0
    while i < len(xs):
        cand = xs[:i] + xs[i + 1:]
        if cand and sort_bad(cand):
            xs = cand
        else:
            i += 1
    return xs


def show(e):
    if e[0] == "i":
        return str(e[1])
    if e[0] == "f":
        return e[2] if len(e) > 2 else "float"
    if e[0] == "s":
        return e[1]
    return e[1] + ("(" + ",".join(show(x) for x in e[2]) + ")" if e[2] else "")


def show_sort(xs):
    inp, ob = run_sort(xs)
    return "[" + ",".join(show(e) for e in ob) + "]", "[" + ",".join(show(e) for e in spec_sort(inp)) + "]"


def classify_sort(xs):
    """A shrunk list is classified by the pairs of its elements the implementation mis-compares."""
    from problog.engine_builtin import struct_cmp
    objs = parse_pool(xs)
    encs = [enc(o) for o in objs]
    ks = set()
    for i in range(len(xs)):
        for j in range(len(xs)):
            if i != j:
                try:
                    o = struct_cmp(objs[i], objs[j])
                except Exception:  # noqa
                    return None
                o = cmp3(o, 0)
                if o != spec_cmp(encs[i], encs[j]):
                    ks.add(classify(encs[i], encs[j], o))
    if len(ks) == 1:
        return ks.pop()
    return None


def replay(ctx, r):
    kind = r.get("kind")
    if kind in ("pair", "engine-pair"):
        srcs = [r["a"], r["b"]]
        objs = parse_pool(srcs)
        e = [enc(o) for o in objs]
        from problog.engine_builtin import struct_cmp
        obs = struct_cmp(objs[0], objs[1])
        exp = spec_cmp(e[0], e[1])
        eo = engine_batch([(r["a"], r["b"])])[0]
        ctx.case(("pair", r["a"], r["b"]), True)
        if cmp3(obs, 0) != exp or eo != expected_engine(exp):
            ctx.violation("struct_cmp(%s, %s) = %r (engine: %r), standard order says %d" % (r["a"], r["b"], obs, eo, exp),
                          {"kind": "pair", "a": r["a"], "b": r["b"], "observed": obs, "expected": exp}, klass=classify(e[0], e[1], cmp3(obs, 0)))
    elif kind == "sort":
        xs = r["list"]
        ctx.case(("sort", tuple(xs)), True)
        if sort_bad(xs):
            o, e = show_sort(xs)
            ctx.violation("sort([%s], L) gives %s, the standard order says %s" % (",".join(xs), o, e),
                          {"kind": "sort", "list": xs, "observed": o, "expected": e}, klass=classify_sort(xs))
    elif kind == "triple":
        srcs = [r["a"], r["b"], r["c"]]
        objs = parse_pool(srcs)
        e = [enc(o) for o in objs]
        from problog.engine_builtin import struct_cmp
        ab, bc, ac = (cmp3(struct_cmp(objs[i], objs[j]), 0) for i, j in ((0, 1), (1, 2), (0, 2)))
        ctx.case(("triple",) + tuple(srcs), True)
        if ab == -1 and bc == -1 and ac != -1:
            k = classify(e[0], e[2], ac) or classify(e[0], e[1], ab) or classify(e[1], e[2], bc)
            ctx.violation("transitivity fails: %s @< %s and %s @< %s but struct_cmp(%s,%s)=%r" % (srcs[0], srcs[1], srcs[1], srcs[2], srcs[0], srcs[2], ac),
                          {"kind": "triple", "a": srcs[0], "b": srcs[1], "c": srcs[2]}, klass=k)
    elif kind == "goal":
        rr = engine_batch_plain()
        ctx.case(("goal",), True)
        if rr is not True:
            ctx.violation("compare(<, 1, 2) does not succeed: %s" % (rr,), r, klass=K_CMP3)
    else:
        ctx.notes.append("replay kind %r not understood" % kind)
