"""C30 — invalid probability annotations are rejected (evaluator.py value/in_domain, constraint.py
ConstraintAD.update_weights, formula.py extract_weights)."""
import importlib.util
import math
import os
from fractions import Fraction

import pl
import vf

META = {
    "id": "C30",
    "level": "proof",
    "technique": "fail-closed Python-ast -> Gallina translation of the semiring value/in_domain methods, of "
                 "ConstraintAD.update_weights and of extract_weights (regenerated every run) + Coq proofs over the reals of "
                 "the exact raise conditions + differential correspondence (vm_compute over exact rationals) on real ground "
                 "formulas + whole-pipeline runs of generated programs with both semirings",
    "design_ref": "DESIGN.md §5 C30",
    "text": "Theorems: value raises iff v < -1e-9 or v > 1+1e-9 (both semirings); a non-trivial AD group raises iff its sum "
            "is > 1+1e-9 (probability; also < -1e-9) resp. > exp(1e-12) (log); extract_weights sends every weight through "
            "pos_value/neg_value and every group through update_weights.  Tie: the generated extract_weights/update_weights "
            "are evaluated by Coq on the atoms/constraints of real ground formulas and compared with the implementation; "
            "generated programs (probabilities inside/on/outside [0,1], arithmetic expressions, AD sums around 1) are run "
            "through the default pipeline with both semirings and must raise InvalidValue iff the theorems say so.",
    "note": "Trusted: Coq kernel + vm_compute; stdlib real-number axioms; translators gen/c12_semiring.py and "
            "gen/c30_constraint.py (unverified, fail-closed); floats idealised to reals (inputs within 1e-14 of a "
            "threshold are not compared).",
}

K_PARTIAL = "ad-heads-not-all-grounded-sum-unchecked"
K_PARTIAL_VALUE = "ad-head-not-grounded-value-unchecked"

HEADER = """From Coq Require Import ZArith QArith String List Bool.
From PL.C12 Require Import ModelPy GenSemirings.
From PL.C30 Require Import ModelAD GenConstraint.
Import ListNotations.
Local Open Scope Z_scope.
"""

T9 = Fraction(1, 10 ** 9)
T12 = Fraction(1, 10 ** 12)
EPS = Fraction(1, 10 ** 14)


def _load(name):
    path = os.path.join(vf.VERIF, "gen", name + ".py")
    spec = importlib.util.spec_from_file_location(name, path)
    mod = importlib.util.module_from_spec(spec)
    spec.loader.exec_module(mod)
    return mod


def generate(ctx):
    text, _ = _load("c12_semiring").translate(vf.REPO)
    ctx.generate("C12/GenSemirings.v", text)
    ctx.generate("C30/GenConstraint.v", _load("c30_constraint").translate(vf.REPO))


def qv(x):
    x = float(x)
    if math.isnan(x):
        return "(@FNaN QEops)"
    if x == math.inf:
        return "(@FPInf QEops)"
    if x == -math.inf:
        return "(@FNInf QEops)"
    n, d = x.as_integer_ratio()
    return "(qlit (%d)%%Z %d%%positive)" % (n, d)


def near(x, thresholds):
    return any(abs(Fraction(x) - t) <= EPS for t in thresholds)


FACT_T = [-T9, 1 + T9, 1 + T12, T9, Fraction(0), Fraction(1)]


# ------------------------------------------------------------------ theorem-level predictions (exact rationals)
def predict(facts, groups, semiring):
    """facts: list of float probabilities of grounded probabilistic atoms (incl. AD heads);
    groups: lists of the float probabilities of the GROUNDED heads of each AD (len >= 2 to be checked).
    -> True (InvalidValue), False (accepted), None (within 1e-14 of a threshold: not compared)."""
    verdict = False
    for p in facts:
        fp = Fraction(p)
        if near(p, [-T9, 1 + T9] if semiring == "prob" else [-T9, 1 + T12, 1 + T9]):
            return None
        if semiring == "prob":
            if fp < -T9 or fp > 1 + T9:
                verdict = True
        else:
            # C30_fact_log: accepted exactly on [-1e-9, exp(1e-12)], and 1+1e-12 < exp(1e-12) < 1+1e-12+1e-23
            if fp < -T9 or fp > 1 + T12:
                verdict = True
    for g in groups:
        if len(g) < 2:
            continue
        if semiring == "prob":
            s = sum(Fraction(p) for p in g)
            if abs(s - (1 + T9)) <= EPS or abs(s + T9) <= EPS:
                return None
            if s > 1 + T9 or s < -T9:
                verdict = True
        else:
            if any(near(p, [T9]) for p in g):
                return None
            s = sum(Fraction(p) for p in g if Fraction(p) >= T9)     # value() maps p < 1e-9 to probability 0
            if abs(s - (1 + T12)) <= EPS:
                return None
            if s > 1 + T12:
                verdict = True
    return verdict


# ------------------------------------------------------------------ (a) ConstraintAD.update_weights directly
def tie_update_weights(ctx, n, model_ok=True):
    from problog.constraint import ConstraintAD
    from problog.evaluator import SemiringProbability, SemiringLogProbability
    from problog.errors import InvalidValue
    rng = ctx.rng
    terms, metas = [], []
    sums = [0.2, 0.9, 1.0, 1.0 + 1e-10, 1.0 + 5e-10, 1.0 + 2e-9, 1.0 + 1e-8, 1.1, 1.4, 2.5, 1.0 - 1e-10, 1.0 + 2e-12, 1.0 + 5e-13]
    for _ in range(n):
        k = rng.choice([0, 1, 2, 2, 3, 3, 4])
        nodes = rng.sample(range(1, 12), k)
        extra = 20
        target = rng.choice(sums)
        raw = [rng.random() + 0.05 for _ in nodes]
        tot = sum(raw) or 1.0
        ps = [target * r / tot for r in raw]
        if rng.random() < 0.15 and ps:
            ps[0] = rng.choice([0.0, 1e-10, -1e-9 * rng.random()])
        weights = {}
        for nd, p in zip(nodes, ps):
            if rng.random() < 0.1:
                continue          # missing from the dictionary: default (one, one)
            weights[nd] = (p, 1.0 - p)
        for other in rng.sample(range(12, 16), rng.randrange(0, 3)):
            weights[other] = (rng.random(), rng.random())
        # --- probability semiring: implementation vs Coq evaluation of the generated definition
        c = ConstraintAD((0, ()))
        c.nodes = set(nodes)
        c.extra_node = extra
        w_impl = dict(weights)
        try:
            c.update_weights(w_impl, SemiringProbability())
            impl = ("ok", w_impl)
        except InvalidValue:
            impl = ("raise", "InvalidValue")
        except Exception as e:  # noqa
            impl = ("raise", type(e).__name__)
        eff = [weights.get(nd, (1.0, 1.0))[0] for nd in nodes]
        pred = predict([], [eff], "prob")
        ctx.case(("uw", tuple(nodes), tuple(sorted(weights.items()))), len(nodes) >= 2,
                 sample={"nodes": nodes, "weights": {str(k_): v for k_, v in weights.items()}, "impl": impl[0] if impl[0] == "raise" else "ok"})
        ctx.count("update_weights: %d nodes" % len(nodes))
        ctx.count("update_weights impl " + (impl[1] if impl[0] == "raise" else "ok"))
        if impl[0] == "raise" and impl[1] != "InvalidValue":
            ctx.violation("ConstraintAD.update_weights raised %s on nodes=%r weights=%r" % (impl[1], nodes, weights),
                          {"nodes": nodes, "weights": {str(k_): v for k_, v in weights.items()}}, klass=None)
            continue
        if pred is not None and (impl[0] == "raise") != pred:
            # the property-level judge: sum > 1+1e-9 must raise, sum <= 1 must not
            s = sum(Fraction(p) for p in eff)
            if (s > 1 + T9 and impl[0] == "ok") or (0 <= s <= 1 and impl[0] == "raise" and all(p >= 0 for p in eff)):
                ctx.violation("update_weights with head weights %r (sum %s): %s" % (eff, float(s), impl[0]),
                              {"nodes": nodes, "weights": {str(k_): v for k_, v in weights.items()}, "sum": str(s)}, klass=None)
            elif model_ok:
                ctx.broken.append("correspondence:C30_ad_sum_prob predicts %s but update_weights %s on %r" % (pred, impl[0], eff))
        if near(sum(eff), [1 + T9, -T9]):
            ctx.count("update_weights: sum within 1e-14 of a threshold (not compared)")
            continue
        wl = vf.coq_list(["(%d, (%s, %s))" % (k_, qv(v[0]), qv(v[1])) for k_, v in sorted(weights.items())])
        call = "(ad_update_weights (prob_sr QEops) %s %d %s)" % (vf.coq_list(["%d" % x for x in sorted(nodes)]), extra, wl)
        if impl[0] == "raise":
            exp = "None"
        else:
            exp = "(Some %s)" % vf.coq_list(["(%d, (%s, %s))" % (k_, qv(v[0]), qv(v[1])) for k_, v in sorted(impl[1].items())])
        terms.append("res_dict_close (1 # 1000000000000) %s %s" % (call, exp))
        metas.append((nodes, weights, impl[0]))
        # --- log semiring: theorem-level prediction only (nested ln/exp comparisons are not decidable by the Q evaluator)
        L = SemiringLogProbability()
        try:
            wl_ = {k_: (math.log(v[0]) if v[0] > 0 else -math.inf, 0.0) for k_, v in weights.items() if k_ in nodes}
        except ValueError:
            continue
        if any(p < 0 for p in eff):
            continue
        c2 = ConstraintAD((0, ()))
        c2.nodes = set(nodes)
        c2.extra_node = extra
        try:
            c2.update_weights(wl_, L)
            impl_l = "ok"
        except InvalidValue:
            impl_l = "raise"
        eff_l = [weights[nd][0] if nd in weights else 1.0 for nd in nodes]
        s = sum(Fraction(p) for p in eff_l)
        if len(nodes) >= 2 and abs(s - (1 + T12)) > EPS:
            pred_l = s > 1 + T12
            ctx.count("update_weights log " + impl_l)
            if pred_l != (impl_l == "raise"):
                if (s > 1 + T9 and impl_l == "ok") or (s <= 1 and impl_l == "raise"):
                    ctx.violation("log update_weights with head probabilities %r (sum %s): %s" % (eff_l, float(s), impl_l),
                                  {"nodes": nodes, "probs": eff_l}, klass=None)
                elif model_ok:
                    ctx.broken.append("correspondence:C30_ad_sum_log predicts raise=%s but update_weights %s on %r" % (pred_l, impl_l, eff_l))
    if not model_ok:
        return
    try:
        bad = ctx.coq_failing(HEADER, terms, name="uw")
    except RuntimeError as e:
        ctx.broken.append("correspondence:ad_update_weights model does not evaluate")
        ctx.notes.append(str(e)[-2000:])
        return
    ctx.cov["update_weights_model_vs_impl_agree"] = len(terms) - len(bad)
    for i in bad[:5]:
        ctx.broken.append("correspondence:GenConstraint ad_update_weights vs ConstraintAD.update_weights on nodes=%r weights=%r (impl %s)" % metas[i])


# ------------------------------------------------------------------ program generator
def fmt(p):
    """probability annotation text whose float value is exactly float(text)"""
    s = repr(float(p))
    if "e" in s or "E" in s:
        s = "%.20f" % p
        s = s.rstrip("0")
        if s.endswith("."):
            s += "0"
    if s.startswith("-"):
        s = "(%s)" % s
    return s


INSIDE = [0.0, 1.0, 0.5, 0.25, 0.3, 0.7, 0.125, 0.9, 0.05, 1e-10, 1e-8, 0.999999999, 1 - 1e-12]
BAND = [1.0 + 5e-10, 1.0 + 5e-13, 1.0 + 2e-12, 1.0 + 9e-10, -5e-10, -1e-12]
OUTSIDE = [1.5, 2.0, -0.1, -1.0, 1.0 + 2e-9, 1.0 + 1e-8, -2e-9, -1e-8, 1.0000001, 17.0, -0.5, 1.01]
EXPRS = [("(1/3)", 1 / 3), ("(0.5+0.7)", 0.5 + 0.7), ("(2*0.6)", 2 * 0.6), ("(1-1.5)", 1 - 1.5), ("(0.2+0.3)", 0.2 + 0.3),
         ("(3/2)", 3 / 2), ("(0.5*0.5)", 0.25), ("(1-0.25)", 0.75), ("(0-0.25)", -0.25), ("(10/4)", 2.5)]
AD_SUMS = [0.5, 0.9, 1.0, 1.0 - 1e-10, 1.0 + 5e-10, 1.0 + 5e-13, 1.0 + 2e-12, 1.0 + 2e-9, 1.0 + 1e-8, 1.1, 1.4, 2.0]


def gen_program(rng):
    """-> dict(src, facts=[p of every grounded probabilistic atom], groups=[[p of grounded heads]],
               declared=[[p of all heads]], partial=bool, kinds=set)"""
    lines, queries, facts, groups, declared, kinds = [], [], [], [], [], set()
    nf = rng.randrange(0, 4)
    for i in range(nf):
        k = rng.random()
        if k < 0.45:
            p = rng.choice(INSIDE) if rng.random() < 0.6 else round(rng.random(), rng.choice([2, 6, 12]))
            txt, kind = fmt(p), "fact-inside"
        elif k < 0.6:
            p = rng.choice(BAND)
            txt, kind = fmt(p), "fact-band"
        elif k < 0.85:
            p = rng.choice(OUTSIDE)
            txt, kind = fmt(p), "fact-outside"
        else:
            txt, p = rng.choice(EXPRS)
            kind = "fact-expr-" + ("inside" if 0 <= p <= 1 else "outside")
        kinds.add(kind)
        lines.append("%s::f%d." % (txt, i))
        facts.append(float(txt.strip("()")) if kind[5:9] != "expr" else p)
        queries.append("f%d" % i)
    nad = rng.randrange(0, 3) if nf else rng.randrange(1, 3)
    partial = False
    for j in range(nad):
        nh = rng.choice([2, 2, 3, 4])
        target = rng.choice(AD_SUMS)
        raw = [rng.random() + 0.1 for _ in range(nh)]
        tot = sum(raw)
        ps = [float(fmt(target * r / tot).strip("()")) for r in raw]
        if rng.random() < 0.2:
            ps = [rng.choice([0.5, 0.25, 0.7, 0.3, 0.6, 0.5 + 5e-10]) for _ in range(nh)]
        if rng.random() < 0.08:
            ps[rng.randrange(nh)] = rng.choice(OUTSIDE)
        heads = ["a%d_%d" % (j, h) for h in range(nh)]
        body = ""
        if nf and rng.random() < 0.3:
            body = " :- f%d" % rng.randrange(nf)
        lines.append("; ".join("%s::%s" % (fmt(p), h) for p, h in zip(ps, heads)) + body + ".")
        declared.append(ps)
        if rng.random() < 0.25:
            sel = sorted(rng.sample(range(nh), rng.randrange(1, nh)))
            partial = True
        else:
            sel = list(range(nh))
        grounded = [ps[h] for h in sel]
        groups.append(grounded)
        facts += grounded
        for h in sel:
            queries.append(heads[h])
        s = sum(Fraction(p) for p in ps)
        kinds.add("ad-sum-" + ("over" if s > 1 + T9 else "band" if s > 1 else "ok"))
        if body:
            kinds.add("ad-with-body")
    if partial:
        kinds.add("ad-partially-queried")
    lines += ["query(%s)." % q for q in queries]
    return {"src": "\n".join(lines), "facts": facts, "groups": groups, "declared": declared, "partial": partial, "kinds": kinds}


def run_program(job):
    """module-level for pmap: runs the real pipeline with both semirings + the direct extract_weights observation"""
    src = job
    from problog.evaluator import SemiringProbability, SemiringLogProbability
    from problog.program import PrologString
    from problog.formula import LogicFormula
    from problog.engine import DefaultEngine
    from problog.constraint import ConstraintAD
    from problog.errors import InvalidValue
    out = {"prob": pl.evaluate(src, semiring=SemiringProbability()),
           "log": pl.evaluate(src, semiring=SemiringLogProbability()),
           "default": pl.evaluate(src)}
    try:
        eng = DefaultEngine()
        db = eng.prepare(PrologString(src))
        lf = LogicFormula.create_from(db, engine=eng)
        atoms = []
        for key, w in lf.get_weights().items():
            if w is True:
                atoms.append((key, "neutral"))
            elif w is False:
                atoms.append((key, "false"))
            elif w is None:
                atoms.append((key, "none"))
            else:
                atoms.append((key, float(w)))
        cs = []
        for c in lf.constraints():
            if isinstance(c, ConstraintAD):
                cs.append((sorted(c.nodes), c.extra_node if c.extra_node is not None else 0))
        ew = {}
        for name, sr in (("prob", SemiringProbability()), ("log", SemiringLogProbability())):
            try:
                ew[name] = ("ok", sorted(lf.extract_weights(sr).items()))
            except InvalidValue:
                ew[name] = ("raise", "InvalidValue")
            except Exception as e:  # noqa
                ew[name] = ("raise", type(e).__name__)
        out["formula"] = {"atoms": atoms, "constraints": cs, "extract": ew}
    except Exception as e:  # noqa
        out["formula"] = {"error": type(e).__name__}
    return out


def wt_term(w):
    if w == "neutral":
        return "WNeutral"
    if w == "false":
        return "WFalse"
    if w == "none":
        return "WNone"
    return "(WVal %s)" % qv(w)


def minimise(prog_src, still_bad):
    lines = prog_src.split("\n")
    i = 0
    while i < len(lines):
        cand = lines[:i] + lines[i + 1:]
        if cand and still_bad("\n".join(cand)):
            lines = cand
        else:
            i += 1
    return "\n".join(lines)


def run_programs(ctx, n, model_ok=True):
    from problog.evaluator import SemiringProbability, SemiringLogProbability
    progs = [gen_program(ctx.rng) for _ in range(n)]
    # fixed witnesses first (corpus of the design document)
    fixed = [
        {"src": "(-1.0)::a; 0.5::b.\nquery(b).", "facts": [0.5], "groups": [[0.5]], "declared": [[-1.0, 0.5]], "partial": True, "kinds": {"ad-partially-queried"}},
        {"src": "0.6::a; 0.7::b.\nquery(a).\nquery(b).", "facts": [0.6, 0.7], "groups": [[0.6, 0.7]], "declared": [[0.6, 0.7]], "partial": False, "kinds": {"ad-sum-over"}},
        {"src": "0.7::a; 0.7::b.\nquery(a).\nquery(b).", "facts": [0.7, 0.7], "groups": [[0.7, 0.7]], "declared": [[0.7, 0.7]], "partial": False, "kinds": {"ad-sum-over"}},
        {"src": "0.7::a; 0.7::b.\nquery(a).", "facts": [0.7], "groups": [[0.7]], "declared": [[0.7, 0.7]], "partial": True, "kinds": {"ad-sum-over", "ad-partially-queried"}},
        {"src": "1.5::a.\nquery(a).", "facts": [1.5], "groups": [], "declared": [], "partial": False, "kinds": {"fact-outside"}},
        {"src": "(0.5+0.7)::a.\nquery(a).", "facts": [1.2], "groups": [], "declared": [], "partial": False, "kinds": {"fact-expr-outside"}},
        {"src": "0.5::a; 0.5::b.\nquery(a).\nquery(b).", "facts": [0.5, 0.5], "groups": [[0.5, 0.5]], "declared": [[0.5, 0.5]], "partial": False, "kinds": {"ad-sum-ok"}},
    ]
    progs = fixed + progs
    results = pl.pmap(run_program, [p["src"] for p in progs], jobs=8)
    terms, metas = [], []
    for p, r in zip(progs, results):
        for k in p["kinds"]:
            ctx.count(k)
        nontrivial = bool(p["facts"]) and (any(not (0 <= x <= 1) for x in p["facts"]) or any(len(g) >= 2 for g in p["groups"]))
        ctx.case(p["src"], nontrivial, sample={"program": p["src"], "prob": repr(r["prob"])[:80], "log": repr(r["log"])[:80]})
        for sr in ("prob", "log", "default"):
            obs = r[sr]
            srm = "log" if sr == "default" else sr
            ctx.count("%s: %s" % (sr, obs[1] if obs[0] == "err" else "ok"))
            if obs[0] == "err" and obs[1] == "Timeout":
                # machine load: retry alone with a generous limit before judging
                sem = {"prob": SemiringProbability(), "log": SemiringLogProbability(), "default": None}[sr]
                obs = pl.evaluate(p["src"], semiring=sem, timeout=180)
                ctx.count("retried after timeout")
                if obs[0] == "err" and obs[1] == "Timeout":
                    ctx.count("timeout after retry (not judged)")
                    ctx.notes.append("timeout (180 s) on program: " + p["src"])
                    continue
            if obs[0] == "err" and obs[1] != "InvalidValue":
                ctx.violation("program raises %s instead of InvalidValue / numbers (%s semiring):\n%s" % (obs[1], sr, p["src"]),
                              {"program": p["src"], "semiring": sr, "observed": obs[1]}, klass=None)
                continue
            raised = obs[0] == "err"
            # what was actually grounded (from the real ground formula when available)
            f = r.get("formula", {})
            if "atoms" in f:
                wmap = dict(f["atoms"])
                g_facts = [w for _, w in f["atoms"] if isinstance(w, float)]
                g_groups = [[wmap[nd] if isinstance(wmap.get(nd), float) else 1.0 for nd in nodes] for nodes, _ in f["constraints"]]
            else:
                g_facts, g_groups = p["facts"], p["groups"]
            # ---- property-level judge (the statement of C30, tolerance bands excluded)
            decl_over = any(sum(Fraction(x) for x in d) > 1 + T9 for d in p["declared"])
            fact_out = any(Fraction(x) < -T9 or Fraction(x) > 1 + T9 for x in p["facts"])
            all_valid = all(0 <= x <= 1 for x in p["facts"]) and all(sum(Fraction(x) for x in d) <= 1 for d in p["declared"]) \
                and all(0 <= x <= 1 for d in p["declared"] for x in d)
            decl_out = any(Fraction(x) < -T9 or Fraction(x) > 1 + T9 for d in p["declared"] for x in d)
            must_raise = decl_over or fact_out or decl_out
            if must_raise and not raised:
                grounded_over = any(len(g) >= 2 and sum(Fraction(x) for x in g) > 1 + T9 for g in g_groups)
                grounded_out = any(Fraction(x) < -T9 or Fraction(x) > 1 + T9 for x in g_facts)
                klass = None
                # narrow class: the only offence is an AD whose declared sum exceeds 1 while fewer than all of
                # its heads are in the ground program (so no group with >= 2 nodes exceeds 1 and no grounded value is out of range)
                if decl_over and not grounded_out and not grounded_over:
                    klass = K_PARTIAL
                elif decl_out and not grounded_out and not grounded_over:
                    # the only out-of-range value sits on an AD head that is not in the ground program
                    klass = K_PARTIAL_VALUE
                ctx.violation("invalid annotation accepted (%s semiring), answers %r:\n%s" % (sr, obs[1], p["src"]),
                              {"program": p["src"], "semiring": sr, "observed": obs[1], "declared": p["declared"], "grounded_groups": g_groups},
                              klass=klass)
            elif all_valid and raised:
                ctx.violation("valid program rejected with InvalidValue (%s semiring):\n%s" % (sr, p["src"]),
                              {"program": p["src"], "semiring": sr}, klass=None)
            # ---- theorem-level prediction on the GROUNDED program: InvalidValue iff the model says so
            pred = predict(g_facts, g_groups, srm)
            if pred is None:
                ctx.count("prediction skipped: value within 1e-14 of a threshold")
            elif pred != raised and model_ok:
                ctx.broken.append("correspondence:theorems predict raise=%s, pipeline (%s) %s on program %r"
                                  % (pred, sr, "raises" if raised else "answers", p["src"]))
        # ---- generated extract_weights evaluated by Coq on the real formula's atoms and constraints
        f = r.get("formula", {})
        if "atoms" not in f:
            ctx.count("formula not built: %s" % f.get("error"))
            continue
        atoms_t = vf.coq_list(["(%d, %s)" % (k, wt_term(w)) for k, w in f["atoms"]])
        cs_t = vf.coq_list(["(%s, %d)" % (vf.coq_list(["%d" % x for x in nodes]), extra) for nodes, extra in f["constraints"]])
        floats = [w for _, w in f["atoms"] if isinstance(w, float)]
        if any(near(w, [-T9, 1 + T9]) for w in floats):
            continue
        sums = [sum(Fraction(dict(f["atoms"]).get(nd, 1.0)) for nd in nodes if isinstance(dict(f["atoms"]).get(nd, 1.0), float))
                for nodes, _ in f["constraints"] if len(nodes) >= 2]
        if any(abs(s - (1 + T9)) <= EPS for s in sums):
            continue
        ew = f["extract"]["prob"]
        if ew[0] == "ok":
            exp = "(Some %s)" % vf.coq_list(["(%d, (%s, %s))" % (k, qv(v[0]), qv(v[1])) for k, v in ew[1]])
        elif ew[1] == "InvalidValue":
            exp = "None"
        else:
            ctx.violation("extract_weights raised %s on\n%s" % (ew[1], p["src"]), {"program": p["src"]}, klass=None)
            continue
        terms.append("res_dict_close (1 # 1000000000000) (extract_weights (prob_sr QEops) %s %s) %s" % (atoms_t, cs_t, exp))
        metas.append((p["src"], "prob", ew[0]))
        # log: status only, and only when no non-trivial group is present (nested ln/exp comparisons)
        if not any(len(nodes) >= 2 for nodes, _ in f["constraints"]) and not any(near(w, [1 + T12, T9]) for w in floats):
            el = f["extract"]["log"]
            code = 0 if el[0] == "ok" else {"InvalidValue": 20, "ValueError": 23}.get(el[1], 99)
            terms.append("Z.eqb (res_status (extract_weights (log_sr QEops) %s %s)) %d" % (atoms_t, cs_t, code))
            metas.append((p["src"], "log", el[0]))
    if not model_ok:
        return
    try:
        bad = ctx.coq_failing(HEADER, terms, name="ew")
    except RuntimeError as e:
        ctx.broken.append("correspondence:extract_weights model does not evaluate")
        ctx.notes.append(str(e)[-2000:])
        return
    ctx.cov["extract_weights_model_vs_impl_agree"] = len(terms) - len(bad)
    for i in bad[:5]:
        ctx.broken.append("correspondence:GenConstraint extract_weights (%s) vs LogicFormula.extract_weights (impl %s) on program %r"
                          % (metas[i][1], metas[i][2], metas[i][0]))


def run(ctx):
    ctx.cov["rule"] = ("programs: 0-3 probabilistic facts (inside [0,1] incl. 0, 1, 1e-10; tolerance band; outside; arithmetic "
                       "expressions) + 0-2 annotated disjunctions with 2-4 heads, sums drawn around 1 (0.5 .. 2.0 incl. 1+-1e-10, "
                       "1+5e-13, 1+2e-12, 1+2e-9), optional bodies, every head queried or (25%) a strict subset; each program "
                       "is run with the probability, the log and the default semiring; non-trivial = an out-of-range value or a "
                       "group with >= 2 grounded heads.  update_weights is additionally driven directly on random node sets / "
                       "weight dictionaries with sums around 1.")
    ctx.assumptions += [
        "floats idealised to reals: programs with a probability or an AD sum within 1e-14 of a threshold are not compared with the prediction",
        "float(a) of an annotation is what the model receives (arithmetic expressions are evaluated by ProbLog's Term.__float__)",
        "a probabilistic fact that is never grounded (irrelevant to every query) is outside the checked statement",
        "self.nodes (a set) is modelled as a list; over the reals the sum does not depend on the order",
    ]
    ok = False
    try:
        generate(ctx)
        ctx.log("translated; building proof cone")
        ok = ctx.prove("C30/Props.v")
        ok = ctx.prove("C30/PropsExtra.v") and ok
    except Exception as e:  # noqa  (a translator fails closed on unknown syntax: an obligation is broken, the judges still run)
        ctx.cov["obligations"] = max(ctx.cov["obligations"], 1)
        ctx.broken.append("translator:cannot translate the current sources (%s: %s)" % (type(e).__name__, str(e)[:300]))
    ctx.log("Props.v:", "ok" if ok else "BROKEN")
    if ok and ctx.tier == "thorough":
        ctx.coqchk("PL.C30.Props")
        ctx.log("coqchk done")
    if ok:
        with open(os.path.join(vf.THEORIES, "C30", "Findings.v")) as f:
            rc, out = ctx.coq_run(f.read(), "Findings")
        ctx.cov["findings_witness_partial_group"] = "checks on the generated model" if rc == 0 else "no longer checks"
    # the implementation-side runs and the property-level judge do not depend on the Coq side:
    # with a broken model they still search for a concrete failing input
    ctx.log("programs")
    run_programs(ctx, ctx.n(250, 5000), model_ok=ok)
    ctx.log("update_weights tie")
    tie_update_weights(ctx, ctx.n(300, 5000), model_ok=ok)
