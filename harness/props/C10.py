"""C10 — compiled d-DNNF is a valid, equivalent circuit (problog/ddnnf_formula.py).

Verified-validator pattern: the Coq function `check_ddnnf` (coq/theories/C10) is proved sound
for every circuit and CNF (no size bound); here it is extracted and run on every circuit the real
`DDNNF.create_from(CNF)` (bundled dsharp + `_load_nnf`, or the trivial-CNF path) returns for
generated programs and generated CNFs.  The real SimpleDDNNFEvaluator's numbers are compared with the
model's exact rational evaluation of the dumped circuit and with the Coq-defined weighted model
count of the CNF."""
import os
import sys
from concurrent.futures import ThreadPoolExecutor
from fractions import Fraction

import vf
import pl

sys.path.insert(0, os.path.join(vf.VERIF, "gen"))
import c10_gen  # noqa: E402

META = {
    "id": "C10",
    "level": "translation_validation",
    "technique": "verified validator: Coq-proved sound d-DNNF checker (decomposable, deterministic, smooth, covers all "
                 "variables, equivalent to the CNF) extracted to OCaml and run on every compiled circuit; Coq theorem "
                 "eval_is_wmc (abstract commutative semiring) for what SimpleDDNNFEvaluator relies on; differential "
                 "comparison of the real evaluator with the model's exact evaluation",
    "design_ref": "DESIGN.md §5 C10",
    "text": "check_ddnnf soundness and eval_is_wmc are theorems without size bound; the instances checked are the "
            "circuits dsharp/_load_nnf produce for generated programs and CNFs (sampled)."
            " C10_labels_sound: every name->key label accepted by the model of _load_nnf's labelling rule denotes the same CNF literal in the compiled circuit (all cases).",
    "note": "Trusted: Coq kernel, extraction (ExtrOcamlBasic) + gen/c10_driver.ml, the Python dump of DDNNF objects "
            "(nodes, names, weights, constraints) and the DIMACS parser in this file.",
}

NMAX = 12
TOL = 1e-9

EXTRACT_V = """From Coq Require Import Extraction ExtrOcamlBasic.
From PL.C10 Require Import ModelCircuit ModelOracle.
Extraction "oracle.ml" o_all o_wf o_struct o_cover o_det o_equiv o_eval o_wmc o_label mkq qc_num qc_den
  zmul10add zdivmod10 zneg zis0 zisneg ztopos zofpos zdigit zsmall.
"""


# ------------------------------------------------------------------ running the implementation
def build_cnf(spec):
    from problog.cnf_formula import CNF
    from problog.logic import Term, Constant
    c = CNF()
    for i in range(1, spec["n"] + 1):
        c.add_atom(i)
    for cl in spec["clauses"]:
        c.add_clause(cl[0], cl[1:])
    c.set_weights({int(k): Constant(float(v)) for k, v in spec["weights"].items()})
    for nm, key, label in spec["names"]:
        c.add_name(Term(nm), key, label)
    return c


def parse_dimacs(text):
    n = None
    clauses = []
    for line in text.split("\n"):
        line = line.strip()
        if not line or line.startswith("c"):
            continue
        if line.startswith("p"):
            parts = line.split()
            assert parts[1] == "cnf", line
            n = int(parts[2])
            continue
        toks = [int(t) for t in line.split()]     # raises on anything that is not an integer
        assert toks[-1] == 0 and 0 not in toks[:-1], line
        clauses.append(toks[:-1])
    assert n is not None
    return n, clauses


def _key(k):
    return k if (k is None or isinstance(k, int)) else repr(k)


def compile_case(case):
    """Worker: run the real pipeline on one case and dump everything observable."""
    kind, payload = case
    out = {"kind": kind, "input": payload}
    from problog.program import PrologString
    from problog.formula import LogicFormula, LogicDAG
    from problog.cnf_formula import CNF
    from problog.ddnnf_formula import DDNNF
    from problog.constraint import ConstraintAD
    from problog.evaluator import SemiringProbability
    try:
        if kind == "prog":
            def front():
                lf = LogicFormula.create_from(PrologString(payload))
                dag = LogicDAG.create_from(lf)
                return CNF.create_from(dag)
            cnf = pl.with_timeout(front, 180)
        else:
            cnf = build_cnf(payload)
    except BaseException as e:  # noqa  (front end is not C10's subject)
        if isinstance(e, (KeyboardInterrupt, SystemExit)):
            raise
        out["frontend_error"] = pl.err_class(e)
        return out
    if cnf.atomcount > NMAX:
        out["skipped"] = "more than %d CNF variables" % NMAX
        return out
    try:
        n, clauses = parse_dimacs(cnf.to_dimacs())
    except BaseException as e:  # noqa
        out["harness_error"] = "dimacs: %r" % (e,)
        return out
    out["n"] = n
    out["atomcount"] = cnf.atomcount
    out["clauses"] = clauses
    out["trivial"] = bool(cnf.is_trivial())
    out["cnf_names"] = [(str(nm), _key(k), lab) for nm, k, lab in cnf.get_names_with_label()]
    out["cnf_weights"] = {int(k): str(v) for k, v in cnf.get_weights().items()}
    ads = []
    other_constraints = 0
    for c in cnf.constraints():
        if isinstance(c, ConstraintAD):
            ads.append((sorted(c.nodes), c.extra_node))
        else:
            other_constraints += 1
    out["cnf_ads"] = ads
    out["other_constraints"] = other_constraints
    try:
        nnf = pl.with_timeout(DDNNF.create_from, 180, cnf)
    except BaseException as e:  # noqa
        if isinstance(e, (KeyboardInterrupt, SystemExit)):
            raise
        out["compile_error"] = "%s: %r" % (pl.err_class(e), e)
        return out
    nodes = []
    idents = {}
    bad = None
    for i, node, t in nnf:
        if t == "atom":
            nodes.append(("A", node.identifier))
            idents[i] = node.identifier
            if not isinstance(node.identifier, int):
                bad = "atom identifier %r is not a CNF variable" % (node.identifier,)
        else:
            ch = []
            for c in node.children:
                if c == 0 and c is not None and not isinstance(c, bool):
                    ch.append(("T",))
                elif c is None:
                    ch.append(("F",))
                elif c > 0:
                    ch.append(("P", c - 1))
                else:
                    ch.append(("N", -c - 1))
            nodes.append(("C" if t == "conj" else "D", ch))
    out["nodes"] = nodes
    out["dump_error"] = bad
    out["nnf_names"] = [(str(nm), _key(k), lab) for nm, k, lab in nnf.get_names_with_label()]
    # weights carried over: NNF atom i (CNF variable v) must hold the CNF's weight of v (neutral when absent)
    cw = cnf.get_weights()
    nw = nnf.get_weights()
    wbad = []
    for i, v in idents.items():
        a, b = nw.get(i, "#missing#"), cw.get(v, True)
        if not (a is b or (type(a) == type(b) and a == b)):
            wbad.append((i, v, str(a), str(b)))
    for i in nw:
        if i not in idents:
            wbad.append((i, None, str(nw[i]), "weight on a non-atom"))
    out["weight_mismatch"] = wbad
    nads = []
    nother = 0
    for c in nnf.constraints():
        if isinstance(c, ConstraintAD):
            nads.append((sorted(c.nodes), c.extra_node))
        else:
            nother += 1
    out["nnf_ads"] = nads
    out["nnf_other_constraints"] = nother
    out["idents"] = idents
    try:
        res = pl.with_timeout(lambda: nnf.evaluate(semiring=SemiringProbability()), 180)
        out["result"] = {str(k): float(v) for k, v in res.items()}
    except BaseException as e:  # noqa
        if isinstance(e, (KeyboardInterrupt, SystemExit)):
            raise
        out["eval_error"] = pl.err_class(e)
    return out


# ------------------------------------------------------------------ spec side (exact rationals)
def base_weights(d):
    """The weights extract_weights must produce (DESIGN WMC.ad_encoding): p -> (p, 1-p); neutral -> (1, 1);
    AD members (p, 1) and the extra 'none' atom (1 - sum p, 1)."""
    n = d["n"]
    W = {v: (Fraction(1), Fraction(1)) for v in range(1, n + 1)}
    for v, s in d["cnf_weights"].items():
        v = int(v)
        if s == "True":
            continue
        p = Fraction(s)
        W[v] = (p, 1 - p)
    for nodes, extra in d["cnf_ads"]:
        if len(nodes) > 1:
            tot = Fraction(0)
            for v in nodes:
                p = W[v][0]
                W[v] = (p, Fraction(1))
                tot += p
            W[extra] = (1 - tot, Fraction(1))
    return W


def vec(W, n):
    return tuple(W[v] for v in range(1, n + 1))


class Inconsistent(Exception):
    pass


def plan(d, use_nnf_keys):
    """Which weight vectors are needed, and how to combine their values.  With use_nnf_keys the plan
    replays what SimpleDDNNFEvaluator does on the NNF's own labels (evidence weights become (1,0)/(0,1));
    otherwise it is the specification on the CNF's labels (evidence keeps its own weight)."""
    n = d["n"]
    W = dict(base_weights(d))
    names = d["nnf_names"] if use_nnf_keys else d["cnf_names"]
    idents = {int(k): v for k, v in d["idents"].items()}

    def lit_of(key):
        if use_nnf_keys:
            return (idents[abs(key)], key > 0)
        return (abs(key), key > 0)

    has_ev = False
    entail = []       # all-ones vectors with the complement of an evidence literal zeroed (model counting)
    try:
        for nm, key, lab in names:
            if lab not in ("evidence+", "evidence-"):
                continue
            val = lab == "evidence+"
            if key == 0 and key is not None:
                if not val:
                    raise Inconsistent()
                continue
            if key is None:
                if val:
                    raise Inconsistent()
                continue
            v, s = lit_of(key)
            s = s if val else not s
            has_ev = True
            ones = {u: (Fraction(1), Fraction(1)) for u in range(1, n + 1)}
            ones[v] = (Fraction(1), Fraction(0)) if s else (Fraction(0), Fraction(1))
            entail.append(vec(ones, n))
            cur = W[v]
            if (s and cur[0] == 0) or (not s and cur[1] == 0):
                raise Inconsistent()
            if use_nnf_keys:
                W[v] = (Fraction(1), Fraction(0)) if s else (Fraction(0), Fraction(1))
            else:
                W[v] = (cur[0], Fraction(0)) if s else (Fraction(0), cur[1])
    except Inconsistent:
        return {"inconsistent": True, "vectors": [], "entail": []}
    queries = []
    vectors = [vec(W, n)]
    for nm, key, lab in names:
        if lab in ("named", "evidence+", "evidence-", "evidence?"):
            continue
        if key == 0 and key is not None:
            queries.append((nm, "one", None))
        elif key is None:
            queries.append((nm, "zero", None))
        else:
            v, s = lit_of(key)
            Wq = dict(W)
            Wq[v] = (W[v][0], Fraction(0)) if s else (Fraction(0), W[v][1])
            vectors.append(vec(Wq, n))
            queries.append((nm, "vec", len(vectors) - 1))
    return {"inconsistent": False, "vectors": vectors, "queries": queries, "has_ev": has_ev, "entail": entail}


def combine(p, value_of, normalise=None):
    """value_of(vector) -> Fraction.  Returns ("err", "InconsistentEvidence") or ("ok", {name: Fraction})."""
    if normalise is None:
        normalise = p.get("has_ev")
    if p["inconsistent"]:
        return ("err", "InconsistentEvidence")
    z = value_of(p["vectors"][0])
    if z == 0:
        return ("err", "InconsistentEvidence")
    res = {}
    for nm, how, idx in p["queries"]:
        if how == "one":
            res[nm] = Fraction(1)
        elif how == "zero":
            res[nm] = Fraction(0)
        else:
            x = value_of(p["vectors"][idx])
            res[nm] = x / z if normalise else x
    return ("ok", res)


# ------------------------------------------------------------------ oracle requests
def ref_tok(r):
    return {"T": "T", "F": "F"}.get(r[0]) or "%s %d" % (r[0], r[1])


def key_tok(k):
    if k is None:
        return "KF"
    if k == 0:
        return "KT"
    return "KL %d %d" % (abs(k), 1 if k > 0 else 0)


def nnf_key_ref(k):
    if k is None:
        return "F"
    if k == 0:
        return "T"
    return "P %d" % (k - 1) if k > 0 else "N %d" % (-k - 1)


def request(d, vectors, labels):
    n = d["n"]
    toks = [str(n), str(len(d["nodes"]))]
    for nd in d["nodes"]:
        if nd[0] == "A":
            toks.append("A %d" % nd[1])
        else:
            toks.append("%s %d %s" % (nd[0], len(nd[1]), " ".join(ref_tok(r) for r in nd[1])))
    toks.append(str(len(d["clauses"])))
    for cl in d["clauses"]:
        toks.append("%d %s" % (len(cl), " ".join(str(x) for x in cl)))
    toks.append(str(len(vectors)))
    for v in vectors:
        for (p, q) in v:
            toks.append("%d %d %d %d" % (p.numerator, p.denominator, q.numerator, q.denominator))
    toks.append(str(len(labels)))
    for ck, nk in labels:
        toks.append("%s %s" % (key_tok(ck), nnf_key_ref(nk)))
    return " ".join(toks)


def parse_answer(line, nvec):
    parts = line.split(";")
    bits = [x == "1" for x in parts[0].split()]
    vals = []
    for i in range(nvec):
        e, w = parts[1 + i].split()
        vals.append((Fraction(e), Fraction(w)))
    labs = [x == "1" for x in parts[1 + nvec].split()]
    return bits, vals, labs


def run_oracle(ctx, exe, lines, jobs=8):
    if not lines:
        return []
    k = max(1, min(jobs, len(lines) // 4 or 1))
    chunks = [lines[i::k] for i in range(k)]
    with ThreadPoolExecutor(max_workers=k) as ex:
        outs = list(ex.map(lambda c: ctx.oracle(exe, c, timeout=1700), chunks))
    res = [None] * len(lines)
    for j, o in enumerate(outs):
        for t, line in enumerate(o):
            res[j + t * k] = line
    return res


# ------------------------------------------------------------------ verdicts
BITS = ["well-formed", "decomposable+smooth", "covers-all-variables", "deterministic", "equivalent-to-cnf", "all"]


def case_class(d):
    """Narrow known-defect class: the NNF file dsharp wrote consists of ONE negative literal (`L -v`), so the
    DDNNF has a single atom node and its implicit root (= last node, read positively) has lost the sign.
    Input feature: the CNF contains the unit clause [-v]; symptom: the one-node circuit [atom v]."""
    if len(d["nodes"]) == 1 and d["nodes"][0][0] == "A":
        v = d["nodes"][0][1]
        if [-v] in d["clauses"] and [v] not in d["clauses"]:
            return "ddnnf-root-is-single-negative-literal"
    return None


def short(d):
    return {"kind": d["kind"], "input": d["input"]}


def judge_case(ctx, d, ans):
    """Everything that is decided for one compiled case."""
    n = d["n"]
    bits, vals, labs = ans["bits"], ans["vals"], ans["labs"]
    kl = case_class(d)
    lookup_eval = {v: vals[i][0] for i, v in enumerate(ans["vectors"])}
    lookup_wmc = {v: vals[i][1] for i, v in enumerate(ans["vectors"])}
    models = lookup_wmc[ans["ones"]]
    unsat = models == 0
    need = [0, 1, 3, 4] if unsat else [0, 1, 2, 3, 4]
    ctx.count("cnf_unsat" if unsat else "cnf_sat")
    failed = [BITS[i] for i in need if not bits[i]]
    if failed:
        ctx.violation("DDNNF.create_from(CNF) returned a circuit that is not %s (n=%d, clauses=%r, nodes=%r)"
                      % (", ".join(failed), n, d["clauses"], d["nodes"]),
                      dict(short(d), failed=failed, clauses=d["clauses"], nodes=d["nodes"]),
                      klass=kl)
    # the instance of the theorem: the circuit's value is the CNF's WMC for every weight vector tried
    if not failed and not unsat:
        for v in ans["vectors"]:
            if lookup_eval[v] != lookup_wmc[v]:
                ctx.broken.append("correspondence:check_ddnnf accepted but c_eval <> wmc_cnf on %r" % (short(d),))
                break
    # labels
    nn = {(nm, lab): k for nm, k, lab in d["nnf_names"]}
    for (nm, ck, lab), ok in zip(d["cnf_names"], labs):
        if (nm, lab) not in nn:
            ctx.violation("name %s [%s] of the CNF is missing in the DDNNF" % (nm, lab), dict(short(d), name=nm), klass=None)
        elif not ok:
            ctx.violation("label %s [%s]: CNF key %r became DDNNF key %r, which is not that literal (nodes=%r)"
                          % (nm, lab, ck, nn[(nm, lab)], d["nodes"]), dict(short(d), name=nm, cnf_key=ck, nnf_key=nn[(nm, lab)]),
                          klass=kl if failed else None)
    if len(d["nnf_names"]) != len(d["cnf_names"]):
        ctx.violation("DDNNF has %d labels, the CNF %d" % (len(d["nnf_names"]), len(d["cnf_names"])), short(d), klass=None)
    # weights and constraints carried over
    if d["weight_mismatch"]:
        ctx.violation("atom weights not carried over: %r" % (d["weight_mismatch"],), short(d), klass=None)
    inv = {}
    for i, v in d["idents"].items():
        inv[v] = int(i)
    exp_ads = sorted((sorted(inv.get(v, v) for v in nodes), inv.get(extra, extra)) for nodes, extra in d["cnf_ads"])
    got_ads = sorted((sorted(nodes), extra) for nodes, extra in d["nnf_ads"])
    if exp_ads != got_ads or d["other_constraints"] != d["nnf_other_constraints"]:
        ctx.violation("constraints not carried over: expected %r got %r" % (exp_ads, got_ads), short(d), klass=None)
    for nodes, extra in d["cnf_ads"]:
        for v in list(nodes) + ([extra] if extra is not None else []):
            if v not in inv and not unsat:
                ctx.violation("constraint node %r has no atom in the DDNNF (copy(rename) leaves a CNF variable number)" % v,
                              short(d), klass="ddnnf-constraint-node-absent")
    # numbers
    if "eval_error" in d:
        real = ("err", d["eval_error"])
    else:
        real = ("ok", d["result"])
    # Specification: WMC(q & e) / WMC(e).  ProbLog skips the division when there is no evidence (it assumes
    # WMC = 1 then); evidence that the CNF entails may or may not count as evidence for that purpose
    # (both readings give the same number whenever the unconditioned count is 1), so both are accepted.
    ps = ans["plan_spec"]
    strict = any(lookup_wmc[v] != models for v in ps["entail"])
    specs = []
    if ps["inconsistent"] or ps["has_ev"]:
        specs.append(combine(ps, lambda v: lookup_wmc[v], True))
    if not ps["inconsistent"] and not strict:
        specs.append(combine(ps, lambda v: lookup_wmc[v], False))
    spec = specs[0]
    model = combine(ans["plan_model"], lambda v: lookup_eval[v])

    def same(a, b):
        if a[0] != b[0]:
            return False
        if a[0] == "err":
            return a[1] == b[1]
        ks = set(a[1]) | set(b[1])
        return all(abs(float(a[1].get(k, 0)) - float(b[1].get(k, 0))) <= TOL for k in ks)

    ok_spec = any(same(real, sp) for sp in specs)
    ok_model = same(real, model)
    if not ok_spec:
        klass = kl if failed else None
        ctx.violation("SimpleDDNNFEvaluator on the compiled circuit gives %r, the weighted model count of the CNF gives %r"
                      % (fmt(real), fmt(spec)), dict(short(d), observed=fmt(real), expected=fmt(spec)), klass=klass)
    if not ok_model and ok_spec:
        ctx.broken.append("correspondence:model evaluation %r vs SimpleDDNNFEvaluator %r on %r" % (fmt(model), fmt(real), short(d)))
    return not failed and ok_spec and ok_model


def fmt(r):
    if r[0] == "err":
        return r
    return ("ok", {k: round(float(v), 12) for k, v in sorted(r[1].items())})


# ------------------------------------------------------------------ main
def run(ctx):
    global NMAX
    ctx.cov["rule"] = ("random ProbLog programs (facts, ADs with/without bodies, stratified negation, positive recursion, "
                       "graph reachability, evidence) through LogicFormula->LogicDAG->CNF, and direct random CNFs "
                       "(unit clauses, unsatisfiable, free variables), each compiled by the real DDNNF.create_from; "
                       "non-trivial = dsharp was really called, the circuit has both a conj and a disj node and >= 2 models; "
                       "distinct = distinct (n, clause set, weights, labels)")
    ctx.assumptions += ["the dump of a DDNNF object (harness) is faithful: node list, child keys, atom identifiers",
                        "probabilities are short decimals; the model computes with the exact decimal, ProbLog with the nearest double (tolerance 1e-9)",
                        "exhaustive determinism/equivalence enumeration needs <= %d CNF variables (larger CNFs are skipped and counted)" % ctx.n(12, 15)]
    ctx.prove("C10/Props.v")
    ctx.log("proofs checked")
    if ctx.tier == "thorough":
        ctx.coqchk("PL.C10.Props")
        ctx.log("coqchk done")
    NMAX = ctx.n(12, 15)
    with open(os.path.join(vf.VERIF, "gen", "c10_driver.ml")) as f:
        driver = f.read()
    try:
        exe = ctx.ocaml_oracle("c10", EXTRACT_V, driver)
    except RuntimeError as e:
        ctx.broken.append("oracle:extraction of the C10 checker failed")
        ctx.notes.append(str(e))
        return
    ctx.log("oracle built")
    cases = []
    if ctx.replay:
        r = ctx.replay.get("replay", {})
        cases.append((r["kind"], r["input"]))
    else:
        cdir = os.path.join(vf.CORPUS, "C10")
        if os.path.isdir(cdir):
            import json
            for fn in sorted(os.listdir(cdir)):
                with open(os.path.join(cdir, fn)) as f:
                    r = json.load(f)
                cases.append((r["kind"], r["input"]))
        for _ in range(ctx.n(140, 1500)):
            cases.append(("prog", c10_gen.gen_program(ctx.rng, big=ctx.rng.random() < ctx.n(0.15, 0.4))))
        for _ in range(ctx.n(80, 700)):
            cases.append(("cnf", c10_gen.gen_cnf(ctx.rng)))
    dumps = pl.pmap(compile_case, cases, jobs=ctx.n(8, 14))
    ctx.log("compiled %d cases" % len(dumps))
    todo = []
    lines = []
    for d in dumps:
        for k in ("frontend_error", "skipped"):
            if k in d:
                ctx.count(k + ":" + str(d[k]))
        if "frontend_error" in d or "skipped" in d:
            continue
        if "harness_error" in d:
            ctx.broken.append("harness:%s on %r" % (d["harness_error"], short(d)))
            continue
        if "compile_error" in d and d["compile_error"].startswith("Timeout"):
            ctx.count("compile_timeout_180s (machine load; not judged)")
            continue
        if "compile_error" in d:
            ctx.violation("DDNNF.create_from(CNF) failed: %s" % d["compile_error"], short(d), klass=None)
            continue
        if d.get("dump_error"):
            ctx.violation(d["dump_error"], short(d), klass=None)
            continue
        n = d["n"]
        if n != d["atomcount"]:
            ctx.broken.append("harness:dimacs header %d != atomcount %d" % (n, d["atomcount"]))
            continue
        p_spec = plan(d, False)
        try:
            p_model = plan(d, True)
        except KeyError:
            p_model = {"inconsistent": True, "vectors": []}
        ones = tuple((Fraction(1), Fraction(1)) for _ in range(n))
        vectors = []
        for v in [ones] + p_spec["vectors"] + p_spec["entail"] + p_model["vectors"]:
            if v not in vectors:
                vectors.append(v)
        nn = {(nm, lab): k for nm, k, lab in d["nnf_names"]}
        labels = [(ck, nn.get((nm, lab), None if ck is not None else 0)) for nm, ck, lab in d["cnf_names"]]
        lines.append(request(d, vectors, labels))
        todo.append((d, {"vectors": vectors, "ones": ones, "plan_spec": p_spec, "plan_model": p_model}))
    ctx.log("oracle: %d requests" % len(lines))
    try:
        answers = run_oracle(ctx, exe, lines, jobs=ctx.n(8, 14))
    except Exception as e:  # noqa
        ctx.broken.append("oracle:extracted checker crashed")
        ctx.notes.append(str(e))
        return
    good = 0
    for (d, a), line in zip(todo, answers):
        bits, vals, labs = parse_answer(line, len(a["vectors"]))
        a.update(bits=bits, vals=vals, labs=labs)
        kinds = set(x[0] for x in d["nodes"])
        models = vals[0][1]
        nontrivial = (not d["trivial"]) and "C" in kinds and "D" in kinds and models >= 2
        canon = (d["n"], tuple(sorted(tuple(sorted(c)) for c in d["clauses"])), tuple(sorted(d["cnf_weights"].items())),
                 tuple(sorted((nm, str(k), lab) for nm, k, lab in d["cnf_names"])))
        ctx.case(canon, nontrivial, sample={"kind": d["kind"], "n": d["n"], "clauses": len(d["clauses"]), "nodes": len(d["nodes"]),
                                            "models": int(models), "input": d["input"] if d["kind"] == "prog" else str(d["input"])[:300]})
        ctx.count("kind:" + d["kind"])
        ctx.count("cnf_vars:%02d" % d["n"])
        ctx.count("circuit_nodes:%s" % ("<10" if len(d["nodes"]) < 10 else "<30" if len(d["nodes"]) < 30 else "<100" if len(d["nodes"]) < 100 else ">=100"))
        ctx.count("trivial_path" if d["trivial"] else "dsharp")
        ctx.count("evaluator:" + ("error:" + d["eval_error"] if "eval_error" in d else "ok"))
        if any(lab.startswith("evidence") for _, _, lab in d["cnf_names"]):
            ctx.count("with_evidence")
        if d["cnf_ads"]:
            ctx.count("with_AD_constraint")
        if any(k is None and ck not in (None,) for (nm, ck, lab), k in zip(d["cnf_names"], [x[1] for x in a_labels(d)])):
            ctx.count("absent_literal_labelled_FALSE")
        if judge_case(ctx, d, a):
            good += 1
    ctx.cov["circuits_accepted_by_verified_checker_and_numbers_agree"] = good
    ctx.cov["programs"] = len(todo)


def a_labels(d):
    nn = {(nm, lab): k for nm, k, lab in d["nnf_names"]}
    return [(ck, nn.get((nm, lab), 0)) for nm, ck, lab in d["cnf_names"]]
