"""C12 — built-in semirings obey their algebra and documented defaults (problog/evaluator.py)."""
import importlib.util
import math
import os
import re
import sys
from decimal import Decimal, getcontext
from fractions import Fraction

import vf

META = {
    "id": "C12",
    "level": "proof",
    "technique": "fail-closed Python-ast -> Gallina translation of the semiring classes (regenerated every run) + "
                 "Coq proofs over the reals (commutative-semiring laws, ln-image, thresholds, defaults) + float-level "
                 "differential correspondence of the translated model (evaluated by vm_compute over exact rationals) "
                 "with the real classes on boundary grids",
    "design_ref": "DESIGN.md §5 C12",
    "text": "Theorems quantify over all reals / all lists; they are about GenSemirings.v, which gen/c12_semiring.py "
            "regenerates from the current problog/evaluator.py and problog/tasks/mpe.py.  The tie runs every translated "
            "method of SemiringProbability/SemiringLogProbability/SemiringSymbolic on grids around 0, 1 and every threshold and "
            "compares with the Coq evaluation of the same generated definitions (exact rationals; ln/exp kept "
            "symbolic in Coq and evaluated to 50 digits by the harness); SemiringMPEState/SemiringMinPEState (pairs of a "
            "probability and a set of literal keys) likewise on a grid of states including ties of the probabilities "
            "(max-times laws on the probability component, witness of plus/times, link to the C20 hand model).",
    "note": "Trusted: Coq kernel + vm_compute; stdlib real-number axioms; translator gen/c12_semiring.py (unverified, "
            "fail-closed, exercised by the grid); IEEE rounding is not modelled beyond the 1e-12 enclosure check.",
}

K_ISONE = "is-one-compares-with-bound-method"
K_SYMNORM = "symbolic-normalize-unparenthesised"

HEADER = """From Coq Require Import ZArith QArith String List Bool.
From PL.C12 Require Import ModelPy ModelPySet GenSemirings.
Import ListNotations.
Open Scope string_scope.
"""


def _load_translator():
    path = os.path.join(vf.VERIF, "gen", "c12_semiring.py")
    spec = importlib.util.spec_from_file_location("c12_semiring", path)
    mod = importlib.util.module_from_spec(spec)
    spec.loader.exec_module(mod)
    return mod


def generate(ctx):
    tr = _load_translator()
    text, index = tr.translate(vf.REPO)
    ctx.generate("C12/GenSemirings.v", text)
    return index


# ------------------------------------------------------------------ float <-> Coq
def qv(x):
    """Python float -> Coq term of type qfl (exact)."""
    if isinstance(x, bool) or not isinstance(x, (int, float)):
        raise TypeError("not a float: %r" % (x,))
    x = float(x)
    if math.isnan(x):
        return "(@FNaN QEops)"
    if x == math.inf:
        return "(@FPInf QEops)"
    if x == -math.inf:
        return "(@FNInf QEops)"
    n, d = x.as_integer_ratio()
    return "(qlit (%d)%%Z %d%%positive)" % (n, d)


def qq(fr):
    fr = Fraction(fr)
    return "((%d) # %d)%%Q" % (fr.numerator, fr.denominator)


EXN = {"InvalidValue": "InvalidValue", "OperationNotSupported": "OperationNotSupported",
       "NotImplementedError": "NotImplementedError", "ValueError": "ValueError",
       "ZeroDivisionError": "ZeroDivisionError", "TypeError": "TypeError"}
EXN_CODE = {20: "InvalidValue", 21: "OperationNotSupported", 22: "NotImplementedError", 23: "ValueError",
            24: "ZeroDivisionError", 25: "TypeError"}


def run_impl(fn, *args):
    """-> ("ok", value) | ("raise", ExceptionClassName)"""
    try:
        return ("ok", fn(*args))
    except Exception as e:  # noqa
        return ("raise", type(e).__name__)


# thresholds written in the code: a grid value within a few ulps of one of them may
# legitimately fall on the other side in IEEE arithmetic (1.0 + 1e-9 is rounded)
THRESHOLDS = [Fraction(0), Fraction(1)]
for _e in (9, 10, 12):
    for _s in (1, -1):
        THRESHOLDS += [Fraction(_s, 10 ** _e), 1 + Fraction(_s, 10 ** _e)]
THRESHOLDS += [Fraction(-10 ** 100)]


def near_threshold(x):
    if not isinstance(x, float) or math.isinf(x) or math.isnan(x):
        return False
    fx = Fraction(x)
    for t in THRESHOLDS:
        if fx == t:
            # exactly representable thresholds (0, 1, -1e100 is not) compare identically
            if t in (0, 1):
                continue
            return True
        if abs(fx - t) <= Fraction(4, 10 ** 16) * max(1, abs(t)):
            return True
    return False


def unit_grid(rng, extra):
    pts = [0.0, 1.0, 0.5, 0.25, 0.75, 0.125, 0.375, 1.0 / 3, 0.1, 0.9, 0.3, 0.7, 2.0, -1.0, 1.5, -0.5]
    for e in range(8, 14):
        for m in (1.0, 2.0, 5.0):
            d = m * 10.0 ** -e
            pts += [d, -d, 1.0 - d, 1.0 + d]
    for k in range(1, 16):
        pts.append(k / 16.0)
    for _ in range(extra):
        pts.append(rng.random())
    pts += [math.inf, -math.inf]
    out, seen = [], set()
    for p in pts:
        if p not in seen:
            seen.add(p)
            out.append(p)
    return out


def log_grid(rng, extra):
    pts = [-math.inf, 0.0, -1e100, -2e100, -5e99, -745.0, -50.0, math.inf]
    for p in unit_grid(rng, extra):
        if 0.0 < p < math.inf:
            pts.append(math.log(p))
    for e in range(8, 14):
        for m in (1.0, 2.0, 5.0):
            d = m * 10.0 ** -e
            pts += [d, -d]
    out, seen = [], set()
    for p in pts:
        if p not in seen:
            seen.add(p)
            out.append(p)
    return out


# ------------------------------------------------------------------ reading back serialised QE results
getcontext().prec = 40


def parse_nested(txt):
    """'[[1%Z; (-2)%Z]; [3%Z]]' -> [[1,-2],[3]]"""
    m = re.search(r"=\s*(\[.*\])\s*:\s*list", txt.replace("\n", " "), re.S)
    if not m:
        raise RuntimeError("cannot parse coq output: " + txt[-500:])
    body = m.group(1)
    out, cur, depth = [], None, 0
    for tok in re.findall(r"\[|\]|-?\d+", body.replace("%Z", "")):
        if tok == "[":
            depth += 1
            if depth == 2:
                cur = []
        elif tok == "]":
            if depth == 2:
                out.append(cur)
                cur = None
            depth -= 1
        else:
            cur.append(int(tok))
    return out


def eval_qe(code, pos=0):
    """prefix code -> (Decimal value, next position); exact on constants."""
    c = code[pos]
    if c == 0:
        return Decimal(code[pos + 1]) / Decimal(code[pos + 2]), pos + 3
    if c in (1, 2, 7):
        v, p = eval_qe(code, pos + 1)
        if c == 1:
            return v.ln(), p
        if c == 2:
            return v.exp(), p
        return -v, p
    a, p = eval_qe(code, pos + 1)
    b, p = eval_qe(code, p)
    if c == 3:
        return a + b, p
    if c == 4:
        return a - b, p
    if c == 5:
        return a * b, p
    if c == 6:
        return a / b, p
    raise ValueError("bad code %r" % (code,))


def model_outcome(code):
    """serialised `res qfl` -> ("ok", Decimal | 'ninf' | 'pinf' | 'nan') | ("raise", name)"""
    c = code[0]
    if c == 10:
        v, p = eval_qe(code, 1)
        if p != len(code):
            raise ValueError("trailing code")
        return ("ok", v)
    if c == 11:
        return ("ok", "ninf")
    if c == 12:
        return ("ok", "pinf")
    if c == 13:
        return ("ok", "nan")
    return ("raise", EXN_CODE[c])


def close(model, impl, tol=1e-12, log_space=False):
    """Enclosure check.  For the log semiring a result is ALSO accepted when it is within
    tol (absolute) in probability space: log1p(-exp(a)) for a -> 0- loses relative accuracy
    in IEEE arithmetic (cancellation), which moves the probability by < 1e-16."""
    if model[0] != impl[0]:
        return False
    if model[0] == "raise":
        return model[1] == impl[1]
    mv, iv = model[1], impl[1]
    if isinstance(mv, str):
        return (mv == "ninf" and iv == -math.inf) or (mv == "pinf" and iv == math.inf) or (mv == "nan" and iv != iv)
    if not isinstance(iv, float) or math.isinf(iv) or math.isnan(iv):
        return False
    n, d = iv.as_integer_ratio()
    ivd = Decimal(n) / Decimal(d)
    if abs(mv - ivd) <= Decimal(tol) * max(Decimal(1), abs(ivd)):
        return True
    if log_space and mv < 1 and ivd < 1:
        return abs(mv.exp() - ivd.exp()) <= Decimal(tol)
    return False


# ------------------------------------------------------------------ the float-level tie
def expected_term(outcome, tol_rel=Fraction(1, 10 ** 12)):
    """Coq term `res qfl` for an observed outcome + tolerance."""
    if outcome[0] == "raise":
        if outcome[1] not in EXN:
            return None, None
        return "(Raise %s)" % EXN[outcome[1]], "(0#1)%Q"
    v = outcome[1]
    if not isinstance(v, float):
        return None, None
    tol = tol_rel
    if not (math.isinf(v) or math.isnan(v)):
        tol = tol_rel * max(1, abs(Fraction(v)))
    return "(Ok %s)" % qv(v), qq(tol)


def tie_numeric(ctx, sr_cls, prefix, ext_grid, int_grid, npairs, nlists, ncore):
    """Every translated method of one numeric semiring on the grid.  Returns the
    list of (description, coq bool term | None, ser term | None, impl outcome)."""
    from problog.logic import Constant
    sr = sr_cls()
    rng = ctx.rng
    cases = []

    def add(method, args, argterms, outcome, kind):
        cases.append({"m": method, "args": args, "terms": argterms, "impl": outcome, "kind": kind})

    for v in int_grid:
        for m in ("is_one", "is_zero", "in_domain"):
            add(m, [v], [qv(v)], run_impl(getattr(sr, m), v), "bool")
        for m in ("negate", "result"):
            add(m, [v], [qv(v)], run_impl(getattr(sr, m), v), "float")
    for v in ext_grid:
        if math.isinf(v):
            continue    # Constant(inf) is not a probability annotation the parser can produce
        c = Constant(v)
        fv = float(c)
        for m in ("value", "pos_value", "neg_value"):
            add(m, [fv], [qv(fv)], run_impl(getattr(sr, m), c), "float")
    pairs = []
    small = [x for x in int_grid if not math.isinf(x)]
    core = small[:ncore]
    for a in core:
        for b in core:
            pairs.append((a, b))
    for _ in range(npairs):
        pairs.append((rng.choice(int_grid), rng.choice(int_grid)))
    for a, b in pairs:
        for m in ("plus", "times", "normalize"):
            add(m, [a, b], [qv(a), qv(b)], run_impl(getattr(sr, m), a, b), "float")
    for a, b in pairs[:40]:
        add("ad_negate", [a, b], [qv(a), qv(b)], run_impl(sr.ad_negate, a, b), "float")
    for _ in range(nlists):
        maxlen = 5 if prefix == "prob" else 1   # nested ln/exp comparisons are not decidable by the Q evaluator
        ws = [rng.choice(small) for _ in range(rng.randrange(0, maxlen + 1))]
        add("ad_complement", [ws], [vf.coq_list([qv(w) for w in ws])], run_impl(sr.ad_complement, ws), "float")
    for m in ("one", "zero", "result_zero", "result_one"):
        add(m, [], [], run_impl(getattr(sr, m)), "float")
    for m in ("is_dsp", "is_nsp"):
        add(m, [], [], run_impl(getattr(sr, m)), "bool")
    for m in ("true", "false"):
        add(m, [], [], run_impl(getattr(sr, m)), "pair")
    return cases


def check_numeric(ctx, prefix, cases):
    bool_terms, bool_idx, ser_terms, ser_idx = [], [], [], []
    skipped = 0
    for i, c in enumerate(cases):
        call = " ".join(["(%s_%s QEops" % (prefix, c["m"])] + c["terms"]) + ")"
        flat = [a for a in c["args"] if isinstance(a, float)] + [w for a in c["args"] if isinstance(a, list) for w in a]
        out = c["impl"]
        if out[0] == "raise" and out[1] == "OverflowError":
            ctx.count("%s skipped: OverflowError (not modelled)" % prefix)
            skipped += 1
            continue
        if any(near_threshold(a) for a in flat) or (out[0] == "ok" and isinstance(out[1], float) and near_threshold(out[1]) and c["m"] in ("value", "neg_value", "pos_value")):
            ctx.count("%s skipped: input within 4 ulp of a threshold literal" % prefix)
            skipped += 1
            continue
        ctx.count("%s.%s" % (prefix, c["m"]))
        nontrivial = bool(flat) and any((not math.isinf(a)) and a not in (0.0, 1.0) for a in flat)
        ctx.case((prefix, c["m"], repr(c["args"])), nontrivial,
                 sample={"semiring": prefix, "method": c["m"], "args": repr(c["args"]), "impl": repr(out)})
        if c["kind"] == "bool":
            exp = "(Ok %s)" % vf.coq_bool(out[1]) if out[0] == "ok" and isinstance(out[1], bool) else \
                  ("(Raise %s)" % EXN[out[1]] if out[0] == "raise" and out[1] in EXN else None)
            if exp is None:
                ctx.broken.append("correspondence:%s.%s%r returned %r (outside the model's value space)" % (prefix, c["m"], c["args"], out))
                continue
            bool_terms.append("res_bool_eqb %s %s" % (call, exp))
            bool_idx.append(i)
        elif c["kind"] == "pair":
            if out[0] != "ok" or not (isinstance(out[1], tuple) and len(out[1]) == 2):
                ctx.broken.append("correspondence:%s.%s returned %r" % (prefix, c["m"], out))
                continue
            a, b = out[1]
            bool_terms.append("match %s with Ok (x, y) => fl_close (0#1) x %s && fl_close (0#1) y %s | _ => false end"
                              % (call, qv(a), qv(b)))
            bool_idx.append(i)
        else:
            ser_terms.append("res_ser %s" % call)
            ser_idx.append(i)
    bad = []
    failing = ctx.coq_failing(HEADER, bool_terms, name="tie_%s_b" % prefix)
    for k in failing:
        bad.append(cases[bool_idx[k]])
    # float-valued results: evaluated by Coq to a closed expression, ln/exp evaluated here
    from concurrent.futures import ThreadPoolExecutor

    def one(s0):
        chunk = ser_terms[s0:s0 + 300]
        text = HEADER + "Definition out : list (list Z) := [\n" + ";\n".join(chunk) + "].\nEval vm_compute in out.\n"
        rc, out = ctx.coq_run(text, "tie_%s_s%d" % (prefix, s0))
        if rc:
            raise RuntimeError("coqc failed on serialised cases:\n" + out[-2000:])
        codes = parse_nested(out)
        if len(codes) != len(chunk):
            raise RuntimeError("coq returned %d results for %d cases" % (len(codes), len(chunk)))
        return s0, codes

    with ThreadPoolExecutor(max_workers=6) as ex:
        results = list(ex.map(one, range(0, len(ser_terms), 300)))
    for s0, codes in results:
        for k, code in enumerate(codes):
            c = cases[ser_idx[s0 + k]]
            mo = model_outcome(code)
            if not close(mo, c["impl"], log_space=(prefix == "log" and c["m"] in ("negate", "plus", "value", "pos_value", "neg_value", "ad_complement"))):
                c = dict(c)
                c["model"] = repr(mo)
                bad.append(c)
    return bad, skipped


# ------------------------------------------------------------------ property-level judge (spec)
def judge_laws(ctx, n):
    """Semiring laws / log image on the real classes, judged against exact rational arithmetic (tolerance 1e-9).
    Independent of the Coq side.  An exception inside any law instance is a violation."""
    from problog.evaluator import SemiringProbability, SemiringLogProbability
    from problog.logic import Constant
    P, L = SemiringProbability(), SemiringLogProbability()
    rng = ctx.rng
    special = [0.0, 1.0, 0.5, 1e-9, 1e-12, 1 - 1e-9, 1 - 1e-12, 1e-300, 0.25, 1.0 / 3, 1e-5, 1e-8, 2e-9]
    tol = 1e-9

    def pick():
        return rng.choice(special) if rng.random() < 0.4 else rng.random()

    def lv(x):
        return L.value(Constant(x))

    for _ in range(n):
        a, b, c = pick(), pick(), pick()
        fa, fb, fc = Fraction(a), Fraction(b), Fraction(c)
        ea, eb, ec = [Fraction(0) if x < 1e-9 else Fraction(x) for x in (a, b, c)]   # log value() cuts below 1e-9
        ws = [a / 3, b / 3, c / 3]
        checks = [
            ("prob plus", lambda: P.plus(a, b), fa + fb),
            ("prob plus comm", lambda: P.plus(b, a), fa + fb),
            ("prob times", lambda: P.times(a, b), fa * fb),
            ("prob times comm", lambda: P.times(b, a), fa * fb),
            ("prob negate", lambda: P.negate(a), 1 - fa),
            ("prob plus assoc", lambda: P.plus(P.plus(a, b), c), fa + fb + fc),
            ("prob plus assoc r", lambda: P.plus(a, P.plus(b, c)), fa + fb + fc),
            ("prob distr", lambda: P.times(a, P.plus(b, c)), fa * (fb + fc)),
            ("prob plus zero", lambda: P.plus(P.zero(), a), fa),
            ("prob times one", lambda: P.times(P.one(), a), fa),
            ("prob times zero", lambda: P.times(P.zero(), a), Fraction(0)),
            ("log value/result", lambda: L.result(lv(a)), ea),
            ("log plus", lambda: L.result(L.plus(lv(a), lv(b))), ea + eb),
            ("log plus comm", lambda: L.result(L.plus(lv(b), lv(a))), ea + eb),
            ("log times", lambda: L.result(L.times(lv(a), lv(b))), ea * eb),
            ("log times comm", lambda: L.result(L.times(lv(b), lv(a))), ea * eb),
            ("log plus assoc", lambda: L.result(L.plus(L.plus(lv(a), lv(b)), lv(c))), ea + eb + ec),
            ("log plus assoc r", lambda: L.result(L.plus(lv(a), L.plus(lv(b), lv(c)))), ea + eb + ec),
            ("log distr", lambda: L.result(L.times(lv(a), L.plus(lv(b), lv(c)))), ea * (eb + ec)),
            ("log distr r", lambda: L.result(L.plus(L.times(lv(a), lv(b)), L.times(lv(a), lv(c)))), ea * (eb + ec)),
            ("log negate", lambda: L.result(L.negate(lv(a))), 1 - ea),
            ("log plus zero", lambda: L.result(L.plus(L.zero(), lv(a))), ea),
            ("log plus zero r", lambda: L.result(L.plus(lv(a), L.zero())), ea),
            ("log times one", lambda: L.result(L.times(L.one(), lv(a))), ea),
            ("log times zero", lambda: L.result(L.times(L.zero(), lv(a))), Fraction(0)),
            ("prob ad_complement", lambda: P.ad_complement(ws), 1 - sum(Fraction(x) for x in ws)),
            ("log ad_complement", lambda: L.result(L.ad_complement([lv(x) for x in ws])),
             1 - sum(Fraction(0) if x < 1e-9 else Fraction(x) for x in ws)),
        ]
        if b > 1e-6:
            checks.append(("prob normalize", lambda: P.normalize(a * b, b), fa))
        if eb > 0 and ea > 0:
            checks.append(("log normalize", lambda: L.result(L.normalize(L.times(lv(a), lv(b)), lv(b))), ea))
        ctx.case(("laws", a, b, c), True)
        ctx.count("law triples")
        for what, fn, want in checks:
            got = run_impl(fn)
            good = got[0] == "ok" and isinstance(got[1], float) and abs(Fraction(got[1]) - want) <= Fraction(tol) * max(1, abs(want))
            if not good:
                ctx.violation("%s: a=%r b=%r c=%r gives %r, exact value %s" % (what, a, b, c, got, float(want)),
                              {"law": what, "a": a, "b": b, "c": c, "got": repr(got), "want": str(want)},
                              klass="semiring-law-" + what.replace(" ", "-"))


def _lse_exact(a, b):
    """ln(e^a + e^b) for log-space floats (Decimal, 40 digits); -inf is the zero."""
    if a == -math.inf:
        return None if b == -math.inf else Decimal(b)
    if b == -math.inf:
        return Decimal(a)
    hi, lo = (a, b) if a >= b else (b, a)
    d = Decimal(hi) - Decimal(lo)
    if d > 200:
        return Decimal(hi)
    return Decimal(hi) + (1 + (-d).exp()).ln()


def judge_log_extremes(ctx, nrandom):
    """The log semiring on its WHOLE domain (logs of weights in [0,1], including products of many small
    probabilities): plus/times must not raise, must be commutative and associative and must agree with
    ln(e^a + e^b) / a + b, in both argument orders.  Independent of the Coq side."""
    from problog.evaluator import SemiringLogProbability
    from problog.logic import Constant
    L = SemiringLogProbability()
    rng = ctx.rng
    v5 = L.value(Constant(1e-5))
    chain = L.one()
    chains = []
    for k in range(1, 161):
        chain = L.times(chain, v5)          # log(1e-5 ** k): -11.5 .. -1842
        if k in (1, 10, 40, 61, 62, 65, 80, 100, 160):
            chains.append(chain)
    xs = [-math.inf, 0.0, -1e-13, -1e-9, math.log(0.5), math.log(0.3), math.log(1e-9), -50.0, -300.0, -700.0, -709.0, -709.9,
          -710.0, -744.4400719213812, -745.0, -746.0, -1e3, -1e4, -1e6, -1e100] + chains
    pairs = [(a, b) for a in xs for b in xs]
    for _ in range(nrandom):
        pairs.append((rng.choice(xs) * rng.random() if rng.random() < 0.5 else rng.choice(xs), -rng.expovariate(1 / 300.0)))

    def bad_value(got, exact):
        if exact is None:
            return not (got[0] == "ok" and got[1] == -math.inf)
        if got[0] != "ok" or not isinstance(got[1], float) or math.isnan(got[1]) or math.isinf(got[1]):
            return True
        g = Decimal(got[1])
        return abs(g - exact) > Decimal("1e-9") * max(Decimal(1), abs(exact))

    for a, b in pairs:
        ctx.case(("logext", a, b), True, sample={"log-space pair": [a, b]})
        ctx.count("log-space extreme pairs")
        exact = _lse_exact(a, b)
        p1, p2 = run_impl(L.plus, a, b), run_impl(L.plus, b, a)
        for what, got in (("plus(a, b)", p1), ("plus(b, a)", p2)):
            if bad_value(got, exact):
                ctx.violation("SemiringLogProbability.%s with a=%r b=%r gives %r, ln(e^a+e^b) = %s"
                              % (what, a, b, got, "-inf" if exact is None else float(exact)),
                              {"op": what, "a": a, "b": b, "got": repr(got)}, klass="log-plus-wrong-on-extreme-values")
        if p1 != p2 and not (p1[0] == p2[0] == "ok" and isinstance(p1[1], float) and isinstance(p2[1], float)
                             and abs(p1[1] - p2[1]) <= 1e-12 * max(1.0, abs(p1[1]))):
            ctx.violation("SemiringLogProbability.plus is not commutative: plus(%r, %r) = %r, plus(%r, %r) = %r" % (a, b, p1, b, a, p2),
                          {"a": a, "b": b, "ab": repr(p1), "ba": repr(p2)}, klass="log-plus-not-commutative")
        t1, t2 = run_impl(L.times, a, b), run_impl(L.times, b, a)
        want = a + b
        for what, got in (("times(a, b)", t1), ("times(b, a)", t2)):
            if got != ("ok", want):
                ctx.violation("SemiringLogProbability.%s with a=%r b=%r gives %r, expected %r" % (what, a, b, got, want),
                              {"op": what, "a": a, "b": b, "got": repr(got)}, klass="log-times-wrong-on-extreme-values")
    # associativity on triples mixing ordinary and extreme values
    for _ in range(max(50, nrandom // 4)):
        a, b, c = rng.choice(xs), rng.choice(xs), rng.choice(xs)
        l = run_impl(lambda: L.plus(L.plus(a, b), c))
        r = run_impl(lambda: L.plus(a, L.plus(b, c)))
        ctx.count("log-space extreme triples")
        same = l == r or (l[0] == r[0] == "ok" and isinstance(l[1], float) and isinstance(r[1], float)
                          and abs(l[1] - r[1]) <= 1e-9 * max(1.0, abs(l[1])))
        if not same:
            ctx.violation("SemiringLogProbability.plus is not associative on (%r, %r, %r): %r vs %r" % (a, b, c, l, r),
                          {"a": a, "b": b, "c": c, "left": repr(l), "right": repr(r)}, klass="log-plus-not-associative")


def judge_defaults(ctx):
    """is_one(one()), is_zero(zero()), normalize(a, one()) == a on the real classes and on a
    minimal subclass.  Returns True when the inherited is_one defect shows."""
    from problog import evaluator
    from problog.evaluator import Semiring, SemiringProbability, SemiringLogProbability, SemiringSymbolic

    class OnlyConstants(Semiring):
        def one(self):
            return 1.0

        def zero(self):
            return 0.0

    classes = [SemiringProbability, SemiringLogProbability, SemiringSymbolic, OnlyConstants]
    try:
        from problog.tasks.mpe import SemiringMPEState
        classes.append(SemiringMPEState)
    except Exception:  # noqa
        pass
    defect = False
    for cls in classes:
        sr = cls()
        inherited = cls.is_one is Semiring.is_one
        samples = {SemiringSymbolic: "x"}.get(cls, None)
        a = samples if samples is not None else (sr.one() if cls.__name__ == "SemiringMPEState" else 0.25)
        obs = {"is_one(one())": run_impl(lambda: sr.is_one(sr.one())),
               "is_zero(zero())": run_impl(lambda: sr.is_zero(sr.zero())),
               "normalize(a, one())": run_impl(lambda: sr.normalize(a, sr.one()))}
        want = {"is_one(one())": ("ok", True), "is_zero(zero())": ("ok", True), "normalize(a, one())": ("ok", a)}
        ctx.case(("defaults", cls.__name__), True, sample={"class": cls.__name__, "observed": {k: repr(v) for k, v in obs.items()}})
        for k in obs:
            ok = obs[k][0] == "ok" and (obs[k][1] == want[k][1] or (isinstance(a, float) and k.startswith("normalize") and obs[k][1] == a))
            if ok:
                continue
            klass = None
            if inherited and k == "is_one(one())" and obs[k] == ("ok", False):
                klass = K_ISONE
            if inherited and cls.normalize is Semiring.normalize and k.startswith("normalize") and obs[k] == ("raise", "OperationNotSupported"):
                klass = K_ISONE
            if klass == K_ISONE:
                defect = True
            ctx.violation("%s().%s is %r, documented: %r" % (cls.__name__, k, obs[k], want[k][1]),
                          {"class": cls.__name__, "call": k, "observed": repr(obs[k])}, klass=klass)
    return defect


# ------------------------------------------------------------------ symbolic semiring
def sym_tree(rng, depth):
    if depth == 0 or rng.random() < 0.25:
        return ("atom", rng.choice(["0", "1", "0.5", "0.25", "0.3", "2", "0.125"]))
    k = rng.random()
    if k < 0.3:
        return ("plus", sym_tree(rng, depth - 1), sym_tree(rng, depth - 1))
    if k < 0.6:
        return ("times", sym_tree(rng, depth - 1), sym_tree(rng, depth - 1))
    if k < 0.75:
        return ("negate", sym_tree(rng, depth - 1))
    return ("normalize", sym_tree(rng, depth - 1), sym_tree(rng, depth - 1))


def sym_run(sr, t, steps):
    """Evaluate the tree with the real SemiringSymbolic; returns (string, exact value or None);
    records every single operation application in `steps`."""
    if t[0] == "atom":
        return t[1], Fraction(t[1])
    if t[0] == "negate":
        s, v = sym_run(sr, t[1], steps)
        r = sr.negate(s)
        steps.append(("negate", [s], r))
        return r, (None if v is None else 1 - v)
    s1, v1 = sym_run(sr, t[1], steps)
    s2, v2 = sym_run(sr, t[2], steps)
    r = getattr(sr, t[0])(s1, s2)
    steps.append((t[0], [s1, s2], r))
    if v1 is None or v2 is None:
        return r, None
    if t[0] == "plus":
        return r, v1 + v2
    if t[0] == "times":
        return r, v1 * v2
    if v2 == 0:
        return r, None
    return r, v1 / v2


def py_value_of(s):
    """Standard operator precedence = Python's own expression grammar; exact rationals."""
    import ast as _ast

    def ev(n):
        if isinstance(n, _ast.Expression):
            return ev(n.body)
        if isinstance(n, _ast.Constant):
            return Fraction(str(n.value))
        if isinstance(n, _ast.BinOp):
            a, b = ev(n.left), ev(n.right)
            if isinstance(n.op, _ast.Add):
                return a + b
            if isinstance(n.op, _ast.Sub):
                return a - b
            if isinstance(n.op, _ast.Mult):
                return a * b
            if isinstance(n.op, _ast.Div):
                return a / b
        raise ValueError("unexpected syntax in symbolic result: %r" % s)
    return ev(_ast.parse(s, mode="eval"))


def has_compound_divisor(t):
    if t[0] == "atom":
        return False
    if t[0] == "normalize":
        return True
    return any(has_compound_divisor(x) for x in t[1:])


def shrink_tree(t, bad):
    """greedy: replace the tree by a subtree / replace children by atoms while `bad` holds"""
    changed = True
    while changed:
        changed = False
        for sub in t[1:] if t[0] != "atom" else []:
            if isinstance(sub, tuple) and bad(sub):
                t, changed = sub, True
                break
        if changed:
            continue
        if t[0] != "atom":
            for i in range(1, len(t)):
                if t[i][0] != "atom":
                    for atom in ("0.5", "0.25", "2"):
                        cand = t[:i] + (("atom", atom),) + t[i + 1:]
                        if bad(cand):
                            t, changed = cand, True
                            break
                if changed:
                    break
    return t


def run_symbolic(ctx, n, model_ok=True):
    from problog.evaluator import SemiringSymbolic
    sr = SemiringSymbolic()
    steps_all = {}

    def mismatch(t):
        try:
            s, v = sym_run(sr, t, [])
            return v is not None and py_value_of(s) != v
        except ZeroDivisionError:
            return False

    for _ in range(n):
        t = sym_tree(ctx.rng, ctx.rng.choice([1, 2, 3, 4]))
        steps = []
        s, v = sym_run(sr, t, steps)
        for st in steps:
            steps_all[(st[0], tuple(st[1]))] = st[2]
        ctx.case(("sym", t), t[0] != "atom", sample={"tree": repr(t), "string": s})
        ctx.count("symbolic trees")
        if v is None:
            ctx.count("symbolic: division by zero in reference (not judged)")
            continue
        try:
            pv = py_value_of(s)
        except ZeroDivisionError:
            pv = None
        if pv != v:
            small = shrink_tree(t, mismatch)
            ss, sv = sym_run(sr, small, [])
            klass = K_SYMNORM if has_compound_divisor(small) and " / " in ss else None
            ctx.violation("SemiringSymbolic renders %r as %r which reads (standard precedence) as %s, exact value %s"
                          % (small, ss, py_value_of(ss), sv),
                          {"tree": repr(small), "string": ss, "reads_as": str(py_value_of(ss)), "exact": str(sv)}, klass=klass)
    if not model_ok:
        return
    # model vs implementation: every single operation application observed above, string for string
    terms, metas = [], []
    for (m, args), r in sorted(steps_all.items()):
        terms.append("res_str_eqb (sym_%s QEops %s) (Ok %s)" % (m, " ".join(vf.coq_string(a) for a in args), vf.coq_string(r)))
        metas.append((m, args, r))
    for m in ("one", "zero"):
        terms.append("res_str_eqb (sym_%s QEops) (Ok %s)" % (m, vf.coq_string(getattr(sr, m)())))
        metas.append((m, (), getattr(sr, m)()))
    for v in ("0", "1", "x", "(a + b)"):
        for m in ("is_one", "is_zero", "in_domain"):
            terms.append("res_bool_eqb (sym_%s QEops %s) (Ok %s)" % (m, vf.coq_string(v), vf.coq_bool(getattr(sr, m)(v))))
            metas.append((m, (v,), getattr(sr, m)(v)))
    ws = ["0.2", "0.3", "x"]
    terms.append("res_str_eqb (sym_ad_complement QEops %s) (Ok %s)" % (vf.coq_list([vf.coq_string(w) for w in ws]), vf.coq_string(sr.ad_complement(ws))))
    metas.append(("ad_complement", tuple(ws), sr.ad_complement(ws)))
    bad = ctx.coq_failing(HEADER, terms, name="tie_sym")
    ctx.cov["sym_model_vs_impl_agree"] = len(terms) - len(bad)
    for i in bad[:5]:
        ctx.broken.append("correspondence:GenSemirings sym_%s%r vs SemiringSymbolic gives %r" % metas[i])


# ------------------------------------------------------------------ state semirings (problog/tasks/mpe.py)
def st_term(a):
    """Python state (float, set of ints) -> Coq term of type qfl * list Z."""
    p, s = a
    return "(%s, %s)" % (qv(p), zs_term(s))


def zs_term(s):
    return "(@nil Z)" if not s else vf.coq_list([vf.coq_Z(k) for k in sorted(s)])


def is_state(v):
    return isinstance(v, tuple) and len(v) == 2 and isinstance(v[0], float) and isinstance(v[1], (set, frozenset)) \
        and all(isinstance(k, int) and not isinstance(k, bool) for k in v[1])


def state_grid(rng, extra):
    probs = [0.0, 1.0, 0.5, 0.25, 0.75, 0.3, 0.1, 1.0 / 3, 0.7, 1e-12, 1.0 - 1e-12, 0.125, 2.0]
    for _ in range(extra):
        probs.append(rng.random())
    sets = [set(), {1}, {-1}, {2}, {1, 2}, {2, -3}, {1, -1}, {5, 4, -2}, {-2, 3, 7, -9}]
    states = []
    for p in probs:
        for s in rng.sample(sets, 3) + [set()]:
            if (p, frozenset(s)) not in [(q, frozenset(t)) for q, t in states]:
                states.append((p, set(s)))
    return probs, sets, states


def tie_state(ctx, sr_cls, prefix, npairs, nlists):
    """Every translated method of SemiringMPEState / SemiringMinPEState: the real class in Python, the generated
    definitions evaluated by Coq (QE instance).  Pairs include ties of the probabilities with different witness
    sets, in both argument orders.  Returns (bool terms, metas, tie observations)."""
    from problog.logic import Constant
    sr = sr_cls()
    rng = ctx.rng
    probs, sets, states = state_grid(rng, ctx.n(4, 30))
    terms, metas = [], []
    tol_rel = Fraction(1, 10 ** 12)

    def tol_of(v):
        return qq(tol_rel * max(1, abs(Fraction(v))) if not (math.isinf(v) or math.isnan(v)) else tol_rel)

    def add(method, args, argterms, out):
        call = " ".join(["(%s_%s QEops" % (prefix, method)] + argterms) + ")"
        key = (prefix, method, repr([(a[0], sorted(a[1])) if is_state(a) else a for a in args]))
        ctx.case(key, bool(args), sample={"semiring": prefix, "method": method, "args": repr(args), "impl": repr(out)})
        ctx.count("%s.%s" % (prefix, method))
        if out[0] == "raise":
            if out[1] not in EXN:
                ctx.broken.append("correspondence:%s.%s%r raised %s (outside the model's exception space)" % (prefix, method, args, out[1]))
                return
            t = "raises %s %s" % (call, EXN[out[1]])
        elif isinstance(out[1], bool):
            t = "res_bool_eqb %s (Ok %s)" % (call, vf.coq_bool(out[1]))
        elif isinstance(out[1], float):
            t = "res_close %s %s (Ok %s)" % (tol_of(out[1]), call, qv(out[1]))
        elif is_state(out[1]):
            t = "st_close %s %s %s %s" % (tol_of(out[1][0]), call, qv(out[1][0]), zs_term(out[1][1]))
        elif isinstance(out[1], tuple) and len(out[1]) == 2 and all(is_state(x) for x in out[1]):
            (p, s), (q, u) = out[1]
            t = ("match %s with Ok ((x, s), (y, u)) => fl_close (0#1) x %s && zs_eqb s %s && fl_close (0#1) y %s && zs_eqb u %s "
                 "| _ => false end" % (call, qv(p), zs_term(s), qv(q), zs_term(u)))
        else:
            ctx.broken.append("correspondence:%s.%s%r returned %r (outside the model's value space)" % (prefix, method, args, out))
            return
        terms.append(t)
        metas.append((method, args, out))

    for a in states:
        for m in ("is_one", "is_zero", "in_domain", "negate", "result"):
            add(m, [a], [st_term(a)], run_impl(getattr(sr, m), a))
    for p in probs:
        c = Constant(p)
        fp = float(c)
        add("value", [fp], [qv(fp)], run_impl(sr.value, c))
        for k in (1, 7, 12):
            add("pos_value", [fp, k], [qv(fp), vf.coq_Z(k)], run_impl(sr.pos_value, c, k))
            add("neg_value", [fp, k], [qv(fp), vf.coq_Z(k)], run_impl(sr.neg_value, c, k))
    pairs = []
    # ties of the probability component with different witnesses, both orders; the zero/one constants
    for p in probs[:9]:
        for s, u in (({1}, {-1}), ({-1}, {1}), (set(), {2, -3}), ({2, -3}, set()), ({1, 2}, {2, -3})):
            pairs.append(((p, set(s)), (p, set(u))))
    core = states[:10]
    pairs += [(a, b) for a in core for b in core]
    for _ in range(npairs):
        pairs.append((rng.choice(states), rng.choice(states)))
    pairs += [(sr.zero(), a) for a in states[:12]] + [(a, sr.zero()) for a in states[:12]]
    pairs += [(sr.one(), a) for a in states[:12]] + [(a, sr.one()) for a in states[:12]]
    tie_first = tie_second = 0
    for a, b in pairs:
        a, b = (a[0], set(a[1])), (b[0], set(b[1]))
        for m in ("plus", "times", "normalize"):
            add(m, [a, b], [st_term(a), st_term(b)], run_impl(getattr(sr, m), a, b))
        out = run_impl(sr.plus, a, b)
        if a[0] == b[0] and a[1] != b[1] and out[0] == "ok" and is_state(out[1]) and (prefix == "mpe" or a[0] != 0):
            if out[1][1] == a[1]:
                tie_first += 1
            elif out[1][1] == b[1]:
                tie_second += 1
    for a, b in pairs[:30]:
        add("ad_negate", [a, b], [st_term(a), st_term(b)], run_impl(sr.ad_negate, a, b))
    for _ in range(nlists):
        ws = [rng.choice(states) for _ in range(rng.randrange(0, 5))]
        k = rng.choice([1, 3, 11])
        add("ad_complement", [ws, k], [vf.coq_list([st_term(w) for w in ws]) if ws else "(@nil (qfl * list Z))", vf.coq_Z(k)],
            run_impl(sr.ad_complement, ws, k))
    for m in ("one", "zero", "result_zero", "result_one", "is_dsp", "is_nsp", "true", "false"):
        add(m, [], [], run_impl(getattr(sr, m)))
    return terms, metas, (tie_first, tie_second)


def judge_state_semiring(ctx, n):
    """Max-times laws of SemiringMPEState on the real class, against exact rationals (independent of Coq):
    plus = the argument with the larger probability (tie: one of the two arguments' witnesses), times = product and union,
    commutative/associative/idempotent/distributive on the probability component, zero/one neutral, documented defaults."""
    try:
        from problog.tasks.mpe import SemiringMPEState
    except Exception as e:  # noqa
        ctx.broken.append("correspondence:problog.tasks.mpe.SemiringMPEState cannot be imported (%s)" % type(e).__name__)
        return
    S = SemiringMPEState()
    rng = ctx.rng
    special = [0.0, 1.0, 0.5, 0.25, 0.3, 1e-9, 1.0 / 3]
    keysets = [set(), {1}, {-1}, {1, 2}, {2, -3}, {4, 5, -6}]
    tol = Fraction(1, 10 ** 9)

    def pick():
        p = rng.choice(special) if rng.random() < 0.5 else rng.random()
        return (p, set(rng.choice(keysets)))

    def prob(r):
        return Fraction(r[1][0]) if r[0] == "ok" and is_state(r[1]) else None

    def bad(what, a, b, c, got, want):
        ctx.violation("SemiringMPEState %s: a=%r b=%r c=%r gives %r, expected %s" % (what, a, b, c, got, want),
                      {"law": what, "a": repr(a), "b": repr(b), "c": repr(c), "got": repr(got)},
                      klass="mpe-semiring-law-" + what.replace(" ", "-"))

    for _ in range(n):
        a, b, c = pick(), pick(), pick()
        if rng.random() < 0.3:
            b = (a[0], b[1])          # tie of the probabilities
        fa, fb, fc = Fraction(a[0]), Fraction(b[0]), Fraction(c[0])
        ctx.case(("mpe-laws", a[0], sorted(a[1]), b[0], sorted(b[1]), c[0], sorted(c[1])), True)
        ctx.count("mpe law triples")
        ab, ba = run_impl(S.plus, a, b), run_impl(S.plus, b, a)
        for what, got in (("plus", ab), ("plus comm", ba)):
            if prob(got) != max(fa, fb):
                bad(what, a, b, c, got, "probability %s" % float(max(fa, fb)))
        if prob(ab) is not None:
            w = ab[1][1]
            want_w = [a[1]] if fa > fb else [b[1]] if fb > fa else [a[1], b[1]]
            if w not in want_w:
                bad("plus witness", a, b, c, ab, "the witness of the argument with the larger probability")
        if run_impl(S.plus, a, a) != ("ok", a):
            bad("plus idempotent", a, a, c, run_impl(S.plus, a, a), repr(a))
        l = run_impl(lambda: S.plus(S.plus(a, b), c))
        r = run_impl(lambda: S.plus(a, S.plus(b, c)))
        if prob(l) != max(fa, fb, fc) or prob(r) != max(fa, fb, fc):
            bad("plus assoc", a, b, c, (l, r), "probability %s" % float(max(fa, fb, fc)))
        t1, t2 = run_impl(S.times, a, b), run_impl(S.times, b, a)
        for what, got in (("times", t1), ("times comm", t2)):
            if prob(got) is None or abs(prob(got) - fa * fb) > tol or got[1][1] != (a[1] | b[1]):
                bad(what, a, b, c, got, "(%s, %r)" % (float(fa * fb), a[1] | b[1]))
        d1 = run_impl(lambda: S.times(a, S.plus(b, c)))
        d2 = run_impl(lambda: S.plus(S.times(a, b), S.times(a, c)))
        for what, got in (("distr", d1), ("distr r", d2)):
            if prob(got) is None or abs(prob(got) - fa * max(fb, fc)) > tol:
                bad(what, a, b, c, got, "probability %s" % float(fa * max(fb, fc)))
        for what, fn, want in (("times one", lambda: S.times(S.one(), a), a), ("times one r", lambda: S.times(a, S.one()), a),
                               ("plus zero r", lambda: S.plus(a, S.zero()), a)):
            got = run_impl(fn)
            if got != ("ok", want):
                bad(what, a, b, c, got, repr(want))
        got = run_impl(lambda: S.plus(S.zero(), a))
        if prob(got) != fa or (fa > 0 and got[1][1] != a[1]):
            bad("plus zero", a, b, c, got, repr(a))
        got = run_impl(lambda: S.times(S.zero(), a))
        if prob(got) != 0:
            bad("times zero", a, b, c, got, "probability 0")


# ------------------------------------------------------------------ main
def run(ctx):
    ctx.cov["rule"] = ("grids: {0, 1, +-{1,2,5}e-13..e-8 around both, k/16, 1/3, out-of-range values, +-inf} and their logs; "
                       "all translated methods on every grid value, binary operations on a core sub-grid squared + random pairs, "
                       "ad_complement on random lists; non-trivial = some finite argument other than 0/1; "
                       "law triples drawn from [0,1] with boundary values; symbolic: random operation trees of depth <= 4")
    ctx.assumptions += [
        "floats idealised to reals in the theorems; decimal literals of the source are exact rationals",
        "math.exp overflow and IEEE rounding are not modelled (enclosure 1e-12 relative checked on the grid)",
        "float(a)/str(a) of an external value are the identity on the evaluated value",
        "log ad_complement on lists longer than 1 is tied only through the shared translation of Semiring.ad_complement "
        "(exact on the probability instance) and the theorem C12_log_image_ad_complement",
    ]
    from problog.evaluator import SemiringProbability, SemiringLogProbability
    ok = False
    try:
        generate(ctx)
        ctx.log("translated; building proof cone")
        ok = ctx.prove("C12/Props.v")
    except Exception as e:  # noqa  (translator fails closed on unknown syntax: an obligation is broken, the judges still run)
        ctx.cov["obligations"] = max(ctx.cov["obligations"], 1)
        ctx.broken.append("translator:gen/c12_semiring.py cannot translate the current problog/evaluator.py (%s: %s)"
                          % (type(e).__name__, str(e)[:300]))
    ctx.log("Props.v:", "ok" if ok else "BROKEN")
    if ok and ctx.tier == "thorough":
        ctx.coqchk("PL.C12.Props")
        ctx.log("coqchk done")
    # ---- property-level judges: independent of the Coq side, run whatever happened above
    judge_defaults(ctx)
    ctx.log("law triples, log-space extremes, symbolic trees")
    judge_laws(ctx, ctx.n(300, 20000))
    judge_log_extremes(ctx, ctx.n(200, 5000))
    run_symbolic(ctx, ctx.n(300, 6000), model_ok=ok)
    judge_state_semiring(ctx, ctx.n(300, 10000))
    if not ok:
        return
    # ---- float-level tie (needs the generated model)
    extra = ctx.n(20, 150)
    ug, lg = unit_grid(ctx.rng, extra), log_grid(ctx.rng, extra)
    for cls, prefix, eg, ig in ((SemiringProbability, "prob", ug, ug), (SemiringLogProbability, "log", ug, lg)):
        ctx.log("float-level tie of", prefix)
        cases = tie_numeric(ctx, cls, prefix, eg, ig, ctx.n(120, 2500), ctx.n(50, 800), ctx.n(12, 24))
        try:
            bad, skipped = check_numeric(ctx, prefix, cases)
        except RuntimeError as e:
            ctx.broken.append("correspondence:%s model does not evaluate" % prefix)
            ctx.notes.append(str(e)[-2000:])
            continue
        ctx.cov["%s_model_vs_impl_agree" % prefix] = len(cases) - skipped - len(bad)
        ctx.cov["%s_threshold_ulp_skipped" % prefix] = skipped
        for c in bad[:5]:
            ctx.broken.append("correspondence:GenSemirings %s_%s%r: implementation %r, model %s"
                              % (prefix, c["m"], c["args"], c["impl"], c.get("model", "differs")))
    # ---- state semirings of problog/tasks/mpe.py (translated into the same generated file)
    from problog.tasks.mpe import SemiringMPEState, SemiringMinPEState
    for cls, prefix in ((SemiringMPEState, "mpe"), (SemiringMinPEState, "minpe")):
        ctx.log("tie of", prefix)
        terms, metas, (first, second) = tie_state(ctx, cls, prefix, ctx.n(60, 1500), ctx.n(20, 300))
        try:
            bad = ctx.coq_failing(HEADER, terms, name="tie_%s" % prefix)
        except RuntimeError as e:
            ctx.broken.append("correspondence:%s model does not evaluate" % prefix)
            ctx.notes.append(str(e)[-2000:])
            continue
        ctx.cov["%s_model_vs_impl_agree" % prefix] = len(terms) - len(bad)
        ctx.cov["%s_plus_on_probability_ties" % prefix] = (
            "%d ties with different witness sets: the FIRST argument's witness was returned in %d, the second's in %d "
            "(model: first argument, theorem C12_mpe_plus_is_max)" % (first + second, first, second))
        for i in bad[:5]:
            ctx.broken.append("correspondence:GenSemirings %s_%s%r: implementation %r, model differs"
                              % (prefix, metas[i][0], metas[i][1], metas[i][2]))
