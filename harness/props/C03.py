"""C03 — the grounding result is independent of the order sibling goals are explored.

Proof part: coq/theories/C03 (abstract worklist/tabling machine, any two
terminating schedules discover the same goals and clause instances, hence the
same ground graph, the same well-founded values in every world, the same
probabilities, the same must-reject verdict).
Tie: the real engine (problog/engine_stack.py, eval_nodes.py) is run on the
repository corpus and on generated programs under the default schedule and
under seeded permutations of every batch of sibling 'e' messages (hook
fixes/HOOK-C03-sched.patch in $VERIF_REPO, or the equivalent harness-side
monkeypatch while the hook is absent); canonicalised outcomes must agree.
"""
import hashlib
import os
import sys

import vf
import pl

sys.path.insert(0, os.path.join(vf.VERIF, "gen"))
import c03_sched as cs  # noqa: E402

META = {
    "id": "C03",
    "level": "proof",
    "technique": "Coq theorems about an abstract worklist/tabling machine (schedule independence by confluence invariants) "
                 "+ sampled schedules of the real engine through an env-guarded permutation hook",
    "design_ref": "DESIGN.md §5 C03, §3",
    "text": "For every ground program with stratified negation, every query set and any two terminating schedules of the abstract "
            "machine (state = goals, clause-instance edges, completed set, worklist; a schedule chooses which pending item is "
            "processed next), the discovered goals/edges are the same sets (= the relevant subprogram), hence the same "
            "well-founded value of every atom in every world, the same probabilities and the same must-reject verdict. "
            "The real engine is tied to this only by sampled schedules: default run vs seeded permutations of every all-'e' "
            "message batch, on /repo/test and on generated programs."
            " Termination is proved too: every schedule of length >= |Q| + 2|P| + #body literals terminates, so the independence theorems also hold unconditionally (`_total` forms).",
    "note": "The abstract machine has no cycle_root / buffers / siblings / answer propagation; that the engine's mechanics refine it is "
            "exactly what the sampled schedules test, not what is proved. Trusted: Coq kernel; harness canonicalisation (lists as multisets).",
}

# DESIGN 1.3a: queries p([1|_]) on a findall-built list, i.e. observes the permitted difference
EXCLUDED = {"findall6.pl": "consumer observes the element order of a findall list (p([1|_])), DESIGN §1.3a"}


def _progkey(prog):
    return prog.get("path") or hashlib.sha1(prog["src"].encode()).hexdigest()[:12]


def alt_modes(mode):
    """Modes tried while shrinking: the failing one, then other seeds of the same family."""
    fam = cs.mode_family(mode)
    if fam in ("perm", "random"):
        return [mode] + ["%s:%d" % (fam, k) for k in range(1, 7)]
    return [mode]


def _shrink(lines, klass, pair, modes, status_diff, timeout, judge):
    def bad(c):
        prog = {"src": "\n".join(c)}
        rs = cs.run_many((prog, ["default"] + modes, timeout, status_diff))
        if len(rs) < 2:
            return False
        for r in rs[1:]:
            v, k, _ = judge(prog, rs[0], r, c)
            if v == "violation" and k == klass and (rs[0]["err"], r["err"]) == pair:
                return True
        return False
    if not bad(lines):
        return lines, False
    small = cs.shrink_lines(lines, bad, max_steps=250)
    small = cs.shrink_lines(small, bad, max_steps=120)
    return small, True


def _witness_seed(lines, klass, pair, modes, timeout, judge):
    prog = {"src": "\n".join(lines)}
    rs = cs.run_many((prog, ["default"] + modes, timeout))
    for r in rs[1:]:
        v, k, d = judge(prog, rs[0], r, lines)
        if v == "violation" and k == klass and (rs[0]["err"], r["err"]) == pair:
            return rs[0], r, d
    return None


def _brief(r):
    return {"mode": r["mode"], "status": r["status"], "err": r["err"], "errmsg": r.get("errmsg"), "errwhere": r.get("errwhere"),
            "answers": {k: round(v, 12) for k, v in sorted(r["exact"].items())[:40]}}


def process(ctx, items, labels, source, totals, shrink_budget, judge=None, word="schedule"):
    judge = judge or cs.judge
    results = pl.pmap(cs.run_many, items, jobs=ctx.jobs, chunksize=1)
    for (prog, modes, timeout), label, rs in zip(items, labels, results):
        base = rs[0]
        lines = prog["src"].split("\n") if "src" in prog else None
        ctx.count("%s baseline %s" % (source, base["err"] or "ok"))
        if base["err"] == "Timeout":
            totals["timeouts"].append(label)
            ctx.count("%s baseline timeout (recorded, not compared)" % source)
            continue
        for r in rs[1:]:
            st = r["stats"] or {}
            for k in ("batches", "all_e", "permuted"):
                totals[k] += st.get(k, 0)
            nontrivial = st.get("permuted", 0) > 0 or cs.mode_family(r["mode"]) != "perm"
            v, klass, d = judge(prog, base, r, lines)
            ctx.count("%s %s %s" % (source, cs.mode_family(r["mode"]), v))
            if v == "timeout":
                totals["timeouts"].append("%s %s" % (label, r["mode"]))
                continue
            ctx.case((_progkey(prog), r["mode"]), nontrivial,
                     sample={"program": label if "path" in prog else prog["src"], "mode": r["mode"], "hook_counters": st,
                             "baseline": base["err"] or "ok", "permuted_run": r["err"] or "ok",
                             "answers": len(base["canon"])})
            if nontrivial:
                totals["nontrivial_runs"] += 1
            if v != "violation":
                continue
            ctx.count("class %s" % klass)
            rep = {"program": label, "mode": r["mode"], "difference": d, "baseline": _brief(base), "observed": _brief(r),
                   "hook_counters": st, "sched_path": totals["path"]}
            what = "%s-dependent result on %s under %s: %s" % (word, label, r["mode"], d)
            if lines is not None:
                rep["src"] = prog["src"]
                seen = totals["shrunk"].setdefault(klass, 0)
                is_known = any(k.get("property") == ctx.prop and k.get("class") == klass and k.get("status") == "known"
                               for k in ctx.known)
                if seen < shrink_budget and not is_known:   # known classes already carry their minimal witness
                    totals["shrunk"][klass] = seen + 1
                    status_diff = base["status"] != r["status"] or base["status"] == "err"
                    if any((x.get("errwhere") or "").startswith(("formula.py", "cycles.py")) for x in (base, r)):
                        status_diff = False   # the error is raised after grounding: shrink with full evaluation
                    modes_ = alt_modes(r["mode"])
                    pair = (base["err"], r["err"])
                    small, ok = _shrink(lines, klass, pair, modes_, status_diff, timeout, judge)
                    if ok:
                        w = _witness_seed(small, klass, pair, modes_, timeout, judge)
                        if w:
                            rep.update({"src": "\n".join(small), "mode": w[1]["mode"], "baseline": _brief(w[0]),
                                        "observed": _brief(w[1]), "difference": w[2], "shrunk_from": prog["src"]})
                            what = "%s-dependent result under %s: %s on program: %s" % (word, w[1]["mode"], w[2], " ".join(small))
            else:
                rep["path"] = prog["path"]
            ctx.violation(what, rep, klass=klass)



# ------------------------------------------------------------------ model vs implementation
TIE_HEADER = """From Coq Require Import List Arith Bool QArith.
From PL.C03 Require Import ModelTabling ModelTie.
Import ListNotations.
Local Close Scope Q_scope.
Local Open Scope nat_scope.
"""


def gen_prop(rng):
    """Structured stratified propositional program over independent facts.
    atoms: facts 0..nf-1, derived nf..nf+nt-1.  Returns dict with text and structure."""
    nf = rng.randint(2, 5)
    nt = rng.randint(2, 6)
    probs = [rng.choice([(1, 10), (1, 5), (3, 10), (2, 5), (1, 2), (3, 5), (7, 10), (4, 5), (9, 10), (1, 4)]) for _ in range(nf)]
    strat = sorted(rng.randint(0, 2) for _ in range(nt))
    clauses = []
    for i in range(nt):
        for _ in range(rng.choice([1, 2, 2, 3])):
            body = []
            for _ in range(rng.choice([1, 2, 2, 3])):
                r = rng.random()
                if r < 0.45:
                    lit = (rng.random() >= 0.25, rng.randrange(nf))
                elif r < 0.85:
                    lit = (True, nf + rng.choice([j for j in range(nt) if strat[j] <= strat[i]]))
                else:
                    lower = [j for j in range(nt) if strat[j] < strat[i]]
                    lit = (False, nf + rng.choice(lower)) if lower else (True, rng.randrange(nf))
                if lit not in body and (not lit[0], lit[1]) not in body:
                    body.append(lit)
            clauses.append((nf + i, body))
    queries = sorted(rng.sample(range(nf, nf + nt), rng.choice([1, 2, min(3, nt)])))

    def name(a):
        return "f%d" % a if a < nf else "t%d" % (a - nf)
    lines = ["%s::%s." % (p[0] / p[1], name(i)) for i, p in enumerate(probs)]
    for h, body in clauses:
        lines.append("%s :- %s." % (name(h), ", ".join(("" if pos else "\\+") + name(a) for pos, a in body)))
    lines += ["query(%s)." % name(q) for q in queries]
    return {"nf": nf, "nt": nt, "probs": probs, "clauses": clauses, "queries": queries, "src": "\n".join(lines),
            "names": {name(a): a for a in range(nf + nt)}}


def tie_term(g, obs, s1, s2):
    from fractions import Fraction
    P = vf.coq_list(["mkClause %d %s" % (h, vf.coq_list([("Pos %d" if pos else "Neg %d") % a for pos, a in body]))
                     for h, body in g["clauses"]])
    Q = vf.coq_list([str(q) for q in g["queries"]])
    U = vf.coq_list([str(a) for a in range(g["nf"] + g["nt"])])
    fs = vf.coq_list(["(%d, (%d # %d)%%Q)" % (i, p[0], p[1]) for i, p in enumerate(g["probs"])])
    ob = []
    for q in g["queries"]:
        fr = Fraction(obs[q])
        ob.append("(%d, (%d # %d)%%Q)" % (q, fr.numerator, fr.denominator))
    n = g["nf"] + g["nt"] + 1
    return ("tie_case %s %s %s %s %s %d 5 %s %s" % (P, Q, vf.coq_list(map(str, s1)), vf.coq_list(map(str, s2)), U, n, fs,
                                                      vf.coq_list(ob)),
            "orders_differ %s %s %s %s" % (P, Q, vf.coq_list(map(str, s1)), vf.coq_list(map(str, s2))))


def _tie_worker(g):
    return cs.run_many(({"src": g["src"]}, ["default"], 20))[0]


def run_model_tie(ctx):
    """Same propositional programs through the Coq machine (two different
    schedules, well-founded semantics, exact rationals) and through the real
    default engine; query probabilities must agree to 1e-9."""
    n = ctx.n(20, 200)
    gens = [gen_prop(ctx.rng) for _ in range(n)]
    outs = pl.pmap(_tie_worker, gens, jobs=ctx.jobs, chunksize=2)
    cases, metas, differ = [], [], []
    for g, r in zip(gens, outs):
        if r["status"] != "ok":
            ctx.count("model-tie skipped: implementation %s" % r["err"])
            continue
        obs = {}
        for q in g["queries"]:
            nm = [k for k, v in g["names"].items() if v == q][0]
            obs[q] = r["exact"].get(nm, 0.0)
        steps = 3 * (g["nf"] + g["nt"] + len(g["clauses"])) + 6
        s1 = [0] * steps
        s2 = [ctx.rng.randrange(0, 12) for _ in range(steps)]
        t, od = tie_term(g, obs, s1, s2)
        cases.append(t)
        differ.append(od)
        metas.append(g["src"])
        ctx.count("model-tie cases")
    if not cases:
        ctx.broken.append("correspondence:C03 model tie has no cases")
        return
    try:
        bad = ctx.coq_failing(TIE_HEADER, cases, name="tie", shard=5, timeout=900)
        same_order = ctx.coq_failing(TIE_HEADER, differ, name="tieord", shard=100, timeout=900)
    except RuntimeError as e:
        ctx.broken.append("correspondence:C03 tabling model does not evaluate")
        ctx.notes.append(str(e))
        return
    ctx.cov["model_tie"] = {"cases": len(cases), "agree": len(cases) - len(bad),
                            "cases_where_the_two_coq_schedules_discover_in_different_order": len(cases) - len(same_order),
                            "what": "P(query) from the Coq machine (2 schedules, alternating-fixpoint semantics, exact Q) vs default engine float, tol 1e-9"}
    for i in bad[:5]:
        ctx.broken.append("correspondence:C03 machine+well-founded semantics vs default engine on program: %s" % metas[i].replace("\n", " "))


def replay(ctx):
    rep = ctx.replay.get("replay", ctx.replay)
    prog = {"src": rep["src"]} if "src" in rep else {"path": rep["path"]}
    mode = rep.get("mode", "perm:1")
    rs = cs.run_many((prog, ["default", mode], 30))
    lines = prog["src"].split("\n") if "src" in prog else None
    if len(rs) < 2:
        ctx.notes.append("replay: baseline timed out")
        return
    v, klass, d = cs.judge(prog, rs[0], rs[1], lines)
    ctx.case((_progkey(prog), mode), True, sample={"replay": rep.get("program"), "verdict": v, "difference": d})
    ctx.log("replay verdict:", v, klass, d)
    if v == "violation":
        ctx.violation("schedule-dependent result under %s: %s" % (mode, d),
                      dict(rep, baseline=_brief(rs[0]), observed=_brief(rs[1])), klass=klass)


def run(ctx):
    ctx.jobs = 14 if ctx.tier == "thorough" else 10
    path = cs.ensure_sched_hook()
    ctx.cov["sched_path"] = path
    ctx.log("schedule permutation through:", path)
    ctx.cov["rule"] = ("one case = (program, permutation seed); programs = every .pl under $VERIF_REPO/test (quick: top level, thorough: "
                       "recursive) minus the stated exclusions + generated programs (recursion right/left/double/mutual, non-ground "
                       "probabilistic facts, ADs with bodies, stratified negation, disjunction, builtins, findall/all consumed "
                       "order-independently, evidence, and a malformed stream with one error source); a case is non-trivial when the "
                       "hook actually permuted >= 1 all-'e' batch in that run; distinct = distinct (program, seed)")
    ctx.assumptions += [
        "the real engine is tied to the abstract machine only by the sampled schedules listed here (no refinement proof of cycle_root/buffer/sibling mechanics)",
        "lists inside answers are compared as multisets and the probabilities of answers differing only in list element order are summed (DESIGN 1.3a)",
        "two runs that both reject with different error classes agree when each class is also produced by the default engine on one of the program's queries in isolation (several independent error sources: the first one reached wins)",
        "identical ground-program text (str(LogicFormula)) => identical downstream result (evaluation reused)",
        "permutation acts on batches handed to MessageFIFO.__iadd__ that consist only of 'e' messages; schedule path: " + path,
    ]
    ctx.prove("C03/Props.v")
    if ctx.replay:
        replay(ctx)
        return
    totals = {"batches": 0, "all_e": 0, "permuted": 0, "nontrivial_runs": 0, "timeouts": [], "shrunk": {}, "path": path}

    # ---- corpus
    nseeds = ctx.n(1, 6)
    files = cs.corpus_files(vf.REPO, recursive=(ctx.tier == "thorough"))
    items, labels, excluded = [], [], {}
    for f in files:
        b = os.path.basename(f)
        if b in EXCLUDED:
            excluded[os.path.relpath(f, vf.REPO)] = EXCLUDED[b]
            continue
        seeds = [ctx.rng.randrange(1, 2 ** 31) for _ in range(nseeds)]
        items.append(({"path": f}, ["default"] + ["perm:%d" % s for s in seeds], ctx.n(20, 30)))
        labels.append(os.path.relpath(f, vf.REPO))
    ctx.cov["corpus_files"] = len(items)
    ctx.cov["corpus_excluded"] = excluded
    process(ctx, items, labels, "corpus", totals, shrink_budget=0)
    ctx.log("corpus done: %d files x %d seeds, permuted batches so far %d" % (len(items), nseeds, totals["permuted"]))

    # ---- generated programs
    nprog = ctx.n(40, 300)
    nseeds = ctx.n(4, 12)
    items, labels = [], []
    for i in range(nprog):
        lines, feats = cs.gen_program(ctx.rng, malformed=(i % 5 == 4))
        for ft in feats:
            ctx.count("gen feature " + ft)
        seeds = [ctx.rng.randrange(1, 2 ** 31) for _ in range(nseeds)]
        items.append(({"src": "\n".join(lines)}, ["default"] + ["perm:%d" % s for s in seeds], ctx.n(12, 20)))
        labels.append("generated#%d" % i)
    ctx.cov["generated_programs"] = nprog
    process(ctx, items, labels, "generated", totals, shrink_budget=ctx.n(1, 2))
    ctx.log("generated done")

    # ---- acyclic stream + directed cases (shared multi-clause subgoal re-called under a negation)
    ndag = ctx.n(15, 200)
    items, labels = [], []
    for name, lines in cs.DIRECTED:
        items.append(({"src": "\n".join(lines)}, ["default"] + ["perm:%d" % k for k in range(1, ctx.n(5, 13))], 20))
        labels.append("directed:" + name)
    for i in range(ndag):
        lines, feats = cs.gen_dag_program(ctx.rng)
        for ft in feats:
            ctx.count("gen feature " + ft)
        seeds = [ctx.rng.randrange(1, 2 ** 31) for _ in range(ctx.n(3, 8))]
        items.append(({"src": "\n".join(lines)}, ["default"] + ["perm:%d" % s for s in seeds], 20))
        labels.append("acyclic#%d" % i)
    ctx.cov["acyclic_programs"] = ndag
    process(ctx, items, labels, "acyclic", totals, shrink_budget=ctx.n(1, 2))
    ctx.log("acyclic + directed done")

    run_model_tie(ctx)
    ctx.cov["schedule_exploration"] = {"batches_seen": totals["batches"], "all_e_batches": totals["all_e"],
                                       "batches_actually_permuted": totals["permuted"],
                                       "runs_with_a_nontrivial_schedule": totals["nontrivial_runs"]}
    ctx.cov["timeouts_recorded_not_reported"] = totals["timeouts"][:40]
    ctx.cov["timeouts_count"] = len(totals["timeouts"])
