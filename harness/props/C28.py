"""C28 — Python and Prolog values convert losslessly (problog/pypl.py, problog/extern.py, logic.Constant)."""
import ast
import importlib.util
import math
import os
import sys

import vf

sys.path.insert(0, os.path.join(vf.VERIF, "gen"))

META = {
    "id": "C28",
    "level": "proof",
    "technique": "fail-closed Python-ast -> Gallina translator for py2pl/pl2py/Constant.__init__/list2term/term2list/"
                 "problog_export._convert_input/_convert_output (regenerated every run) + Coq round-trip theorem under a "
                 "boolean guard + refutation witnesses for the excluded classes + differential run of the generated model "
                 "against the real functions",
    "design_ref": "DESIGN.md §5 C28",
    "text": "Round-trip theorem (all nested values, no size bound) about Gallina functions generated from the current "
            "Python source by a fail-closed translator; Python builtins used by the source are modelled by hand "
            "(ModelPyBase.v, ModelFloat.v) and that hand part is tied to CPython by evaluating the generated model in Coq "
            "on the same random values as the real functions.",
    "note": "Trusted: Coq kernel + vm_compute; the translator's statement/expression table (gen/c28_pypl.py); the hand "
            "model of the Python builtins (indexing, slicing, str.replace/strip/format, round(x,15) on binary64, "
            "==, str(), isinstance) which is checked only by sampling.",
}

HEADER = """From Coq Require Import ZArith List Bool NArith.
From PL.C28 Require Import ModelFloat ModelPyBase GenPyPl ModelWf.
Import ListNotations.
Open Scope Z_scope.
Definition undefined_or (r expected : res pyval) : bool :=
  match r with Err Unsupported => true | _ => res_eqb r expected end.
Definition is_unsupported (r : res pyval) : bool := match r with Err Unsupported => true | _ => false end.
"""


def generate(ctx):
    import c28_pypl
    importlib.reload(c28_pypl)
    text = c28_pypl.translate(vf.REPO)
    ctx.generate("C28/GenPyPl.v", text)
    return text


# ------------------------------------------------------------------ python <-> coq
def flt_canon(x):
    if x == 0:
        return (0, 0)
    p, q = x.as_integer_ratio()
    e = -(q.bit_length() - 1)
    while p % 2 == 0:
        p //= 2
        e += 1
    return (p, e)


class NotEncodable(Exception):
    pass


def coq_val(v):
    from problog.logic import Term, Constant, Var, Object
    t = type(v)
    if v is None:
        return "PNone"
    if t is int:
        return "(PInt %s)" % vf.coq_Z(v)
    if t is float:
        if math.isnan(v) or math.isinf(v):
            raise NotEncodable("non-finite float")
        m, e = flt_canon(v)
        return "(PFlt (%s, %s))" % (vf.coq_Z(m), vf.coq_Z(e))
    if t is str:
        return "(PStr [%s])" % "; ".join("%d%%N" % ord(c) for c in v)
    if t is list:
        return "(PList [%s])" % "; ".join(coq_val(x) for x in v)
    if t is tuple:
        return "(PTuple [%s])" % "; ".join(coq_val(x) for x in v)
    k = {Term: "KTerm", Constant: "KConstant", Var: "KVar", Object: "KObject"}.get(t)
    if k is None:
        raise NotEncodable("type %s" % t.__name__)
    return "(PObj %s %s [%s])" % (k, coq_val(v.functor), "; ".join(coq_val(a) for a in v.args))


def coq_res(outcome):
    """outcome = ('ok', value) | ('exc', name)"""
    if outcome[0] == "ok":
        return "(Ok %s)" % coq_val(outcome[1])
    return "(Err %s)" % (outcome[1] if outcome[1] in ("ValueError", "IndexError", "AttributeError", "TypeError") else "TypeError")


def same(a, b):
    """Type-aware structural equality ("returns the original value")."""
    from problog.logic import Term
    if type(a) is not type(b):
        return False
    if isinstance(a, (list, tuple)):
        return len(a) == len(b) and all(same(x, y) for x, y in zip(a, b))
    if isinstance(a, float):
        return a == b or (math.isnan(a) and math.isnan(b))
    if isinstance(a, Term):
        return (type(a.functor) is type(b.functor) and a.functor == b.functor and a.arity == b.arity
                and all(same(x, y) for x, y in zip(a.args, b.args)))
    return a == b


def fuel(v):
    def size(x):
        if isinstance(x, (list, tuple)):
            return 1 + sum(size(y) for y in x)
        return 1
    return size(v) + 2


def term_fuel(t):
    from problog.logic import Term
    n = 1
    if isinstance(t, Term):
        for a in t.args:
            n += term_fuel(a)
    return n


# ------------------------------------------------------------------ the property's reference and the known classes
def norm(v):
    """What the three known defect classes (and nothing else) do to a value."""
    if type(v) is str:
        return v.replace('"', "").replace("'", "")
    if type(v) is float:
        return round(v, 15)
    if type(v) is list:
        return [norm(x) for x in v]
    if type(v) is tuple:
        el = [norm(x) for x in v]
        if len(el) >= 2 and type(el[-1]) is tuple and len(el[-1]) >= 1:
            el = el[:-1] + list(el[-1])
        return tuple(el)
    return v


def features(v):
    f = set()
    if type(v) is str and ('"' in v or "'" in v):
        f.add("pl2py-strips-quotes")
    if type(v) is float and not math.isnan(v) and round(v, 15) != v:
        f.add("float-rounded-15-digits")
    if isinstance(v, (list, tuple)):
        for x in v:
            f |= features(x)
        if type(v) is tuple and len(v) >= 2 and type(v[-1]) is tuple and len(v[-1]) >= 1:
            f.add("nested-last-tuple-flattens")
    return f


def round_floats(v):
    if type(v) is float:
        return round(v, 15)
    if isinstance(v, (list, tuple)):
        return type(v)(round_floats(x) for x in v)
    return v


def denotes(r, v):
    """Spec of "seen from ProbLog as exactly its Python result": the engine-visible term r is the
    canonical Prolog representation of the Python value v (ints and floats as numeric constants with
    the same value, a str inside a list as a string constant with exactly that text, lists as proper
    lists, tuples as ','/2 conjunctions -- which Prolog syntax itself identifies with their
    right-flattened form)."""
    from problog.logic import Term, Constant
    if type(v) is int:
        return type(r) is Constant and type(r.functor) is int and r.functor == v
    if type(v) is float:
        return type(r) is Constant and type(r.functor) is float and same(r.functor, v)
    if type(v) is str:
        return type(r) is Constant and type(r.functor) is str and r.functor == '"%s"' % v
    if type(v) is list:
        for x in v:
            if not (type(r) is Term and r.functor == "." and r.arity == 2 and denotes(r.args[0], x)):
                return False
            r = r.args[1]
        return type(r) is Term and r.functor == "[]" and r.arity == 0
    if type(v) is tuple:
        if not v:
            return type(r) is Term and r.functor == "()" and r.arity == 0
        flat = list(v)
        while len(flat) >= 2 and type(flat[-1]) is tuple and len(flat[-1]) >= 1:
            flat = flat[:-1] + list(flat[-1])
        for x in flat[:-1]:
            if not (type(r) is Term and r.functor == "," and r.arity == 2 and denotes(r.args[0], x)):
                return False
            r = r.args[1]
        return denotes(r, flat[-1])
    if isinstance(v, Term):
        return r is v or same(r, v)
    return False


def in_scope(v):
    if type(v) in (int, float, str):
        return True
    if type(v) is list:
        return all(in_scope(x) for x in v)
    if type(v) is tuple:
        return len(v) != 1 and all(in_scope(x) for x in v)
    return False


def roundtrip_impl(v):
    from problog.pypl import py2pl, pl2py
    try:
        t = py2pl(v)
    except Exception as e:  # noqa
        return None, ("exc", type(e).__name__)
    try:
        return t, ("ok", pl2py(t))
    except Exception as e:  # noqa
        return t, ("exc", type(e).__name__)


def fails(v):
    _, out = roundtrip_impl(v)
    return out[0] != "ok" or not same(out[1], v)


def shrink(v, bad):
    """Greedy structural shrinking that keeps `bad` true and stays in scope."""
    changed = True
    while changed:
        changed = False
        cands = list(simpler(v))
        if isinstance(v, (list, tuple)):
            for i, x in enumerate(v):
                for y in simpler(x):
                    cands.append(type(v)(list(v[:i]) + [y] + list(v[i + 1:])))
                if isinstance(x, (list, tuple)):     # one level deeper
                    for j, z in enumerate(x):
                        for y in simpler(z):
                            cands.append(type(v)(list(v[:i]) + [type(x)(list(x[:j]) + [y] + list(x[j + 1:]))] + list(v[i + 1:])))
        for c in cands:
            if in_scope(c) and not same(c, v) and bad(c):
                v = c
                changed = True
                break
    return v


def simpler(x):
    out = []
    if type(x) is str:
        out += [x[:i] + x[i + 1:] for i in range(len(x))] if len(x) > 1 else []
        if x != "a":
            out.append("a")
    elif type(x) is int:
        if x != 0:
            out.append(0)
    elif type(x) is float:
        if x != 0.5:
            out.append(0.5)
    elif isinstance(x, (list, tuple)):
        out += list(x)
        out += [type(x)(list(x[:i]) + list(x[i + 1:])) for i in range(len(x))]
    return out


# ------------------------------------------------------------------ generators
ALPHA = "abcxyzAZ09 _é"


def gen_str(rng, clean):
    if rng.random() < 0.15:
        return rng.choice(["", "[]", "()", ".", ",", "a b", "X", "_", "f(x)", "3", "1.5"])
    n = rng.choice([1, 1, 2, 3, 5, 9])
    chars = ALPHA if clean else ALPHA + "\"'" * 3
    return "".join(rng.choice(chars) for _ in range(n))


def gen_float(rng, clean):
    k = rng.random()
    if clean:
        if k < 0.5:
            return rng.randrange(-10 ** 6, 10 ** 6) / 10 ** rng.randrange(0, 7)
        if k < 0.7:
            return float(rng.randrange(-2 ** 53, 2 ** 53))
        if k < 0.8:
            return rng.choice([0.0, -0.0, 1.0, 0.5, 0.25, 1e300, -1e22, 2.0 ** 70, 0.1, 0.3])
        return round(rng.uniform(-100, 100), rng.randrange(0, 15))
    if k < 0.5:
        return rng.uniform(-1, 1) * 10.0 ** rng.randrange(-25, 20)
    if k < 0.7:
        return rng.choice([0.1 + 0.2, 1e-20, 5e-324, 2.2250738585072014e-308, 1 / 3, math.pi, 1e-15, 4.9e-16, 5e-16,
                           0.1 + 0.7, 1.0000000000000002, 8.000000000000002, 123456.78901234567])
    if k < 0.75:
        return rng.choice([float("inf"), float("-inf")])
    return rng.random()


def gen_int(rng):
    k = rng.random()
    if k < 0.6:
        return rng.randrange(-20, 100)
    if k < 0.8:
        return rng.randrange(-10 ** 6, 10 ** 6)
    return rng.choice([0, -1, 2 ** 63, -2 ** 64, 10 ** 30, 2 ** 53 + 1])


def gen_value(rng, depth, clean, with_terms=False):
    k = rng.random()
    if depth <= 0 or k < 0.45:
        j = rng.random()
        if with_terms and j < 0.08:
            from problog.logic import Term
            return Term(rng.choice(["h", "foo", "'q r'", "g"]), *[Term("a")] * rng.choice([0, 0, 1, 3]))
        if j < 0.4:
            return gen_int(rng)
        if j < 0.65:
            return gen_float(rng, clean)
        return gen_str(rng, clean)
    if k < 0.75:
        n = rng.choice([0, 1, 1, 2, 3, 4, 6])
        return [gen_value(rng, depth - 1, clean, with_terms) for _ in range(n)]
    n = rng.choice([0, 2, 2, 3, 4])
    el = [gen_value(rng, depth - 1, clean, with_terms) for _ in range(n)]
    if clean and n >= 2:
        while type(el[-1]) is tuple and len(el[-1]) >= 1:
            el[-1] = gen_value(rng, 0, clean, with_terms)
    return tuple(el)


def gen_term(rng, depth):
    """Arbitrary Prolog-side values (not only images of py2pl) for pl2py."""
    from problog.logic import Term, Constant
    k = rng.random()
    if depth <= 0 or k < 0.4:
        j = rng.random()
        if j < 0.25:
            return Constant(gen_int(rng))
        if j < 0.4:
            return Constant(gen_float(rng, True))
        if j < 0.6:
            return Constant(rng.choice(['"abc"', "'q'", "abc", '"a\'b"', '""', "[]", '"[]"']))
        if j < 0.85:
            return Term(rng.choice(["a", "[]", "()", "foo", ".", ","]))
        return rng.randrange(-5, 5)     # engine variable
    f = rng.choice([".", ".", ",", ",", "f", "[]", "()"])
    n = 2 if rng.random() < 0.8 else rng.choice([1, 3])
    return Term(f, *[gen_term(rng, depth - 1) for _ in range(n)])


# ------------------------------------------------------------------ the checks
def tolerant(ctx, cases, metas, model_expr, expected, meta):
    """A case where the model may decline (Err Unsupported); declined cases are counted separately."""
    cases.append("undefined_or (%s) %s" % (model_expr, expected))
    metas.append(meta)
    ctx._declinable.append("negb (is_unsupported (%s))" % model_expr)


def report(ctx, what, replay, klass):
    """At most 3 reports per known class and run (all are counted in the histogram); unclassified
    violations are always reported."""
    ctx._reported[klass] = ctx._reported.get(klass, 0) + 1
    if klass is None or ctx._reported[klass] <= 3:
        ctx.violation(what, replay, klass=klass)


def report_roundtrip_violation(ctx, v, shrunk_budget=None):
    _, out0 = roundtrip_impl(v)
    feats0 = features(v)
    if (out0[0] == "ok" and feats0 and same(out0[1], norm(v))
            and all(ctx._reported.get(c, 0) >= 3 for c in feats0)):
        for c in sorted(feats0):        # explained by classes that were already reported with shrunk witnesses
            ctx.count("violation:" + c)
        return
    targets = [c for c in sorted(feats0) if ctx._reported.get(c, 0) < 3] or [None]
    for c in targets:
        if c is None:
            small = shrink(v, fails)
        else:       # class-directed: keep the feature of class c, then try to lose the others
            small = shrink(v, lambda x: fails(x) and c in features(x))
            small = shrink(small, lambda x: fails(x) and features(x) == {c}) if features(small) != {c} else small
        _, out = roundtrip_impl(small)
        got = out[1]
        feats = features(small)
        explained = out[0] == "ok" and same(got, norm(small)) and feats
        what = "pl2py(py2pl(%r)) = %r" % (small, got)
        replay = {"kind": "roundtrip", "value": repr(small), "observed": repr(got)}
        if explained:
            k = c if c in feats else sorted(feats)[0]
            report(ctx, what + " [%s]" % k, replay, k)
            ctx.count("violation:" + k)
        else:
            report(ctx, what + " (not explained by the known classes)", replay, None)
            ctx.count("violation:unclassified")


def run_roundtrip(ctx):
    n = ctx.n(600, 30000)
    cases, metas = [], []
    budget = [40]
    for i in range(n):
        clean = ctx.rng.random() < 0.6
        v = gen_value(ctx.rng, ctx.rng.choice([1, 2, 2, 3, 4]), clean, with_terms=(i % 5 == 0))
        t, out = roundtrip_impl(v)
        scope = in_scope(v)
        nontrivial = isinstance(v, (list, tuple)) and len(v) >= 2 and any(isinstance(x, (list, tuple)) for x in v)
        ctx.case(("rt", repr(v)), nontrivial, sample={"value": repr(v), "roundtrip": repr(out[1])})
        ctx.count("rt_in_scope" if scope else "rt_outside_scope(1-tuple/Term)")
        ctx.count("rt_clean_profile" if clean else "rt_dirty_profile")
        if scope:
            if out[0] != "ok" or not same(out[1], v):
                ctx.count("rt_property_fails")
                report_roundtrip_violation(ctx, v)
            else:
                ctx.count("rt_property_holds")
        # model vs implementation, for both functions
        try:
            cv = coq_val(v)
            if t is None:
                continue
            f = max(fuel(v), term_fuel(t)) + 3
            cases.append("res_eqb (py2pl %d %s) (Ok %s)" % (f, cv, coq_val(t)))
            metas.append(("py2pl", repr(v)))
            cases.append("res_eqb (roundtrip %d %s) %s" % (f, cv, coq_res(out)))
            metas.append(("roundtrip", repr(v)))
            # the guard of the theorem is evaluated on the same value; for values the property speaks about
            # it is tight: wf v  <->  the implementation returns v
            if scope and out[0] == "ok":
                cases.append("Bool.eqb (wf %s) %s" % (cv, vf.coq_bool(same(out[1], v))))
                metas.append(("wf-iff-identity", repr(v)))
        except NotEncodable:
            ctx.count("rt_not_encodable_in_model(inf)")
    return cases, metas


def run_pl2py_terms(ctx):
    from problog.pypl import pl2py
    n = ctx.n(250, 8000)
    cases, metas = [], []
    for _ in range(n):
        t = gen_term(ctx.rng, ctx.rng.choice([1, 2, 3, 4]))
        try:
            out = ("ok", pl2py(t))
        except RecursionError:
            continue
        except Exception as e:  # noqa
            out = ("exc", type(e).__name__)
        ctx.case(("pl2py", repr(t)), True, sample={"term": repr(t), "pl2py": repr(out[1])})
        ctx.count("pl2py_" + out[0])
        try:
            tolerant(ctx, cases, metas, "pl2py %d %s" % (term_fuel(t) + 3, coq_val(t)), coq_res(out), ("pl2py", repr(t)))
        except NotEncodable:
            pass
    return cases, metas


TYPES = ["int", "float", "str", "list", "term"]


def run_convert(ctx):
    """problog_export._convert_output / _convert_input called directly."""
    from problog.extern import problog_export
    from problog.logic import Term, Constant
    pe = problog_export()
    n = ctx.n(250, 8000)
    cases, metas = [], []
    budget = [10]
    for _ in range(n):
        t = ctx.rng.choice(TYPES)
        clean = ctx.rng.random() < 0.6
        if t == "int":
            a = gen_int(ctx.rng)
        elif t == "float":
            a = gen_float(ctx.rng, clean)
        elif t == "str":
            a = gen_str(ctx.rng, clean)
        elif t == "list":
            a = [gen_value(ctx.rng, ctx.rng.choice([0, 1, 2]), clean) for _ in range(ctx.rng.choice([0, 1, 2, 3, 5]))]
        else:
            a = Term(ctx.rng.choice(["a", "foo"]), *[Constant(gen_int(ctx.rng)) for _ in range(ctx.rng.choice([0, 1, 2]))])
        try:
            o = ("ok", pe._convert_output(a, t))
        except Exception as e:  # noqa
            o = ("exc", type(e).__name__)
        ctx.case(("conv", t, repr(a)), t == "list" and len(a) >= 2, sample={"type": t, "value": repr(a), "output": repr(o[1])})
        ctx.count("convert_" + t)
        # judge: the engine-visible term denotes exactly the python result
        ok = o[0] == "ok"
        if ok:
            r = o[1]
            if t == "str":
                ok = type(r) is Term and type(r.functor) is str and r.functor == a and r.arity == 0
            else:
                ok = denotes(r, a)
        if not ok:
            small = a
            if t == "list" and budget[0] > 0:
                budget[0] -= 1

                def bad(c):
                    try:
                        return type(c) is list and not denotes(pe._convert_output(c, "list"), c)
                    except Exception:  # noqa
                        return True
                small = shrink(a, bad)
            try:
                seen = pe._convert_output(small, t)
            except Exception as e:  # noqa
                seen = type(e).__name__
            explained = ("float-rounded-15-digits" in features(small) and not isinstance(seen, str)
                         and denotes(seen, round_floats(small)))
            what = "problog_export '-%s' result %r is seen as %s" % (t, small, seen)
            replay = {"kind": "convert", "type": t, "value": repr(small), "observed": str(seen)}
            ctx.count("violation:export-float-rounded-15-digits" if explained else "violation:export-unclassified")
            report(ctx, what, replay, "export-float-rounded-15-digits" if explained else None)
        try:
            ts = "ts_" + t
            f = (fuel(a) if t == "list" else 1) + 4
            tolerant(ctx, cases, metas, "convert_output %d %s %s" % (f, coq_val(a), ts), coq_res(o),
                     ("convert_output:" + t, repr(a)))
            if o[0] == "ok":
                try:
                    i = ("ok", pe._convert_input(o[1], t))
                except Exception as e:  # noqa
                    i = ("exc", type(e).__name__)
                tolerant(ctx, cases, metas, "convert_input %d %s %s" % (f + term_fuel(o[1]), coq_val(o[1]), ts),
                         coq_res(i), ("convert_input:" + t, repr(o[1])))
        except NotEncodable:
            pass
    return cases, metas


def run_engine_exports(ctx):
    """Generated problog_export-ed functions called from a generated program through the real engine."""
    from problog.engine import DefaultEngine
    from problog.program import PrologString
    from problog.logic import Term, Constant, term2list
    n = ctx.n(40, 600)
    vals = []
    for k in range(n):
        t = ctx.rng.choice(["int", "float", "str", "list"])
        if t == "int":
            a = gen_int(ctx.rng)
        elif t == "float":
            a = gen_float(ctx.rng, True)
            if math.isinf(a):
                a = 1.5
        elif t == "str":
            a = "".join(ctx.rng.choice("abcxyz") for _ in range(ctx.rng.choice([1, 3, 6])))
        else:
            a = [gen_value(ctx.rng, ctx.rng.choice([0, 1, 2]), True) for _ in range(ctx.rng.choice([0, 1, 2, 4]))]
            a = ast.literal_eval(repr(a).replace("inf", "1.5"))
        vals.append((t, a))
    path = os.path.join(ctx.scratch, "c28_exports.py")
    with open(path, "w") as f:
        f.write("from problog.extern import problog_export\nVALUES = %r\n" % ([a for _, a in vals],))
        for k, (t, _) in enumerate(vals):
            f.write("@problog_export('+int', '-%s')\ndef f%d(i):\n    return VALUES[i]\n" % (t, k))
    src = ":- use_module('%s').\n" % path
    eng = DefaultEngine()
    db = eng.prepare(PrologString(src))
    for k, (t, a) in enumerate(vals):
        try:
            res = eng.query(db, Term("f%d" % k, Constant(k), None))
        except Exception as e:  # noqa
            ctx.violation("exported function f%d -> %r raised %s" % (k, a, type(e).__name__),
                          {"kind": "engine", "type": t, "value": repr(a)}, klass=None)
            continue
        ok = len(res) == 1
        seen = None
        if ok:
            r = res[0][1]
            seen = r
            if t == "str":
                ok = type(r) is Term and r.functor == a and r.arity == 0
            else:
                ok = denotes(r, a)
            if ok and t == "list":
                # ... and a '+list' consumer gets the same Python list back
                try:
                    ok = same(term2list(r), a)
                except Exception:  # noqa
                    ok = False
        ctx.case(("engine", t, repr(a)), t == "list", sample={"type": t, "python_result": repr(a), "engine_sees": str(seen)})
        ctx.count("engine_" + t)
        if not ok:
            ctx.violation("query f%d(%d,X) for a '-%s' function returning %r gives %r" % (k, k, t, a, seen),
                          {"kind": "engine", "type": t, "value": repr(a), "observed": repr(seen)}, klass=None)


def check_findings(ctx):
    """Findings.v is outside the cone of Props.v: a witness that stops compiling means the defect is gone."""
    with open(os.path.join(vf.THEORIES, "C28", "Findings.v")) as f:
        src = f.read()
    rc, out = ctx.coq_run(src, "findings")
    ctx.cov["findings_v_compiles"] = (rc == 0)
    if rc:
        ctx.notes.append("Findings.v no longer compiles (a known finding no longer reproduces on the model): " + out[-600:])


def replay(ctx):
    r = ctx.replay.get("replay", ctx.replay)
    v = ast.literal_eval(r["value"])
    if r.get("kind") == "roundtrip":
        _, out = roundtrip_impl(v)
        ctx.log("replay: pl2py(py2pl(%r)) = %r" % (v, out[1]))
        if out[0] != "ok" or not same(out[1], v):
            report_roundtrip_violation(ctx, v)
    else:
        ctx.log("replay of kind %r: value %r (re-run the full check)" % (r.get("kind"), v))


def run(ctx):
    ctx.cov["rule"] = ("random nested values (depth<=4) of ints (small/huge/negative), floats (decimal-exact, random, "
                       "denormal, huge, inf), strings (letters, space, unicode, reserved texts '[]' '()', quotes in the "
                       "'dirty' 40%), lists, tuples of length 0,2,3,4 (+ Term leaves in 1/5 of the cases); "
                       "non-trivial = a container with >=2 elements one of which is a container; distinct = distinct values. "
                       "Plus arbitrary Prolog terms for pl2py and direct/through-the-engine problog_export conversions.")
    ctx.assumptions += [
        "hand model of the Python builtins in ModelPyBase.v/ModelFloat.v (checked by sampling against CPython)",
        "the translator's expression/statement table (gen/c28_pypl.py) preserves Python semantics for the forms it accepts",
        "bool, nan, dict and user classes are outside the value universe; inf is checked in Python only",
        "Unsupported results of the model (str() of floats, Object identity, int/float mixed ==) are skipped in the tie and counted",
    ]
    ctx._declinable = []
    ctx._reported = {}
    model_current = True
    try:
        generate(ctx)
    except Exception as e:  # noqa  (fail-closed translator: the model can no longer be regenerated)
        model_current = False
        ctx.broken.append("translator:gen/c28_pypl.py cannot translate the current sources: %s" % (str(e)[:300],))
        ctx.log("translator failed: %s" % e)
        # the obligations exist but cannot be checked against the current code: count them as not discharged
        import re
        with open(os.path.join(vf.THEORIES, "C28", "Props.v")) as f:
            ctx.cov["obligations"] += len(re.findall(r"(?m)^\s*Theorem\s", vf.strip_coq_comments(f.read())))
    if model_current:
        ctx.log("translated; proving")
        ctx.prove("C28/Props.v")
        ctx.log("proved: %d/%d; broken=%r" % (ctx.cov["discharged"], ctx.cov["obligations"], ctx.broken))
        check_findings(ctx)
    ctx.log("running the implementation")
    if ctx.replay:
        replay(ctx)
        return
    cases, metas = [], []
    for part in (run_roundtrip, run_pl2py_terms, run_convert):
        c, m = part(ctx)
        cases += c
        metas += m
    run_engine_exports(ctx)
    if not model_current:
        ctx.notes.append("model is stale (translator failed): the Coq side of the tie was skipped, the implementation "
                         "was still judged against the property on %d inputs" % ctx.cov["evaluations"])
        return
    ctx.log("evaluating %d model cases in Coq" % len(cases))
    try:
        bad = ctx.coq_failing(HEADER, cases, name="c28", shard=ctx.n(450, 1500))
        declined = ctx.coq_failing(HEADER, ctx._declinable, name="c28u", shard=ctx.n(450, 1500))
        ctx.cov["model_declined(Unsupported)"] = "%d of %d tolerant cases" % (len(declined), len(ctx._declinable))
    except RuntimeError as e:
        ctx.broken.append("correspondence:C28 model cases do not evaluate")
        ctx.notes.append(str(e))
        return
    ctx.cov["model_vs_impl_cases"] = len(cases)
    ctx.cov["model_vs_impl_agree"] = len(cases) - len(bad)
    for i in bad[:6]:
        ctx.broken.append("correspondence:GenPyPl.%s vs implementation on %s" % metas[i])
    ctx.cov["disagreements_checked"] += len(bad)
