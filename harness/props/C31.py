"""C31 — Bayesian-network export preserves the distribution (problog/tasks/bayesnet.py, problog/pgm/cpd.py)."""
from fractions import Fraction

import pl
import vf
from props import C22 as c22

META = {
    "id": "C31",
    "level": "proof",
    "technique": "Coq theorems about a hand model of clause_to_cpt/OrCPT (per-clause equivalence with the AD's world "
                 "semantics, lifted along any clause order) + differential correspondence of every real CPT/OrCPT with the "
                 "model's table + exhaustive sum-product over the real factors against exact world enumeration",
    "design_ref": "DESIGN.md §5 C31",
    "text": "Per-clause theorem: choice-node CPT + OrCPTs realise the AD semantics given the parents; lifted to every clause "
            "list (ancestral reading). Tie: for generated acyclic evidence-free programs the real formula_to_bn is run; every "
            "choice-node table and OrCPT is compared with the Coq model's for the same clause; the real factors are multiplied "
            "out (Fractions) and all atom marginals compared with exact possible-world probabilities and ProbLog's own numbers."
            " C31_marginals: the sum over all assignments of the product of all exported factors equals the ancestral pass and the world semantics, for any permutation of a well-formed clause list.",
    "note": "C31_marginals: 'sum over all assignments of the product of all factors = ancestral pass = world semantics' is proved "
            "for every network satisfying the boolean well-formedness wf_netb (duplicate-free atoms, heads among the atoms, "
            "clauses in topological order); C31_marginals_any_order: the marginal is invariant under clause permutation, so the "
            "enum_clauses() order is covered; the harness evaluates wf_netb on a topological permutation of the clauses of every "
            "real exported network. Output formats (hugin/xdsl/uai08/dot) are not covered: factors are read through the "
            "problog.pgm API.",
}

HEADER = """From Coq Require Import QArith NArith List Bool.
From PL.C31 Require Import ModelBN ModelBNwf.
Import ListNotations.
Open Scope Q_scope.
"""


def coq_Q(x):
    x = Fraction(x)
    return "(%d # %d)" % (x.numerator, x.denominator) if x >= 0 else "((%d) # %d)" % (x.numerator, x.denominator)


def fq(x):
    return Fraction(int(round(float(x) * 10 ** 12)), 10 ** 12)


# ------------------------------------------------------------------ real export
def export(src):
    from problog.formula import LogicDAG
    from problog.program import PrologString, ExtendedPrologFactory
    from problog.parser import DefaultPrologParser
    from problog.tasks.bayesnet import formula_to_bn
    gp = LogicDAG.createFrom(PrologString(src, parser=DefaultPrologParser(ExtendedPrologFactory())),
                             label_all=True, avoid_name_clash=False, keep_order=True, keep_all=False,
                             keep_duplicates=False, hide_builtins=False)
    clauses = list(gp.enum_clauses())
    bn = formula_to_bn(gp)
    return gp, clauses, bn


def read_factors(bn):
    """name -> (values, parents, table{tuple(parent values)->row}) through the problog.pgm API"""
    out = {}
    for name, f in bn.factors.items():
        ff = f.to_factor()
        out[name] = (list(bn.vars[name].values), list(ff.parents), dict(ff.table))
    return out


def multiply_out(factors):
    """Exact sum-product over ALL variables (zero-weight branches pruned): returns {var: {value: Fraction}}."""
    order, seen = [], set()

    def visit(v, stack=()):
        if v in seen:
            return
        if v in stack:
            raise ValueError("cyclic network at %s" % v)
        if v not in factors:
            raise MissingFactor(v)
        for p in factors[v][1]:
            visit(p, stack + (v,))
        seen.add(v)
        order.append(v)
    for v in factors:
        visit(v)
    dist = [({}, Fraction(1))]
    for v in order:
        values, parents, table = factors[v]
        new = []
        for asg, w in dist:
            row = table[tuple(asg[p] for p in parents)]
            if len(row) != len(values):
                raise ValueError("row length of %s" % v)
            for val, pr in zip(values, row):
                if pr != 0:
                    a2 = dict(asg)
                    a2[v] = val
                    new.append((a2, w * fq(pr)))
        dist = new
    marg = {v: {} for v in order}
    total = Fraction(0)
    for asg, w in dist:
        total += w
        for v, val in asg.items():
            marg[v][val] = marg[v].get(val, Fraction(0)) + w
    return marg, total, len(dist)


# ------------------------------------------------------------------ encoding of the clauses for the Coq model
class Unsupported(Exception):
    pass


class MissingFactor(Exception):
    """a factor names a parent that is not a variable of the network"""

    def __init__(self, name):
        Exception.__init__(self, "parent %s has no factor" % name)
        self.name = name


def enc_body(t, atom_id):
    from problog.logic import And, Or, Not, Term
    if isinstance(t, And):
        return "(BAnd %s %s)" % (enc_body(t.op1, atom_id), enc_body(t.op2, atom_id))
    if isinstance(t, Or):
        return "(BOr %s %s)" % (enc_body(t.op1, atom_id), enc_body(t.op2, atom_id))
    if isinstance(t, Not):
        return "(BNot %s)" % enc_body(t.child, atom_id)
    if isinstance(t, Term):
        if str(t) == "true":
            return "BTrue"
        return "(BAtom %s)" % vf.coq_N(atom_id(str(t)))
    raise Unsupported("body %r" % (t,))


def enc_clause(cl, atom_id):
    from problog.logic import Clause, Or, Term
    if isinstance(cl, Clause):
        heads = cl.head.to_list() if isinstance(cl.head, Or) else [cl.head]
        body = enc_body(cl.body, atom_id)
    elif isinstance(cl, Or):
        heads, body = cl.to_list(), "BTrue"
    elif isinstance(cl, Term):
        heads, body = [cl], "BTrue"
    else:
        raise Unsupported("clause %r" % (cl,))
    hs = []
    for h in heads:
        p = Fraction(1) if h.probability is None else Fraction(str(h.probability))
        hs.append("(%s, %s)" % (vf.coq_N(atom_id(str(h.with_probability()))), coq_Q(p)))
    return "(mkClause %s %s)" % (vf.coq_list(hs), body)


def body_atom_names(t):
    """names of the atoms of a clause body (same traversal as enc_body)"""
    from problog.logic import And, Or, Not, Term
    if isinstance(t, (And, Or)):
        return body_atom_names(t.op1) + body_atom_names(t.op2)
    if isinstance(t, Not):
        return body_atom_names(t.child)
    if isinstance(t, Term):
        return [] if str(t) == "true" else [str(t)]
    raise Unsupported("body %r" % (t,))


def clause_names(cl):
    """(head atom names, body atom names) of a clause of enum_clauses (same case split as enc_clause)"""
    from problog.logic import Clause, Or, Term
    if isinstance(cl, Clause):
        heads = cl.head.to_list() if isinstance(cl.head, Or) else [cl.head]
        body = body_atom_names(cl.body)
    elif isinstance(cl, Or):
        heads, body = cl.to_list(), []
    elif isinstance(cl, Term):
        heads, body = [cl], []
    else:
        raise Unsupported("clause %r" % (cl,))
    return [str(h.with_probability()) for h in heads], body


def topological_clause_order(clauses):
    """Stable Kahn order of the clause indices such that for every suffix c :: t no body atom of c is a head of c or of
    a clause of t (the hypothesis topo_okb of C31_marginals); None when there is none (cyclic network)."""
    names = [clause_names(cl) for cl in clauses]
    left, order = list(range(len(clauses))), []
    while left:
        pending = set()
        for i in left:
            pending.update(names[i][0])
        pick = next((i for i in left if not pending.intersection(names[i][1])), None)
        if pick is None:
            return None
        order.append(pick)
        left.remove(pick)
    return order


def renamed_bodiless_heads(prog, factors):
    """Heads of a body-less AD with >= 2 heads that have no variable of their own in the exported network (neither
    `H` nor `choice(Id,Idx,H)`): LogicFormula.extract_ads folded them into a clause named after a parent node."""
    import re
    have = set(factors)
    for n in factors:
        mm = re.match(r"^choice\(\d+,\d+,(.*)\)$", n)
        if mm:
            have.add(mm.group(1))
    out = set()
    for it in prog["items"]:
        if it["kind"] == "ad" and not it["body"] and len(it["heads"]) >= 2:
            out.update(h for h, _ in it["heads"] if h not in have)
    return out


def depends_on(prog, atom, targets):
    """atom is in targets or is defined (transitively) through a body that mentions a target"""
    deps = {}
    for it in prog["items"]:
        if it["kind"] == "ad":
            for h, _ in it["heads"]:
                deps.setdefault(h, set()).update(a for a, _ in it["body"])
        else:
            for b in it["bodies"]:
                deps.setdefault(it["head"], set()).update(a for a, _ in b)
    seen, todo = set(), [atom]
    while todo:
        x = todo.pop()
        if x in seen:
            continue
        seen.add(x)
        todo += list(deps.get(x, ()))
    return bool(seen & set(targets))


def mismatch_class(prog, factors, atom):
    # narrow class: the wrong marginal belongs to an atom that depends on a head of a body-less multi-head AD which
    # lost its own variable (the AD was exported as a clause of the parent atom, with that parent rule's body)
    lost = renamed_bodiless_heads(prog, factors)
    if lost and depends_on(prog, atom, lost):
        return "bn-export-bodiless-ad-folded-into-parent-wrong-marginal"
    return None


# minimal witness of class bn-export-bodiless-ad-folded-into-parent-wrong-marginal (fixed probe, every run):
# exported as  0.125::d; 0.25::d :- c.  -> P(d) = 0.1875 instead of 0.25
WITNESS_FOLDED = {"facts": [("c", "0.5")],
                  "items": [{"kind": "ad", "heads": [("a", "0.25"), ("b", "0.125")], "text_order": [0, 1], "body": []},
                            {"kind": "rule", "head": "d", "bodies": [[("b", True)], [("c", True), ("a", True)]]}],
                  "queries": ["d"], "evidence": [], "dyadic": True,
                  "text": "0.25::a; 0.125::b.\n0.5::c.\nd :- b.\nd :- c, a.\nquery(d).\n"}


def run_one(ctx, prog, cases, metas):
    src = prog["text"]
    try:
        gp, clauses, bn = pl.with_timeout(export, 30, src)
        factors = read_factors(bn)
        marg, total, nleaves = multiply_out(factors)
    except BaseException as e:  # noqa
        if isinstance(e, (KeyboardInterrupt, SystemExit)):
            raise
        import traceback
        frames = [f.name for f in traceback.extract_tb(e.__traceback__)]
        bodiless = any(it["kind"] == "ad" and not it["body"] and len(it["heads"]) >= 2 for it in prog["items"])
        klass = None
        if isinstance(e, KeyError) and "extract_ads" in frames and bodiless:
            # LogicFormula.extract_ads has no name for a head of a body-less AD (the head IS the choice atom)
            klass = "bn-export-crash-bodiless-multihead-ad"
        if isinstance(e, AttributeError) and "compute_value" in str(e) and "clause_to_cpt" in frames:
            # enum_clauses yields a fact without probability (an atom that is certainly true / a negated literal)
            klass = "bn-export-crash-fact-without-probability"
        import re
        mname = None
        if isinstance(e, MissingFactor):
            mm = re.match(r"^choice\(\d+,\d+,(.*)\)$", e.name)     # unlabeled head keeps its choice(Id,Index,Head) name
            mname = mm.group(1) if mm else e.name
        if mname is not None and any(it["kind"] == "ad" and not it["body"] and len(it["heads"]) >= 2 and
                                     mname in [h for h, _ in it["heads"]] for it in prog["items"]):
            # the only relevant head of a body-less multi-head AD is exported under the name of the disjunction that
            # uses it (extract_ads takes names from conj/disj parents only): its own variable is missing although other
            # factors list it as parent -> the printed network defines no joint distribution
            klass = "bn-export-bodiless-ad-head-renamed-parent-without-factor"
        ctx.count("export_failed")
        ctx.violation("bn export / reading the network failed with %r on %r" % (e, src), {"program": src}, klass=klass)
        return
    table = c22.world_table(prog)
    atoms = [f for f, _ in prog["facts"]]
    for it in prog["items"]:
        atoms += [h for h, _ in it["heads"]] if it["kind"] == "ad" else [it["head"]]
    exact = {a: sum(w for fv, ch, w, val in table if val[a]) for a in atoms}
    res = pl.evaluate(src)
    nontrivial = any(0 < exact[a] < 1 for a in atoms if a in factors) and any(len(v[0]) > 2 for v in factors.values())
    ctx.case(src, nontrivial, sample={"program": src, "variables": len(factors), "joint_assignments": nleaves})
    ctx.count("variables", len(factors))
    ctx.count("clauses", len(clauses))
    if abs(total - 1) > Fraction(1, 10 ** 9):
        ctx.violation("the product of the exported factors sums to %s, not 1: %r" % (float(total), src), {"program": src},
                      klass=None)
    # judge: marginals of the exported variables vs exact possible-world probabilities / ProbLog's own numbers
    for a in atoms:
        if a not in factors:
            ctx.count("atom_not_exported")
            continue
        pm = marg[a].get(1, Fraction(0))
        if abs(pm - exact[a]) > Fraction(1, 10 ** 9):
            ctx.violation("BN marginal of %s is %s, possible-world probability %s: %r" % (a, float(pm), float(exact[a]), src),
                          {"program": src, "atom": a, "bn": str(pm), "exact": str(exact[a])},
                          klass=mismatch_class(prog, factors, a))
    if res[0] != "ok":
        ctx.violation("ProbLog itself failed (%s) on %r" % (res[1], src), {"program": src}, klass=None)
    else:
        for q, p in res[1].items():
            if q in factors:
                pm = marg[q].get(1, Fraction(0))
                ctx.count("query_compared")
                if abs(float(pm) - p) > 1e-9:
                    ctx.violation("BN marginal of query %s is %s, ProbLog says %s: %r" % (q, float(pm), p, src),
                                  {"program": src, "query": q, "bn": str(pm), "problog": p},
                                  klass=mismatch_class(prog, factors, q))
            elif 1e-12 < p < 1 - 1e-12:
                # the property speaks about the EXPORTED query variables only: a query that shares its node with
                # another atom or is a negative literal of the DAG is not exported; recorded, not a violation
                ctx.count("probabilistic_query_not_exported")
                if len(ctx.cov.setdefault("queries_not_exported", [])) < 5:
                    ctx.cov["queries_not_exported"].append({"program": src, "query": q, "probability": p})
            else:
                ctx.count("deterministic_query_not_exported")
    # tie: every real table vs the Coq model's table for the same clause
    ids = {}

    def atom_id(name):
        return ids.setdefault(name, len(ids) + 1)
    try:
        enc = [enc_clause(cl, atom_id) for cl in clauses]
    except Unsupported as e:
        ctx.broken.append("correspondence:clause shape not modelled (%s) on %r" % (e, src))
        return
    for i, cl in enumerate(clauses):
        name = "c%d" % i
        if name not in bn.factors:
            ctx.broken.append("correspondence:no choice node %s on %r" % (name, src))
            continue
        f = bn.factors[name]
        obs_par = vf.coq_list([vf.coq_N(atom_id(p)) for p in f.parents])
        obs_tab = vf.coq_list(["(%s, %s)" % (vf.coq_list([vf.coq_bool(bool(b)) for b in k]),
                                             vf.coq_list([coq_Q(fq(x)) for x in row])) for k, row in f.table.items()])
        cases.append("check_cpt %s %s %s" % (enc[i], obs_par, obs_tab))
        metas.append((src, "choice node %s of clause %s" % (name, cl)))
    prog_coq = vf.coq_list(enc)
    for name, f in bn.factors.items():
        if hasattr(f, "parentvalues"):
            try:
                pv = vf.coq_list(["(%d%%nat, %d%%nat)" % (int(p[1:]), v) for p, v in f.parentvalues])
            except ValueError:
                ctx.broken.append("correspondence:OrCPT parent name %r on %r" % (f.parentvalues, src))
                continue
            cases.append("check_or %s %s %s" % (vf.coq_N(atom_id(name)), prog_coq, pv))
            metas.append((src, "OrCPT of %s" % name))
            ctx.count("orcpt_multi_parent" if len(f.parentvalues) > 1 else "orcpt_single_parent")
    # tie: the real network satisfies the hypothesis wf_netb of C31_marginals / C31_joint_normalised: the OrCPT variables
    # are duplicate-free, every head atom is one of them, and the clauses admit a topological order (the theorem holds for
    # every order satisfying wf_netb; C31_marginals_any_order: bn_marginal is invariant under clause permutation)
    order = topological_clause_order(clauses)
    or_vars = [name for name, f in bn.factors.items() if hasattr(f, "parentvalues")]
    ctx.count("tie_wf_net")
    if order is None:
        ctx.count("tie_wf_net_no_topological_order")
        order = list(range(len(clauses)))
    elif order == list(range(len(clauses))):
        ctx.count("tie_wf_net_enum_order_already_topological")
    cases.append("wf_netb %s %s" % (vf.coq_list([vf.coq_N(atom_id(n)) for n in or_vars]),
                                    vf.coq_list([enc[i] for i in order])))
    metas.append((src, "well-formedness (wf_netb) of the exported network, clause order %s" % (order,)))


def run(ctx):
    ctx.cov["rule"] = ("random acyclic evidence-free propositional programs (1-4 facts, up to 3 ADs with 1-5 heads and optional "
                       "bodies, rules with negation and several clauses per head, shuffled clause order, 1-4 queries); a case = one "
                       "program; non-trivial = some exported atom has probability strictly between 0 and 1 and some choice node "
                       "has more than 2 values; all atom marginals are compared, not only the queries")
    ctx.assumptions += ["the network is read through problog.pgm (Factor.table, OrCPT.to_factor); the textual output formats are not checked",
                        "float tables are rounded to 1e-12 before the exact sum-product; comparison tolerance 1e-9",
                        "C31_marginals is stated for clause lists in topological order; C31_marginals_any_order (bn_marginal is invariant "
                        "under clause permutation) transfers it to the enum_clauses() order: wf_netb is evaluated on a topological "
                        "permutation of enum_clauses()"]
    ctx.prove("C31/Props.v")
    cases, metas = [], []
    if ctx.replay:
        prog_src = ctx.replay.get("replay", {}).get("program")
        ctx.log("replay not supported without the generator state; program: %r" % (prog_src,))
        return
    nprog = ctx.n(50, 2000)
    run_one(ctx, dict(WITNESS_FOLDED), cases, metas)
    for _ in range(nprog):
        prog = c22.gen_program(ctx.rng, dyadic=ctx.rng.random() < 0.3, with_evidence=False)
        run_one(ctx, prog, cases, metas)
    ctx.log("export + sum-product done: %d table comparisons" % len(cases))
    try:
        bad = ctx.coq_failing(HEADER, cases, name="bn", shard=200)
    except RuntimeError as e:
        ctx.broken.append("correspondence:BN model does not evaluate")
        ctx.notes.append(str(e))
        return
    ctx.cov["tables_compared"] = len(cases)
    ctx.cov["tables_agree"] = len(cases) - len(bad)
    for i in bad[:5]:
        ctx.broken.append("correspondence:ModelBN vs bayesnet.py on %s of program %r" % (metas[i][1], metas[i][0]))
