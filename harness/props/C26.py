"""C26 — subquery/2,3 computes the same probabilities as top-level inference.

Coq: coq/theories/C26 (hand model of engine_builtin._builtin_subquery on top of PL.Sem + reduction theorems).
Tie / judge: generated programs (harness/gen_program.py) extended with one deterministic wrapper per queried goal
    sqw<i>(Vars, Pr) :- subquery(goal_i, Pr).            (kind sq2, sq2_outer: the program's evidence stays OUTSIDE)
    sqw<i>(Vars, Pr) :- subquery(goal_i, Pr, [e1, \\+e2]).  (kind sq3: the evidence is the list argument)
    sqn<i>(Vars, P0, Pr) :- subquery(sqw<i>(Vars, P0), Pr). (nested: subquery whose goal is the wrapper)
evaluated by the real engine.  The bound Pr of every answer is compared with
    (a) what ProbLog itself reports at top level for the same goal on the same clauses (the property's own judge),
    (b) the exact value of the Coq-extracted semantics oracle,
    (c) the answer set of the Coq model `subquery_m` (extracted to OCaml; instances * 2^(ground AD instances) <= 1024),
all at 1e-9; an answer with Pr = 0 is the same observation as no answer.
"""
import signal
from fractions import Fraction

import vf
import pl
import gen_program as gp
import sem_oracle as so

META = {
    "id": "C26",
    "level": "proof",
    "technique": "hand Gallina model of _builtin_subquery over the Coq-defined distribution semantics with reduction theorems "
                 "(same clause database, outer queries/evidence invisible, evidence list = evidence statements, wrapper = fact of "
                 "probability 1); differential correspondence of the real engine against top-level inference, the extracted "
                 "semantics oracle and the model's answer set",
    "design_ref": "DESIGN.md §5 C26",
    "text": "The theorems reduce subquery at any nesting position to Sem.prob on the same clause database (thin by nature: C01 applied "
            "at the nested call). The tie carries the weight: wrapper programs through the real engine vs top-level ProbLog, vs the "
            "exact oracle, vs the model.",
    "note": "Trusted: Coq kernel, extraction of the Sem oracle and of the model (ExtrOcamlBasic) + drivers, generator/encoders; "
            "the nested ground+evaluate is tied to the model by differential runs only. Only the default evaluator/semiring "
            "(subquery/2,3; not the 5-ary form with named semiring/evaluator, not subquery_in_scope).",
}

TOL = 1e-9
ZERO = 1e-12
CPU_LIMIT = 30
PR = "Pr"


# ---------------------------------------------------------------- building the wrapper programs
def goal_vars(a):
    vs = []
    for v in gp.atom_vars(a):
        if v not in vs:
            vs.append(v)
    return vs


def goals_of(prog):
    out = []
    for q in prog.queries():
        if q not in out:
            out.append(q)
    return out


def evlist_text(ev):
    return "[" + ", ".join(("" if v else "\\+") + gp.atom_text(a) for a, v in ev) + "]"


def clause_text(prog):
    return "".join(gp.stmt_text(s) + "\n" for s in prog.clauses())


def wrapper_text(prog, kind, nested=False):
    """kind: 'sq2' (evidence statements of prog are dropped), 'sq2_outer' (they stay as evidence of the OUTER program),
    'sq3' (they become the evidence list of subquery/3), 'sq3_empty' (subquery/3 with the empty list)."""
    lines = [clause_text(prog)]
    ev = prog.evidence()
    if kind == "sq2_outer":
        lines += [gp.stmt_text(("evid", a, v)) + "\n" for a, v in ev]
    for i, g in enumerate(goals_of(prog)):
        vs = [gp.VARNAMES[v] for v in goal_vars(g)]
        head = "sqw%d(%s)" % (i, ",".join(vs + [PR]))
        if kind in ("sq2", "sq2_outer"):
            body = "subquery(%s,%s)" % (gp.atom_text(g), PR)
        elif kind == "sq3_empty":
            body = "subquery(%s,%s,[])" % (gp.atom_text(g), PR)
        else:
            body = "subquery(%s,%s,%s)" % (gp.atom_text(g), PR, evlist_text(ev))
        lines.append("%s :- %s.\nquery(%s).\n" % (head, body, head))
        if nested:
            inner = "sqw%d(%s)" % (i, ",".join(vs + ["P0"]))
            outer = "sqn%d(%s)" % (i, ",".join(vs + ["P0", PR]))
            lines.append("%s :- subquery(%s,%s).\nquery(%s).\n" % (outer, inner, PR, outer))
    return "".join(lines)


def toplevel_prog(prog, kind):
    """the program top-level inference is run on: same clauses, the goals as queries, and the evidence list as
    evidence statements (sq3) / no evidence (sq2*)."""
    stmts = prog.clauses() + [("query", g) for g in goals_of(prog)]
    if kind == "sq3":
        stmts += [("evid", a, v) for a, v in prog.evidence()]
    return gp.Prog(stmts, prog.meta)


def outer_prog(prog):
    """sq2_outer: the outer program as the oracle sees it (decides whether the OUTER evidence is consistent)."""
    return gp.Prog(prog.clauses() + [("query", g) for g in goals_of(prog)] + [("evid", a, v) for a, v in prog.evidence()], prog.meta)


# ---------------------------------------------------------------- running the implementation (CPU-time limited)
class _CpuTimeout(Exception):
    pass


def _on_alarm(signum, frame):
    raise _CpuTimeout()


def _limited(fn):
    old_v = signal.signal(signal.SIGVTALRM, _on_alarm)
    old_a = signal.signal(signal.SIGALRM, _on_alarm)
    signal.setitimer(signal.ITIMER_VIRTUAL, CPU_LIMIT)
    signal.alarm(900)
    try:
        return ("ok", fn())
    except _CpuTimeout:
        return ("err", "Timeout")
    except BaseException as e:  # noqa
        if isinstance(e, (KeyboardInterrupt, SystemExit)):
            raise
        return ("err", pl.err_class(e))
    finally:
        signal.setitimer(signal.ITIMER_VIRTUAL, 0)
        signal.alarm(0)
        signal.signal(signal.SIGVTALRM, old_v)
        signal.signal(signal.SIGALRM, old_a)


def _results(text):
    from problog import get_evaluatable
    from problog.program import PrologString
    from problog.engine import DefaultEngine
    from problog.formula import LogicFormula
    eng = DefaultEngine()
    db = eng.prepare(PrologString(text))
    lf = LogicFormula.create_from(db, engine=eng)
    return get_evaluatable().create_from(lf).evaluate()


def eval_wrapper(text):
    """("ok", [(name, [arg strings | None for an unbound variable], [bound floats], outer probability)]) | ("err", class)"""
    def go():
        from problog.logic import Constant, Var
        out = []
        for t, p in _results(text).items():
            name = t.functor
            nnum = 2 if name.startswith("sqn") else 1
            args = []
            for a in t.args[:len(t.args) - nnum]:
                if isinstance(a, Var) or isinstance(a, int) or a is None:
                    args.append(None)
                else:
                    args.append(str(a))
            nums = []
            for a in t.args[len(t.args) - nnum:]:
                if isinstance(a, Constant) and isinstance(a.functor, (int, float)):
                    nums.append(float(a.functor))
                else:
                    nums.append(None)
            out.append((name, args, nums, float(p)))
        return out
    return _limited(go)


def eval_toplevel(text):
    return _limited(lambda: {str(k): float(v) for k, v in _results(text).items()})


# ---------------------------------------------------------------- judging
def instance_text(goal, args):
    vs = goal_vars(goal)
    m = dict(zip(vs, args))
    if not goal[1]:
        return goal[0]
    return "%s(%s)" % (goal[0], ",".join(m[t[1]] if t[0] == "v" else t[1] for t in goal[1]))


def parse_ground(key):
    if "(" not in key:
        return key, ()
    p, _, rest = key.partition("(")
    return p, tuple(rest[:-1].split(","))


def is_instance(goal, key):
    p, args = parse_ground(key)
    if p != goal[0] or len(args) != len(goal[1]):
        return False
    m = {}
    for t, c in zip(goal[1], args):
        if t[0] == "c":
            if t[1] != c:
                return False
        elif m.setdefault(t[1], c) != c:
            return False
    return True


def compare(prog, impl, ref, what_ref):
    """Compare the wrapper answers of the engine with a reference outcome ("ok", {instance: value}) | ("err", cls).
    Returns a list of disagreement strings (empty = agree)."""
    if ref[0] == "err":
        if impl[0] == "err" and impl[1] == ref[1]:
            return []
        return ["%s gives %s, the wrapper program %s" % (what_ref, ref[1], impl[1] if impl[0] == "err" else "answers %r" % (impl[1],))]
    if impl[0] == "err":
        return ["the wrapper program raised %s, %s answers" % (impl[1], what_ref)]
    bad = []
    goals = goals_of(prog)
    inner = {}      # (i, args) -> [Pr]
    for name, args, nums, outer in impl[1]:
        i = int(name[3:])
        if i >= len(goals):
            bad.append("unexpected answer %s" % name)
            continue
        g = goals[i]
        if abs(outer - 1.0) > TOL:
            bad.append("%s%r has outer probability %r (a deterministic wrapper must have 1)" % (name, args, outer))
        if any(n is None for n in nums):
            bad.append("%s%r: probability argument not bound to a number" % (name, args))
            continue
        if any(a is None for a in args):
            # the goal has no answer at all: one non-ground pseudo-answer with probability 0 (top level prints `g(X): 0` too)
            if name.startswith("sqw") and abs(nums[0]) > ZERO:
                bad.append("%s: non-ground answer with probability %r" % (name, nums[0]))
            continue
        inst = instance_text(g, args)
        if name.startswith("sqw"):
            inner.setdefault((i, tuple(args)), []).append(nums[0])
            want = float(ref[1].get(inst, 0))
            if abs(nums[0] - want) > TOL:
                bad.append("subquery(%s) bound %r, %s says %s" % (inst, nums[0], what_ref, ref[1].get(inst, 0)))
        else:
            # nested: subquery(sqw_i(args, P0), Pr): P0 must be an answer of the wrapper, Pr = 1 (unless P0 = 0 answers ...)
            want = float(ref[1].get(inst, 0))
            if abs(nums[0] - want) > TOL:
                bad.append("nested subquery(sqw(%s)) carries %r, %s says %s" % (inst, nums[0], what_ref, ref[1].get(inst, 0)))
            if abs(nums[1] - 1.0) > TOL:
                bad.append("subquery over the deterministic wrapper of %s bound %r instead of 1" % (inst, nums[1]))
    for i, g in enumerate(goals):
        have = set(instance_text(g, a) for (j, a) in inner if j == i)
        for key, v in ref[1].items():
            if float(v) > TOL and is_instance(g, key) and key not in have:
                bad.append("no answer for %s, %s says %s" % (key, what_ref, v))
    return bad


def eval_case(case):
    """(wrapper program through the engine, top-level inference on the comparison program,
        sq2_outer only: top-level inference on the outer program itself, i.e. with its evidence statements)"""
    prog, kind, nested = case
    return (eval_wrapper(wrapper_text(prog, kind, nested)),
            eval_toplevel(toplevel_prog(prog, "sq3" if kind == "sq3" else "sq2").text()),
            (eval_toplevel(outer_prog(prog).text()), eval_toplevel(outer_dummy_text(prog))) if kind == "sq2_outer" else None)


def outer_dummy_text(prog):
    """the outer program with NO subquery at all: clauses, a dummy deterministic query, the outer evidence (what grounding the
    outer evidence alone does -- some C01 findings only show when the goal was not grounded before in the same target)"""
    return clause_text(prog) + "sqdummy.\nquery(sqdummy).\n" + "".join(gp.stmt_text(("evid", a, v)) + "\n" for a, v in prog.evidence())


def _fresh_worker(args):
    import sys
    fn, item = args
    sys.setrecursionlimit(20000)
    return fn(item)


def pmap_fresh(fn, items, jobs=8):
    """every item in a freshly forked child (maxtasksperchild=1): the engine's behaviour on a few programs with positive
    cycles was seen to depend on what the same process had evaluated before; a fresh child makes every evaluation
    independent of the history (and the run deterministic)."""
    import multiprocessing
    items = list(items)
    if not items:
        return []
    mp = multiprocessing.get_context("fork")
    with mp.Pool(min(jobs, len(items)), maxtasksperchild=1) as pool:
        return pool.map(_fresh_worker, [(fn, x) for x in items], 1)


def expected_for(kind, ref_inner, ref_outer):
    """what the wrapper program must produce, given the oracle value of the nested evaluation and (sq2_outer) of the outer program"""
    if kind == "sq2_outer" and ref_outer is not None and ref_outer[0] == "err":
        return ref_outer
    return ref_inner


def judge_case(case, impl, top, ref_inner, ref_outer, top_outer=None):
    """-> (verdict, details). verdict in: agree, violation, inherited (top level itself deviates from the semantics, subquery follows
    top level), machinery."""
    prog, kind, nested = case
    if ref_inner[0] == "err" and ref_inner[1] not in ("InconsistentEvidence",):
        return "machinery", ["oracle: %s" % ref_inner[1]]
    exp_top = top
    if kind == "sq2_outer" and top_outer is not None:
        # the outer program WITHOUT any subquery (goals queried directly / only a dummy query) already raises at top level
        # (inconsistent outer evidence, or a failure while grounding its evidence): the wrapper program must raise the same,
        # whatever the nested calls return
        errs = [t for t in top_outer if t is not None and t[0] == "err"]
        if errs:
            exp_top = next((t for t in errs if impl[0] == "err" and impl[1] == t[1]), errs[0])
    d_top = compare(prog, impl, exp_top, "top-level ProbLog")
    d_ref = compare(prog, impl, expected_for(kind, ref_inner, ref_outer), "the semantics")
    if not d_top and not d_ref:
        return "agree", []
    if not d_top and d_ref:
        return "inherited", d_ref
    if d_top and not d_ref:
        # subquery equals the exact semantics, so it is TOP LEVEL that deviates from the semantics (a C01 finding, e.g. a
        # NegativeCycle false alarm hit by the joint top-level program before the inconsistent evidence is noticed)
        return "toplevel-deviates", d_top
    return "violation", d_top + ["(vs semantics: %s)" % ("; ".join(d_ref) or "agrees")]


# ---------------------------------------------------------------- the Coq model, extracted (model tie)
EXTRACT_V = """From Coq Require Import NArith QArith List Bool.
Require Import PL.Sem.Program PL.Sem.Sem PL.C26.ModelSubquery.
Require Extraction.
Require ExtrOcamlBasic.
Extraction Language OCaml.
Set Extraction Output Directory ".".
Extraction "oracle.ml" wf_program subquery_m.
"""

MODEL_HANDLE = r"""
let show_outcome = function
  | Answers l -> "ok " ^ String.concat ";" (List.map (fun (a, q) -> show_atom a ^ "=" ^ dec_of_z q.qnum ^ "/" ^ dec_of_pos q.qden) l)
  | Failed r -> "failed " ^ show_res r

(* request:  sq PROGRAM GOALATOM LITLIST, in the s-expression syntax of the Sem oracle *)
let handle line =
  match tokenize line with
  | "sq" :: rest ->
    let (sx, rest1) = parse_one rest in
    let (g, rest2) = parse_one rest1 in
    let (ev, _) = parse_one rest2 in
    let p = prog_of sx in
    if not (wf_program p) then "err IllFormed"
    else show_outcome (subquery_m p (atom_of g) (match ev with L ls -> List.map lit_of ls | _ -> failwith "ev"))
  | _ -> "err BadMode"

let () =
  try
    while true do
      let line = input_line stdin in
      let out = try handle line with e -> "err Exn:" ^ Printexc.to_string e in
      print_string out; print_newline ()
    done
  with End_of_file -> ()
"""


def model_exe(ctx):
    """ModelSubquery.subquery_m extracted (ExtrOcamlBasic only); the s-expression reader and the printers are the ones of
    harness/sem_oracle.py (everything before its `handle`)."""
    head, sep, _ = so.DRIVER_ML.partition("let handle line")
    if not sep:
        raise RuntimeError("sem_oracle.DRIVER_ML has no `let handle line`")
    return ctx.ocaml_oracle("c26model", EXTRACT_V, head + MODEL_HANDLE)


def model_request(case, goal_index):
    prog, kind, _ = case
    goals = goals_of(prog)
    # the program the model sees: clauses, the goals as queries, and (sq2_outer, sq3) the evidence STATEMENTS as well -- the model
    # must ignore them; for sq3 the same literals are also the evidence-list argument
    stmts = prog.clauses() + [("query", q) for q in goals]
    if kind in ("sq2_outer", "sq3"):
        stmts += [("evid", a, v) for a, v in prog.evidence()]
    full = gp.Prog(stmts, prog.meta)
    sx = full.sexp()
    preds, consts, _, _ = full._tables()

    def at(a):
        return "(%d%s)" % (preds[(a[0], len(a[1]))], "".join(" " + ("v%d" % t[1] if t[0] == "v" else "c%d" % consts[t[1]]) for t in a[1]))
    ev = prog.evidence() if kind == "sq3" else []
    return full, "sq %s %s (%s)" % (sx, at(goals[goal_index]), " ".join("(%s %s)" % ("p" if v else "n", at(a)) for a, v in ev))


def model_disagrees(case, goal_index, full, line, impl):
    """compare one line of the extracted model with the engine's answers for goal `goal_index` (None = agree)"""
    g = goals_of(case[0])[goal_index]
    if line.startswith("failed "):
        cls = {"INCONSISTENT": "InconsistentEvidence"}.get(line.split()[1], line.split()[1])
        if impl[0] == "err" and impl[1] == cls:
            return None
        return "model: %s, engine: %s" % (line, str(impl)[:200])
    if not line.startswith("ok"):
        return "model: %s" % line
    model = {}
    body = line[3:].strip()
    if body:
        for item in body.split(";"):
            a, r = item.split("=")
            n, d = r.split("/")
            model[full.decode_atom(a)] = Fraction(int(n), int(d))
    if impl[0] == "err":
        return "model answers %s, engine raised %s" % ({k: str(v) for k, v in model.items()}, impl[1])
    obs = {}
    for name, args, nums, outer in impl[1]:
        if name != "sqw%d" % goal_index or any(a is None for a in args) or nums[0] is None:
            continue
        inst = instance_text(g, args)
        if inst in obs and abs(obs[inst] - nums[0]) > TOL:
            return "engine reports %s twice with different values" % inst
        obs[inst] = nums[0]
    for k in set(model) | set(obs):
        if k not in model and abs(obs[k]) <= ZERO:
            continue      # reported with probability 0 == unreported
        if abs(float(model.get(k, 0)) - obs.get(k, 0.0)) > TOL:
            return "%s: model %s, engine %r" % (k, model.get(k, 0), obs.get(k, 0.0))
    return None


# ---------------------------------------------------------------- documented behaviours (read off the code, values by hand)
# (name, program, expected): expected = {canonical answer: outer probability} | error class.  Canonical answer: numbers rounded
# to 9 decimals, an unbound variable printed as `_`.
FOQ = "n(a). n(b). 0.3::p(X) :- n(X). q(X) :- p(X). "
BEHAVIOURS = [
    ("test/subquery.pl (2-ary and 5-ary form)",
     '0.5::a. b(P) :- subquery(a, P). c(P) :- subquery(a, P, [], "logprob", "ddnnf"). query(b(_)). query(c(_)).',
     {"b(0.5)": 1.0, "c(0.5)": 1.0}),
    ("non-ground evidence element = conjunction of ALL its answers",
     FOQ + "w(X,P) :- subquery(q(X),P,[p(Y)]). query(w(X,P)).", {"w(a,1.0)": 1.0, "w(b,1.0)": 1.0}),
    ("negated non-ground evidence element = no answer of it is true",
     FOQ + "w(X,P) :- subquery(q(X),P,[\\+p(Y)]). query(w(X,P)).", {"w(a,0.0)": 1.0, "w(b,0.0)": 1.0}),
    ("a variable shared by goal and evidence list, unbound at call time, is NOT linked per answer",
     "n(a). n(b). 0.3::p(X) :- n(X). g(X) :- n(X), p(a). w(X,P) :- subquery(g(X),P,[p(X)]). query(w(X,P)).",
     {"w(a,1.0)": 1.0, "w(b,1.0)": 1.0}),
    ("the same with the variable bound before the call: evidence p(X) for that X only",
     "n(a). n(b). 0.3::p(X) :- n(X). g(X) :- n(X), p(a). w(X,P) :- n(X), subquery(g(X),P,[p(X)]). query(w(X,P)).",
     {"w(a,1.0)": 1.0, "w(b,0.3)": 1.0}),
    ("negated goal", "0.5::a. w(P) :- subquery(\\+a,P). query(w(P)).", {"w(0.5)": 1.0}),
    ("non-ground goal without any answer: one pseudo-answer, goal variables unbound, probability 0 (top level prints q(X): 0 as well)",
     "n(a). n(b). 0.3::p(X) :- n(X). q(X) :- p(X), fail. w(X,P) :- subquery(q(X),P). query(w(X,P)).", {"w(_,0.0)": 1.0}),
    ("ground goal without proof: probability 0",
     "n(a). n(b). 0.3::p(X) :- n(X). q(X) :- p(X), fail. w(X,P) :- subquery(q(X),P). query(w(a,P)).", {"w(a,0.0)": 1.0}),
    ("undefined goal predicate: UnknownClause, as for query(zz)", "0.5::a. w(P) :- subquery(zz,P). query(w(P)).", "GroundingError"),
    ("undefined evidence predicate: UnknownClause", "0.5::a. w(P) :- subquery(a,P,[zz]). query(w(P)).", "GroundingError"),
    ("probability argument must be unbound", "0.5::a. w :- subquery(a,0.5). query(w).", "GroundingError"),
    ("evidence argument must be a proper list", "0.5::a. w(P) :- subquery(a,P,[b|T]). query(w(P)).", "GroundingError"),
    ("unbound goal", "0.5::a. w(P) :- subquery(G,P). query(w(P)).", "GroundingError"),
    ("impossible evidence list: the whole outer inference raises", "0.5::a. 0.5::b. c :- a, b. w(P) :- subquery(c,P,[c,\\+a]). query(w(P)).",
     "InconsistentEvidence"),
    ("evidence of probability 0 on a deterministic atom", "0.5::a. n(a). w(P) :- subquery(a,P,[n(b)]). query(w(P)).", "InconsistentEvidence"),
    ("evidence that makes the goal impossible: 0, not an error", "0.5::a. 0.5::b. c :- a, b. w(P) :- subquery(c,P,[\\+c,a]). query(w(P)).", {"w(0.0)": 1.0}),
    ("repeated evidence", "0.5::a. 0.5::b. c :- a, b. w(P) :- subquery(c,P,[a,a]). query(w(P)).", {"w(0.5)": 1.0}),
    ("negative cycle only where the nested goal reaches it", "0.5::a. b :- \\+b. w(P) :- subquery(a,P). query(w(P)).", {"w(0.5)": 1.0}),
    ("negative cycle under the nested goal", "0.5::a. b :- \\+b. w(P) :- subquery(b,P). query(w(P)).", "NegativeCycle"),
    ("subquery over a wrapper: 1", "0.5::a. w(P) :- subquery(v(P0),P). v(P) :- subquery(a,P). query(w(P)).", {"w(1.0)": 1.0}),
    ("two facts for one atom (noisy-or) inside the nested call", "0.5::a. 0.5::a. w(P) :- subquery(a,P). query(w(P)).", {"w(0.75)": 1.0}),
    ("wrapper inside a probabilistic body: the nested value does not depend on the outer proof context",
     "0.5::a. w(P) :- a, subquery(a,P). query(w(P)).", {"w(0.5)": 0.5}),
    ("the wrapper's value used by a probabilistic rule",
     FOQ + "w(X,P) :- subquery(q(X),P). r(X) :- p(X), w(X,P), P > 0.2. query(r(X)).", {"r(a)": 0.3, "r(b)": 0.3}),
    ("outer evidence is not seen by the nested call",
     "0.5::a. 0.4::b. c :- a. c :- b. evidence(a,false). w(P) :- subquery(c,P). query(w(P)). query(c).", {"w(0.7)": 1.0, "c": 0.4}),
]


def eval_canonical(text):
    def go():
        from problog.logic import Constant, Var

        def show(a):
            if isinstance(a, Var) or isinstance(a, int) or a is None:
                return "_"
            if isinstance(a, Constant) and isinstance(a.functor, float):
                return repr(round(a.functor, 9) + 0.0)
            return str(a)
        out = {}
        for t, p in _results(text).items():
            key = t.functor if not t.args else "%s(%s)" % (t.functor, ",".join(show(a) for a in t.args))
            out[key] = float(p)
        return out
    return _limited(go)


def run_behaviours(ctx):
    gots = pmap_fresh(eval_canonical, [b[1] for b in BEHAVIOURS], jobs=8)
    for (name, text, want), got in zip(BEHAVIOURS, gots):
        ok = (got[0] == "err" and got[1] == want) if isinstance(want, str) else (
            got[0] == "ok" and set(got[1]) == set(want) and all(abs(got[1][k] - want[k]) <= TOL for k in want))
        ctx.case(("behaviour", text), True)
        ctx.count("behaviour:%s" % ("as documented" if ok else "CHANGED"))
        if not ok:
            ctx.violation("documented behaviour of subquery changed (%s): %s gives %r, documented %r" % (name, text, got, want),
                          {"behaviour": name, "program": text, "got": got, "documented": want}, klass=None)


# ---------------------------------------------------------------- case generation
FIXED = [
    # (program text for gp.parse_simple, kind)
    ("0.5::a. 0.4::b. c :- a. c :- b. query(c).", "sq2"),
    ("0.5::a. 0.4::b. c :- a. c :- b. query(c). evidence(a,false).", "sq2_outer"),
    ("0.5::a. 0.4::b. c :- a. c :- b. query(c). evidence(a,false).", "sq3"),
    ("0.5::a. 0.4::b. c :- a. c :- b. query(c). evidence(a,true). evidence(a,false).", "sq3"),
    ("0.5::a. 0.4::b. c :- a. c :- b. query(c). evidence(a,true). evidence(a,false).", "sq2_outer"),
    ("0.5::a. 0.4::b. c :- a. c :- b. d :- a, \\+a. query(c). evidence(d,true).", "sq3"),
    ("0.5::a. 0.4::b. c :- a. c :- b. d :- a, \\+a. query(c). query(d). evidence(d,false).", "sq3"),
    ("n(a). n(b). 0.3::p(X) :- n(X). q(X) :- p(X). query(q(X)). evidence(p(a),true).", "sq3"),
    ("n(a). n(b). 0.3::p(X) :- n(X). q(X) :- p(X). query(q(X)). query(q(a)). evidence(n(a),true). evidence(n(b),false).", "sq3"),
    ("n(a). n(b). 0.3::p(X) :- n(X). q(X) :- p(X), \\+p(X). query(q(X)). query(q(b)).", "sq2"),
    ("n(a). n(b). e(a,b). e(b,a). 0.5::pe(X,Y) :- e(X,Y). path(X,Y) :- pe(X,Y). path(X,Y) :- pe(X,Z), path(Z,Y). "
     "query(path(a,X)). query(path(X,X)). evidence(pe(a,b),false).", "sq3"),
    ("n(a). n(b). 0.3::col(X,a); 0.4::col(X,b) :- n(X). query(col(X,Y)). query(col(a,Y)). evidence(col(a,a),false).", "sq3"),
    ("0.4::a. 0.4::a. b :- \\+a. query(a). query(b). evidence(b,false).", "sq3"),
    ("0.5::a; 0.5::b. c :- a, b. query(c). query(a). evidence(c,true).", "sq3"),
]


def synth_evidence(rng, prog):
    """a random evidence list over atoms the program defines (ground, constants of the program)"""
    defined = sorted(set((h[0], len(h[1])) for s in prog.clauses() for h in gp.stmt_heads(s)))
    consts = prog.constants() or ["a"]
    _, pt = gp.possibly_true(prog)
    ptl = sorted(pt) if pt else []
    ev = []
    for _ in range(rng.choice([1, 1, 2, 2, 3])):
        if ptl and rng.random() < 0.8:
            g = rng.choice(ptl)
            a = (g[0], tuple(gp.C(c) for c in g[1]))
        else:
            p, ar = rng.choice(defined)
            a = (p, tuple(gp.C(rng.choice(consts)) for _ in range(ar)))
        ev.append((a, rng.random() < 0.6))
    r = rng.random()
    if r < 0.12 and ev:
        a, v = ev[0]
        ev.append((a, not v))          # contradictory list
    return ev


def with_evidence(prog, ev):
    return gp.Prog(prog.clauses() + [("query", g) for g in goals_of(prog)] + [("evid", a, v) for a, v in ev], prog.meta)


def make_cases(ctx, n):
    cases = []
    for text, kind in FIXED:
        cases.append((gp.parse_simple(text), kind, True))
    for _ in range(n):
        p = gp.gen_program(ctx.rng)
        nested = ctx.rng.random() < 0.3
        cases.append((with_evidence(p, []), "sq2", nested))
        if p.evidence():
            cases.append((p, "sq2_outer", False))
            cases.append((p, "sq3", ctx.rng.random() < 0.2))
        r = ctx.rng.random()
        if r < 0.7:
            cases.append((with_evidence(p, synth_evidence(ctx.rng, p)), ctx.rng.choice(["sq3", "sq3", "sq3", "sq2_outer"]), False))
        elif r < 0.8:
            cases.append((with_evidence(p, []), "sq3_empty", False))
    return cases


# ---------------------------------------------------------------- history family: ONE ClauseDB, queried, modified in place, queried again
# (a seeded memoisation of subquery answers on the database object is invisible to one-shot programs)
GAD_FACT = "sqb"     # 0.45::sqb.   G :- sqb.            (Python variants: added with db += ...)
GAD_KEY = "sqk"      # sqk(0).      G :- sqk(1), sqb.    (program-level variant: assertz(sqk(1)) / retract(sqk(1)))


def ground_instance(rng, prog, goal):
    consts = prog.constants() or ["a"]
    m = {}
    args = []
    for t in goal[1]:
        if t[0] == "v":
            if t[1] not in m:
                m[t[1]] = rng.choice(consts)
            args.append(gp.C(m[t[1]]))
        else:
            args.append(t)
    return (goal[0], tuple(args))


def make_history(rng, p):
    """-> dict describing one history over program p (clauses + goals): base clauses, extra clauses (added in place),
    evidence list for the subquery/3 wrappers, the gadget instance G for the program-level variant."""
    goals = goals_of(p)
    clauses = p.clauses()
    G = ground_instance(rng, p, goals[0])
    gadget = [("ad", [("0.45", (GAD_FACT, ()))], []), ("rule", G, [(True, (GAD_FACT, ()))])]
    heads = {}
    for i, c in enumerate(clauses):
        for h in gp.stmt_heads(c):
            heads.setdefault((h[0], len(h[1])), set()).add(i)
    eligible = [i for i, c in enumerate(clauses) if all(len(heads[(h[0], len(h[1]))]) > 1 for h in gp.stmt_heads(c))]
    if eligible and rng.random() < 0.6:
        i = rng.choice(eligible)
        base, extra, how = clauses[:i] + clauses[i + 1:], [clauses[i]], "held-out clause"
        if rng.random() < 0.3:
            extra = extra + gadget
            how = "held-out clause + gadget"
    else:
        base, extra, how = clauses, gadget, "gadget"
    ev = synth_evidence(rng, gp.Prog(base + [("query", g) for g in goals])) if rng.random() < 0.8 else []
    ev = [(a, v) for a, v in ev if a[0] != GAD_FACT]
    return {"base": base, "extra": extra, "goals": goals, "ev": ev, "G": G, "how": how,
            "mode": rng.choice(["iadd", "iadd", "extend"])}


def hist_prog(h, state, with_ev):
    """the program of a state as a gp.Prog: state 0 = base, 1 = base + extra; goals as queries; evidence statements when with_ev"""
    stmts = list(h["base"]) + (list(h["extra"]) if state else []) + [("query", g) for g in h["goals"]]
    if with_ev:
        stmts += [("evid", a, v) for a, v in h["ev"]]
    return gp.Prog(stmts)


def hist_wrappers_text(h):
    lines = []
    for i, g in enumerate(h["goals"]):
        vs = [gp.VARNAMES[v] for v in goal_vars(g)]
        lines.append("sqw%d(%s) :- subquery(%s,%s).\n" % (i, ",".join(vs + [PR]), gp.atom_text(g), PR))
        lines.append("sqv%d(%s) :- subquery(%s,%s,%s).\n" % (i, ",".join(vs + [PR]), gp.atom_text(g), PR, evlist_text(h["ev"])))
    return "".join(lines)


def _obs(results, rename=None):
    from problog.logic import Constant, Var
    out = []
    for t, p in results.items():
        name = t.functor
        if rename and name.startswith(rename[0]):
            name = rename[1] + name[len(rename[0]):]
        args = []
        for a in t.args[:-1]:
            args.append(None if (isinstance(a, Var) or isinstance(a, int) or a is None) else str(a))
        a = t.args[-1]
        nums = [float(a.functor) if isinstance(a, Constant) and isinstance(a.functor, (int, float)) else None]
        out.append((name, args, nums, float(p)))
    return out


def eval_history(h):
    """One process, ONE engine, ONE ClauseDB.  Returns ("ok", [step...]) with
    step = (label, state, sq2 observation, sq3 observation, top-level no-evidence, top-level with evidence),
    every observation ("ok", ...) | ("err", class); top level = inference on the SAME database object as it stands."""
    def go():
        from problog import get_evaluatable
        from problog.program import PrologString
        from problog.engine import DefaultEngine
        from problog.logic import Term
        box = {"eng": DefaultEngine()}
        text0 = "".join(gp.stmt_text(c) + "\n" for c in h["base"]) + hist_wrappers_text(h)
        db = box["eng"].prepare(PrologString(text0))
        goals = h["goals"]
        q2 = [Term("sqw%d" % i, *([None] * (len(goal_vars(g)) + 1))) for i, g in enumerate(goals)]
        q3 = [Term("sqv%d" % i, *([None] * (len(goal_vars(g)) + 1))) for i, g in enumerate(goals)]
        qg = [Term.from_string(gp.atom_text(g)) for g in goals]
        evid = [(Term.from_string(gp.atom_text(a)), bool(v)) for a, v in h["ev"]]

        def run(database, queries, evidence, conv):
            try:
                lf = box["eng"].ground_all(database, queries=queries, evidence=evidence)
                return ("ok", conv(get_evaluatable().create_from(lf).evaluate()))
            except _CpuTimeout:
                raise
            except BaseException as e:  # noqa
                if isinstance(e, (KeyboardInterrupt, SystemExit)):
                    raise
                # an exception that leaves a builtin (e.g. InconsistentEvidence out of subquery/3) leaves the engine OBJECT with a
                # non-empty stack: every later call on it raises InvalidEngineState (clean tree; not about subquery, see notes).
                # Continue the history with a new engine on the SAME database object.
                box["eng"] = DefaultEngine()
                return ("err", pl.err_class(e))

        def plain(res):
            return {str(k): float(v) for k, v in res.items()}

        def step(label, database, state):
            return (label, state,
                    run(database, q2, [], lambda r: _obs(r)),
                    run(database, q3, [], lambda r: _obs(r, ("sqv", "sqw"))),
                    run(database, qg, [], plain),
                    run(database, qg, evid, plain))
        steps = [step("initial", db, 0), step("initial, repeated", db, 0)]
        extra = PrologString("".join(gp.stmt_text(c) + "\n" for c in h["extra"]))
        if h["mode"] == "iadd":
            for cl in extra:
                db += cl
            steps += [step("after db += extra", db, 1), step("after db += extra, repeated", db, 1)]
        else:
            child = db.extend()
            for cl in extra:
                child += cl
            steps += [step("child = db.extend(); child += extra", child, 1), step("parent after the child was extended", db, 0),
                      step("child again", child, 1)]
        return steps
    return _limited(go)


def judge_history(h, out, refs):
    """refs[(state, with_ev)] = oracle outcome.  -> (verdict, details) with the vocabulary of judge_case"""
    if out[0] == "err":
        return "machinery", ["history evaluation failed as a whole: %s" % out[1]]
    worst, details = "agree", []
    first = {}
    for label, state, o2, o3, t2, t3 in out[1]:
        for kind, o, t, with_ev in (("subquery/2", o2, t2, False), ("subquery/3", o3, t3, True)):
            prog = hist_prog(h, state, with_ev)
            d_top = compare(prog, o, t, "top-level inference on the same database")
            d_ref = compare(prog, o, refs[(state, with_ev)], "the semantics")
            key = (state, kind, label.startswith("parent"))
            if key in first and not same_obs(first[key], o):
                d_top.append("a repeated identical call gave different answers: %r then %r" % (first[key], o))
            first.setdefault(key, o)
            if d_top and not d_ref:
                if worst == "agree":
                    worst = "toplevel-deviates"
            elif d_top:
                worst = "violation"
                details.append("[%s, %s] %s" % (label, kind, "; ".join(d_top)))
            elif d_ref and worst != "violation":
                worst = "inherited"
                details.append("[%s, %s] %s" % (label, kind, "; ".join(d_ref)))
    return worst, details


def same_obs(a, b):
    if a[0] != b[0]:
        return False
    if a[0] == "err":
        return a[1] == b[1]
    ka = sorted((n, tuple(x or "_" for x in ar), round(nu[0], 9) if nu[0] is not None else None) for n, ar, nu, _ in a[1])
    kb = sorted((n, tuple(x or "_" for x in ar), round(nu[0], 9) if nu[0] is not None else None) for n, ar, nu, _ in b[1])
    return ka == kb


# program-level variant: library(assert) between subquery calls in ONE query body
def assert_text(h):
    G = gp.atom_text(h["G"])
    ev = evlist_text(h["ev"])
    return (":- use_module(library(assert)).\n" + "".join(gp.stmt_text(c) + "\n" for c in h["base"])
            + "%s(0).\n0.45::%s.\n%s :- %s(1), %s.\n" % (GAD_KEY, GAD_FACT, G, GAD_KEY, GAD_FACT)
            + "sqh(P1,P2,P3,P4) :- subquery(%s,P1), assertz(%s(1)), subquery(%s,P2), subquery(%s,P3), retract(%s(1)), subquery(%s,P4).\n"
              % (G, GAD_KEY, G, G, GAD_KEY, G)
            + "sqj(P1,P2,P3,P4) :- subquery(%s,P1,%s), assertz(%s(1)), subquery(%s,P2,%s), subquery(%s,P3,%s), retract(%s(1)), subquery(%s,P4,%s).\n"
              % (G, ev, GAD_KEY, G, ev, G, ev, GAD_KEY, G, ev))


def assert_state_prog(h, state, with_ev):
    gadget = [("ad", [("0.45", (GAD_FACT, ()))], []), ("rule", h["G"], [(True, (GAD_FACT, ()))])]
    stmts = list(h["base"]) + (gadget if state else []) + [("query", h["G"])]
    if with_ev:
        stmts += [("evid", a, v) for a, v in h["ev"]]
    return gp.Prog(stmts)


def eval_assert(h):
    """(sqh answers, sqj answers, top-level on the four state programs in fresh engines) ; each ("ok", ..)|("err", cls)"""
    def nums(query):
        def go():
            from problog.logic import Constant
            out = []
            for t, p in _results(assert_text(h) + "query(%s(_,_,_,_)).\n" % query).items():
                out.append(([float(a.functor) if isinstance(a, Constant) and isinstance(a.functor, (int, float)) else None for a in t.args], float(p)))
            return out
        return _limited(go)
    tops = {}
    for state in (0, 1):
        for with_ev in (False, True):
            tops[(state, with_ev)] = eval_toplevel(assert_state_prog(h, state, with_ev).text())
    return nums("sqh"), nums("sqj"), tops


def judge_assert(h, out, refs):
    G = gp.atom_text(h["G"])
    worst, details = "agree", []
    for kind, o, with_ev in (("subquery/2", out[0], False), ("subquery/3", out[1], True)):
        want_top = [out[2][(s, with_ev)] for s in (0, 1, 1, 0)]
        want_ref = [refs[(s, with_ev)] for s in (0, 1, 1, 0)]

        def diff(want, what):
            errs = [w for w in want if w[0] == "err"]
            if errs:
                if o[0] == "err" and any(o[1] == w[1] for w in errs):
                    return []
                return ["%s raises %s in some state, the program gives %r" % (what, errs[0][1], o)]
            if o[0] == "err":
                return ["the program raised %s, %s answers" % (o[1], what)]
            if len(o[1]) != 1:
                return ["%d answers instead of one: %r" % (len(o[1]), o[1])]
            vals, outer = o[1][0]
            bad = []
            if abs(outer - 1.0) > TOL:
                bad.append("outer probability %r" % outer)
            for k, (v, w) in enumerate(zip(vals, want)):
                exp = float(w[1].get(G, 0))
                if v is None or abs(v - exp) > TOL:
                    bad.append("P%d = %r but %s on the program as it stands says %s" % (k + 1, v, what, w[1].get(G, 0)))
            return bad
        d_top = diff(want_top, "top-level ProbLog")
        d_ref = diff(want_ref, "the semantics")
        if d_top and not d_ref:
            if worst == "agree":
                worst = "toplevel-deviates"
        elif d_top:
            worst = "violation"
            details.append("[%s] %s" % (kind, "; ".join(d_top)))
        elif d_ref and worst != "violation":
            worst = "inherited"
            details.append("[%s] %s" % (kind, "; ".join(d_ref)))
    return worst, details


def hist_json(h):
    return {k: (gp.Prog(v).to_json()["stmts"] if k in ("base", "extra") else v) for k, v in h.items()}


def hist_describe(h):
    return ("base: %s | wrappers: %s | extra (%s, %s): %s" % (
        " ".join(gp.stmt_text(c) for c in h["base"]), hist_wrappers_text(h).replace("\n", " "), h["how"], h["mode"],
        " ".join(gp.stmt_text(c) for c in h["extra"])))


def run_histories(ctx):
    n = ctx.n(24, 200)
    hs = []
    while len(hs) < n:
        p = gp.gen_program(ctx.rng)
        hs.append(make_history(ctx.rng, with_evidence(p, [])))
    # fixed witnesses (the lead's demo): held-out clause q :- b, c ; assert gadget on q
    w = gp.parse_simple("0.3::a. 0.5::b. 0.8::c. q :- a. q :- b, c. query(q). evidence(c,true).")
    cl = w.clauses()
    for mode in ("iadd", "extend"):
        hs.append({"base": cl[:4], "extra": cl[4:], "goals": goals_of(w), "ev": w.evidence(), "G": goals_of(w)[0], "how": "held-out clause", "mode": mode})
    ctx.log("history family: %d databases queried, modified in place, queried again (+ %d library(assert) programs)" % (len(hs), len(hs)))
    keys = [(s, e) for s in (0, 1) for e in (False, True)]
    ref_h = so.oracle_eval(ctx, [hist_prog(h, s, e) for h in hs for (s, e) in keys], "fast", jobs=8)
    ref_a = so.oracle_eval(ctx, [assert_state_prog(h, s, e) for h in hs for (s, e) in keys], "fast", jobs=8)
    outs_h = pmap_fresh(eval_history, hs, jobs=8)
    outs_a = pmap_fresh(eval_assert, hs, jobs=8)
    nrep = 0
    for k, h in enumerate(hs):
        rh = dict(zip(keys, ref_h[4 * k:4 * k + 4]))
        ra = dict(zip(keys, ref_a[4 * k:4 * k + 4]))
        for fam, (verdict, details), rr in (("python-api", judge_history(h, outs_h[k], rh), rh), ("library-assert", judge_assert(h, outs_a[k], ra), ra)):
            changed = rr[(0, False)] != rr[(1, False)] or rr[(0, True)] != rr[(1, True)]
            ctx.case(("history", fam, hist_describe(h)), changed,
                     sample={"family": fam, "history": hist_describe(h), "verdict": verdict} if fam == "python-api" else None)
            ctx.count("history:%s:%s" % (fam, verdict))
            ctx.count("history:%s:%s" % (fam, "modification changes a probability" if changed else "modification changes nothing"))
            if fam == "python-api":
                ctx.count("history:mode:%s/%s" % (h["mode"], h["how"]))
            if verdict == "machinery":
                ctx.broken.append("history:%s on %s" % (details, hist_describe(h)[:300]))
            elif verdict == "inherited":
                ctx.count("history:toplevel-itself-deviates-from-semantics(subquery follows top level)")
            elif verdict == "violation":
                nrep += 1
                what = ("subquery on a database modified in place (%s) differs from top-level inference on the current contents: %s | %s"
                        % (fam, "; ".join(details)[:700], hist_describe(h) if fam == "python-api" else assert_text(h).replace("\n", " ")))
                ctx.violation(what, {"family": fam, "history": hist_json(h), "observed": repr(outs_h[k] if fam == "python-api" else outs_a[k]),
                                     "program": assert_text(h) if fam == "library-assert" else None}, klass=None)


# ---------------------------------------------------------------- reporting
def classify(case, impl, top, details):
    return None


def one_oracle(ctx, prog):
    return so.oracle_eval(ctx, [prog], "fast", jobs=1)[0]


def refs_for(ctx, case):
    prog, kind, _ = case
    ri = one_oracle(ctx, toplevel_prog(prog, "sq3" if kind == "sq3" else "sq2"))
    ro = one_oracle(ctx, outer_prog(prog)) if kind == "sq2_outer" else None
    return ri, ro


def run_one(ctx, case):
    impl, top, top_outer = pmap_fresh(eval_case, [case], jobs=1)[0]
    ri, ro = refs_for(ctx, case)
    return judge_case(case, impl, top, ri, ro, top_outer), impl, top, ri


def report(ctx, case, verdict, details, impl, top, ri, state):
    prog, kind, nested = case
    small = case
    n = state.get("n", 0)
    state["n"] = n + 1
    if n < 3:
        def bad(c):
            try:
                (v, _), _, _, _ = run_one(ctx, (c, kind, nested))
            except Exception:
                return False
            return v == "violation"
        try:
            sp = gp.shrink(prog, bad, max_steps=ctx.n(60, 200))
            (v2, d2), i2, t2, r2 = run_one(ctx, (sp, kind, nested))
            if v2 == "violation":
                small, details, impl, top, ri = (sp, kind, nested), d2, i2, t2, r2
        except Exception as e:  # shrinking is best effort
            ctx.notes.append("shrink failed: %r" % (e,))
    sp = small[0]
    what = "subquery (%s%s) differs from top-level inference: %s | wrapper program: %s" % (
        kind, ", nested" if nested else "", "; ".join(details)[:600], wrapper_text(sp, kind, nested).replace("\n", " "))
    ctx.violation(what, {"program": sp.to_json(), "kind": kind, "nested": nested, "wrapper_program": wrapper_text(sp, kind, nested),
                         "original_wrapper_program": wrapper_text(prog, kind, nested), "implementation": impl, "toplevel": top,
                         "semantics": [ri[0], {k: str(v) for k, v in ri[1].items()} if ri[0] == "ok" else ri[1]]},
                  klass=classify(small, impl, top, details))


def run(ctx):
    ctx.cov["rule"] = ("programs from harness/gen_program.py (+ fixed witnesses); per program: subquery/2 wrapper per queried goal "
                       "(evidence dropped), the same with the program's evidence kept as OUTER evidence, subquery/3 with the program's "
                       "evidence / a synthesised evidence list (12% contradictory) / the empty list, 30% with a subquery nested over the wrapper; "
                       "non-trivial = the semantics gives some goal instance a probability strictly between 0 and 1, or the evidence list is "
                       "inconsistent; distinct = distinct wrapper program texts")
    ctx.assumptions += [
        "the nested ground+evaluate of _builtin_subquery is tied to the Coq model by differential runs (not modelled step by step)",
        "only subquery/2 and subquery/3 with the default evaluator and semiring (the 5-ary form and subquery_in_scope are not exercised)",
        "evidence lists in the Coq model are ground literals; a non-ground element is exercised by the fixed witnesses of the notes only",
        "the reference value is the extracted SemFast oracle (tied to Sem.prob by C01/C08), implementation floats compared at 1e-9",
    ]
    ctx.prove("C26/Props.v")
    ctx.prove("C26/PropsExtra.v")
    try:
        so.build(ctx)
    except Exception as e:
        ctx.broken.append("oracle:extraction/build failed")
        ctx.notes.append(str(e)[-2000:])
        return
    if ctx.replay:
        r = ctx.replay["replay"]
        case = (gp.Prog.from_json(r["program"]), r["kind"], bool(r.get("nested")))
        (verdict, details), impl, top, ri = run_one(ctx, case)
        ctx.case(wrapper_text(*case), True, sample={"program": wrapper_text(*case), "verdict": verdict})
        if verdict == "violation":
            report(ctx, case, verdict, details, impl, top, ri, {"n": 99})
        return
    run_behaviours(ctx)
    run_histories(ctx)
    cases = make_cases(ctx, ctx.n(50, 300))
    ctx.log("%d wrapper programs; oracle" % len(cases))
    ref_inner = so.oracle_eval(ctx, [toplevel_prog(c[0], "sq3" if c[1] == "sq3" else "sq2") for c in cases], "fast", jobs=8)
    outer_idx = [i for i, c in enumerate(cases) if c[1] == "sq2_outer"]
    ro = so.oracle_eval(ctx, [outer_prog(cases[i][0]) for i in outer_idx], "fast", jobs=8)
    ref_outer = dict(zip(outer_idx, ro))
    nch = so.oracle_eval(ctx, [outer_prog(c[0]) for c in cases], "nch", jobs=8)
    ctx.log("implementation: wrapper programs and top-level programs")
    res = pmap_fresh(eval_case, cases, jobs=8)
    state = {}
    tie = []
    for i, (case, (impl, top, top_outer), ri, nc) in enumerate(zip(cases, res, ref_inner, nch)):
        prog, kind, nested = case
        verdict, details = judge_case(case, impl, top, ri, ref_outer.get(i), top_outer)
        vals = list(ri[1].values()) if ri[0] == "ok" else []
        nontrivial = (ri[0] == "err" and ri[1] == "InconsistentEvidence") or any(0 < v < 1 for v in vals)
        ctx.case(wrapper_text(*case), nontrivial, sample={"wrapper_program": wrapper_text(*case), "engine": str(impl)[:300],
                                                          "toplevel": str(top)[:200], "semantics": str(ri)[:200]})
        ctx.count("kind:%s%s" % (kind, "+nested" if nested else ""))
        ctx.count("verdict:%s" % verdict)
        ctx.count("outcome:%s" % (impl[1] if impl[0] == "err" else "answers"))
        f = prog.features()
        goals = goals_of(prog)
        for name, cond in (("goal_nonground", any(goal_vars(g) for g in goals)),
                           ("goal_repeated_var", any(len(gp.atom_vars(g)) != len(goal_vars(g)) for g in goals)),
                           ("several_answers", impl[0] == "ok" and len([a for a in impl[1] if a[0].startswith("sqw")]) > len(goals)),
                           ("zero_probability_answer", impl[0] == "ok" and any(a[2][0] is not None and abs(a[2][0]) <= ZERO for a in impl[1])),
                           ("nonground_pseudo_answer", impl[0] == "ok" and any(None in a[1] for a in impl[1])),
                           ("semantic_zero_instance", ri[0] == "ok" and any(v == 0 for v in vals)),
                           ("recursion", f["recursion"]), ("negation", f["negation"]), ("ad_multi", f["ad_multi"]),
                           ("evidence_on_derived", f["evidence_derived"] and kind in ("sq3", "sq2_outer")),
                           ("evidence_negative", f["evidence_neg"] and kind in ("sq3", "sq2_outer")),
                           ("evidence_inconsistent", ri[0] == "err"),
                           ("outer_evidence_inconsistent", kind == "sq2_outer" and ref_outer[i][0] == "err")):
            if cond:
                ctx.count("feature:" + name)
        if verdict == "machinery":
            ctx.broken.append("oracle:%s on %s" % (details, prog.text().replace("\n", " ")[:200]))
        elif verdict == "inherited":
            ctx.count("toplevel-itself-deviates-from-semantics(C01 finding, subquery follows top level)")
        elif verdict == "toplevel-deviates":
            ctx.count("toplevel-itself-deviates-from-semantics(C01 finding, subquery agrees with the semantics)")
        elif verdict == "violation":
            report(ctx, case, verdict, details, impl, top, ri, state)
        # model tie on small instances: Sem.prob_gen enumerates every ground AD instance
        ninst = max([len(prog.constants() or ["a"]) ** len(goal_vars(g)) for g in goals] or [1])
        small = nc[0] == "nch" and ninst * 2 ** nc[1][1] <= 1024 and len(tie) < ctx.n(400, 1000)
        outer_bad = kind == "sq2_outer" and ref_outer[i][0] == "err"
        if small and verdict in ("agree", "violation") and not outer_bad and (impl[0] == "ok" or impl[1] == "InconsistentEvidence"):
            for gi in range(len(goals)):
                full, line = model_request(case, gi)
                tie.append((i, gi, full, line))
    ctx.log("model tie: %d goals through the extracted ModelSubquery.subquery_m" % len(tie))
    try:
        exe = model_exe(ctx)
        chunks = [tie[k::8] for k in range(8) if tie[k::8]]
        from concurrent.futures import ThreadPoolExecutor
        with ThreadPoolExecutor(max_workers=8) as ex:
            outs = list(ex.map(lambda ch: ctx.oracle(exe, [t[3] for t in ch], timeout=1500), chunks))
    except Exception as e:
        ctx.broken.append("correspondence:ModelSubquery does not extract/evaluate")
        ctx.notes.append(str(e)[-2000:])
        return
    nbad = 0
    for ch, out in zip(chunks, outs):
        for (i, gi, full, _), line in zip(ch, out):
            d = model_disagrees(cases[i], gi, full, line, res[i][0])
            ctx.count("model:%s" % ("agree" if d is None else "DISAGREE"))
            if d is not None:
                nbad += 1
                if nbad <= 5:
                    ctx.broken.append("correspondence:ModelSubquery.subquery_m vs engine (%s) on goal %d of: %s"
                                      % (d, gi, wrapper_text(*cases[i]).replace("\n", " ")))
    ctx.cov["model_vs_engine_goals"] = len(tie)
    ctx.cov["model_vs_engine_agree"] = len(tie) - nbad
