"""C20 — MPE returns a most probable world consistent with the evidence (problog/tasks/mpe.py)."""
import itertools
import math
import os
import re
from fractions import Fraction

import pl
import vf

META = {
    "id": "C20",
    "level": "proof",
    "technique": "Coq proofs about hand models of the weighted MaxSAT encoding (CNF._contents(weighted=int)) and of the max-times "
                 "semiring with witness sets evaluated by FormulaEvaluatorNSP + differential correspondence with "
                 "problog.tasks.mpe (both modes) on generated programs with evidence, judged by exhaustive world enumeration",
    "design_ref": "DESIGN.md §5 C20",
    "text": "Theorems: the top weight of the encoding dominates the soft clauses, so an optimum of the encoding satisfies the hard "
            "clauses and is within n*1e-4 (in ln) of every satisfying assignment; the soft cost is the quantised -ln P; the reported "
            "probability is the product of the weights of the returned assignment; on decomposable NNFs max-times evaluation returns "
            "the maximum with a consistent satisfying witness (refuted off that class). Tie: real DIMACS vs model encoding, real "
            "LogicNNF evaluated by the model, both mpe modes vs exhaustive enumeration.",
    "note": "Trusted: Coq kernel + vm_compute; the MaxSAT solver binary maxsatz (its answer is checked per instance against a small "
            "DPLL search of the same wcnf in the harness); the harness's world enumerator; float ln/exp of CPython are read as exact "
            "rationals by the model (their rounding against real ln is not modelled).",
}

PROBS = ["0.1", "0.2", "0.25", "0.3", "0.4", "0.6", "0.7", "0.75", "0.8", "0.9", "0.5", "0.35", "0.05", "0.95"]
os.environ["PATH"] = os.path.join(vf.REPO, "problog", "bin", "linux") + os.pathsep + os.environ.get("PATH", "")

HEADER = """From Coq Require Import QArith Qabs ZArith List Bool NArith.
From PL.C20 Require Import ModelMPE.
Import ListNotations.
Local Close Scope Q_scope.
Fixpoint lookup (ws : list (N * (Q * Q))) (x : N) : Q * Q :=
  match ws with [] => (0%Q, 0%Q) | (y, w) :: t => if N.eqb x y then w else lookup t x end.
Definition subsetL (a b : list lit) : bool := forallb (fun x => memL x b) a.
Definition sem_agrees (ws : list (N * (Q * Q))) (f : nnf) (w : list lit) (p eps : Q) (check_w : bool) : bool :=
  let v := evaluate (fun x => fst (lookup ws x)) (fun x => snd (lookup ws x)) (map fst ws) f in
  Qle_bool (Qabs (fst v - p)) eps && (negb check_w || (subsetL (snd v) w && subsetL w (snd v))).
Definition clause_eqb (a b : clause) : bool := (length a =? length b)%nat && forallb (fun p => Z.eqb (fst p) (snd p)) (combine a b).
Definition wclauses_eqb (a b : list wclause) : bool :=
  (length a =? length b)%nat && forallb (fun p => Z.eqb (fst (fst p)) (fst (snd p)) && clause_eqb (snd (fst p)) (snd (snd p))) (combine a b).
Definition enc_agrees (lw : list (Q * Q)) (top : Z) (soft : list wclause) (slack : Z) : bool :=
  Z.leb (Z.abs (top_weight lw - top)) slack && wclauses_eqb (soft_clauses 1 lw) soft.
Definition rep_agrees (result : list Z) (pw : list (Q * Q)) (p eps : Q) : bool :=
  Qle_bool (Qabs (reported_prob result 1 pw - p)) eps.
"""


def coq_Q(fr):
    fr = Fraction(fr)
    if fr.numerator < 0:
        return "((%d) # %d)%%Q" % (fr.numerator, fr.denominator)
    return "(%d # %d)%%Q" % (fr.numerator, fr.denominator)


# ------------------------------------------------------------------ programs
def lit_txt(l):
    return ("\\+" if l[0] else "") + l[1]


def render(p):
    out = []
    for n, pr in p["facts"]:
        out.append("%s::%s." % (pr, n))
    for ad in p["pads"]:
        out.append("; ".join("%s::%s" % (pr, n) for n, pr in ad["heads"])
                   + (" :- " + ", ".join(lit_txt(l) for l in ad["body"]) if ad["body"] else "") + ".")
    for h, body in p["rules"]:
        out.append("%s :- %s." % (h, ", ".join(lit_txt(l) for l in body)))
    for a, val in p["evidence"]:
        out.append("evidence(%s, %s)." % (a, "true" if val else "false"))
    return "\n".join(out) + "\n"


SMALL = ["0.05", "0.1", "0.15", "0.2", "0.25", "0.3"]
SUM1 = [["0.5", "0.5"], ["0.25", "0.25", "0.5"], ["0.3", "0.7"], ["0.2", "0.3", "0.5"], ["0.6", "0.4"]]


def gen_improbable(rng):
    """Evidence that can only hold in improbable worlds, next to a literal of probability 0 (null choice of an AD
    summing to exactly 1, a 0.0:: fact, the negation of a 1.0:: fact): every positive-probability explanation is
    a product of several small probabilities, the probability-0 world is `cheap` unless ln 0 is clamped properly."""
    p = {"facts": [], "pads": [], "rules": [], "evidence": []}
    kind = rng.choice(["ad", "ad", "zero", "one"])
    if kind == "ad":
        split = rng.choice(SUM1)
        heads = [("x%d" % i, pr) for i, pr in enumerate(split)]
        p["pads"].append({"heads": heads, "body": []})
        for i, (h, _) in enumerate(heads):
            k = rng.choice([1, 1, 2])
            cs = []
            for j in range(k):
                n = "f%d" % len(p["facts"])
                p["facts"].append((n, rng.choice(SMALL)))
                cs.append(n)
            # the head is compatible with the (negative) evidence only if all its unlikely facts are true
            for c in cs:
                p["rules"].append(("r0", [(False, h), (True, c)]))
        p["evidence"].append(("r0", False))
    else:
        z = ("f0", "0.0") if kind == "zero" else ("f0", "1.0")
        p["facts"].append(z)
        zl = (False, "f0") if kind == "zero" else (True, "f0")     # the probability-0 literal
        p["rules"].append(("r0", [zl]))
        for _ in range(rng.choice([1, 2])):
            body = []
            for j in range(rng.choice([1, 2, 3])):
                n = "f%d" % len(p["facts"])
                p["facts"].append((n, rng.choice(SMALL)))
                body.append((False, n))
            p["rules"].append(("r0", body))
        p["evidence"].append(("r0", True))
    return p


def gen_prog(rng):
    if rng.random() < 0.25:
        return gen_improbable(rng)
    p = {"facts": [], "pads": [], "rules": [], "evidence": []}
    nf = rng.choice([1, 2, 2, 3, 3, 4, 4, 5])
    p["facts"] = [("f%d" % i, rng.choice(PROBS)) for i in range(nf)]
    if rng.random() < 0.12:
        i = rng.randrange(nf)
        p["facts"][i] = (p["facts"][i][0], rng.choice(["0.0", "1.0"]))
    atoms = [n for n, _ in p["facts"]]
    if rng.random() < 0.3:
        k = rng.choice([2, 2, 3])
        split = rng.choice([["0.3", "0.5", "0.1"], ["0.5", "0.5", "0"], ["0.2", "0.3", "0.4"], ["0.6", "0.1", "0.3"],
                            ["0.3", "0.7", "0"], ["0.25", "0.25", "0.5"]])
        heads = [("x%d" % i, split[i]) for i in range(k) if split[i] != "0"]
        body = [(rng.random() < 0.3, rng.choice(atoms))] if rng.random() < 0.3 else []
        p["pads"].append({"heads": heads, "body": body})
        atoms += [n for n, _ in heads]
    nr = rng.choice([1, 2, 2, 3, 3, 4])
    for i in range(nr):
        h = "r%d" % i
        for _ in range(rng.choice([1, 2, 2])):
            body = [(rng.random() < 0.3, a) for a in rng.sample(atoms, min(len(atoms), rng.choice([1, 2, 2, 3])))]
            p["rules"].append((h, body))
        atoms.append(h)
    derived = ["r%d" % i for i in range(nr)]
    for a in rng.sample(derived, min(nr, rng.choice([1, 1, 1, 2, 2]))):
        p["evidence"].append((a, rng.random() < 0.65))
    if rng.random() < 0.2:
        p["evidence"].append((rng.choice([n for n, _ in p["facts"]]), rng.random() < 0.5))
    return p


# ------------------------------------------------------------------ exact possible-world reference
class Sem:
    def __init__(self, p):
        self.p = p
        fact_opts = [[(n, True, Fraction(pr)), (n, False, 1 - Fraction(pr))] for n, pr in p["facts"]]
        ad_opts = []
        for k, ad in enumerate(p["pads"]):
            opts = [(k, i, Fraction(pr)) for i, (_, pr) in enumerate(ad["heads"])]
            rest = 1 - sum(o[2] for o in opts)
            opts.append((k, None, rest))
            ad_opts.append(opts)
        self.worlds = []
        for combo in itertools.product(*(fact_opts + ad_opts)):
            w = Fraction(1)
            fv, ch = {}, {}
            for c in combo[:len(fact_opts)]:
                fv[c[0]] = c[1]
                w *= c[2]
            for c in combo[len(fact_opts):]:
                ch[c[0]] = c[1]
                w *= c[2]
            # worlds of probability 0 (a 0.0:: fact true, the null choice of an AD summing to 1) stay in the
            # enumeration: they are logically possible, the encoder gives them a finite (clamped) cost, and an
            # answer that picks one must be recognised as a world of probability 0
            v = self.truth(fv, ch)
            ok = all(v[a] == val for a, val in p["evidence"])
            self.worlds.append((w, fv, ch, ok))

    def truth(self, fv, ch):
        p = self.p
        v = dict(fv)

        def holds(body):
            return all(v[a] != neg for neg, a in body)
        for k, ad in enumerate(p["pads"]):
            b = holds(ad["body"])
            for i, (n, _) in enumerate(ad["heads"]):
                v[n] = b and ch[k] == i
        heads = []
        for h, _ in p["rules"]:
            if h not in heads:
                heads.append(h)
        for h in heads:
            v[h] = any(holds(body) for hh, body in p["rules"] if hh == h)
        return v

    def name_pred(self, name, grounded=None):
        """Predicate on a world (fv, ch) for an output atom name (positive form), or None.
        `grounded`: indices of the AD heads that have a choice atom in the answer; the extra
        atom choice(N,e,null) of the ground program means "none of the GROUNDED heads" (its
        weight is 1 - sum of the grounded heads' probabilities)."""
        facts = {n for n, _ in self.p["facts"]}
        if name in facts:
            return lambda fv, ch: fv[name]
        m = re.match(r"choice\((\d+),(\w+),([^,)]+)", name)
        if m and self.p["pads"]:
            idx, head = m.group(2), m.group(3)
            heads = [n for n, _ in self.p["pads"][0]["heads"]]
            if idx == "e" and head == "null":
                if grounded is None:
                    return lambda fv, ch: ch[0] is None
                return lambda fv, ch: ch[0] not in grounded
            if head in heads and idx.isdigit() and heads.index(head) == int(idx):
                i = heads.index(head)
                return lambda fv, ch: ch[0] == i
        # an AD head without body may keep its own name when only one head is grounded
        if self.p["pads"]:
            heads = [n for n, _ in self.p["pads"][0]["heads"]]
            if name in heads:
                i = heads.index(name)
                return lambda fv, ch: ch[0] == i
        return None

    def judge(self, facts, reported, ln_slack):
        """facts: list of output atom strings.  Returns list of problems."""
        probs = []
        lits = []
        grounded = set()
        for s in facts:
            m = re.match(r"(?:\\\+)?choice\((\d+),(\d+),", s)
            if m:
                grounded.add(int(m.group(2)))
        for s in facts:
            neg = s.startswith("\\+")
            nm = s[2:] if neg else s
            pr = self.name_pred(nm, grounded)
            if pr is None:
                probs.append("unknown atom %s in the answer" % s)
                continue
            lits.append((neg, nm, pr))
        names = [nm for _, nm, _ in lits]
        for neg, nm, _ in lits:
            if (not neg, nm) in {(n2, m2) for n2, m2, _ in lits}:
                probs.append("inconsistent: both %s and \\+%s" % (nm, nm))
                break
        if probs:
            return probs
        preds = {}
        for neg, nm, pr in lits:
            preds[nm] = pr
        order = sorted(preds)
        # distribution over the assignments of the named atoms
        dist, dist_e = {}, {}
        for w, fv, ch, ok in self.worlds:
            key = tuple(bool(preds[nm](fv, ch)) for nm in order)
            dist[key] = dist.get(key, 0) + w
            if ok:
                dist_e[key] = dist_e.get(key, 0) + w
        mine = tuple(not dict((nm, neg) for neg, nm, _ in lits)[nm] for nm in order)
        p_mine = dist.get(mine, Fraction(0))
        # logical guarantee: every world (also those of probability 0) that agrees with the answer satisfies the evidence
        cnt, cnt_e = {}, {}
        for w, fv, ch, ok in self.worlds:
            key = tuple(bool(preds[nm](fv, ch)) for nm in order)
            cnt[key] = cnt.get(key, 0) + 1
            if ok:
                cnt_e[key] = cnt_e.get(key, 0) + 1
        if mine not in cnt:
            probs.append("the answer is not a possible assignment of the atoms it names")
        elif cnt_e.get(mine, 0) != cnt[mine]:
            probs.append("the answer does not guarantee the evidence (P(answer)=%s, P(answer & evidence)=%s)"
                         % (p_mine, dist_e.get(mine, Fraction(0))))
        sure = [dist[k] for k in dist if cnt_e.get(k, 0) == cnt[k] and dist[k] > 0]
        if sure:
            best = max(sure)
            if p_mine == 0:
                probs.append("the returned world has probability 0, but a world with probability %s (%.6g) is consistent "
                             "with the evidence" % (best, float(best)))
            elif math.log(p_mine) < math.log(best) - ln_slack - 1e-9:
                probs.append("probability of the answer %s (%.6g) is below the maximum %s (%.6g)"
                             % (p_mine, float(p_mine), best, float(best)))
        if reported is not None and abs(Fraction(reported) - p_mine) > Fraction(1, 10 ** 9):
            probs.append("reported probability %r, probability of the answer is %s" % (reported, p_mine))
        return probs

    def satisfiable(self):
        """some world of POSITIVE probability satisfies the evidence"""
        return any(ok and w > 0 for w, _, _, ok in self.worlds)


# ------------------------------------------------------------------ a small complete search over a wcnf (solver check)
def wcnf_optimum(nvars, top, clauses, budget=200000):
    """Minimum total weight of falsified soft clauses over the assignments that
    satisfy all hard clauses (weight == top); None if unsatisfiable.  DPLL with
    unit propagation on the hard clauses, branching on soft-clause variables first."""
    hard = [c for w, c in clauses if w == top]
    soft = [(w, c) for w, c in clauses if w != top]
    soft_vars = sorted({abs(l) for _, c in soft for l in c})
    order = soft_vars + [v for v in range(1, nvars + 1) if v not in soft_vars]
    best = [None]
    steps = [0]

    def propagate(asg):
        changed = True
        while changed:
            changed = False
            for c in hard:
                unassigned, sat = [], False
                for l in c:
                    v = asg.get(abs(l))
                    if v is None:
                        unassigned.append(l)
                    elif v == (l > 0):
                        sat = True
                        break
                if sat:
                    continue
                if not unassigned:
                    return False
                if len(unassigned) == 1:
                    asg[abs(unassigned[0])] = unassigned[0] > 0
                    changed = True
        return True

    def soft_cost(asg, final):
        tot = 0
        for w, c in soft:
            vals = [asg.get(abs(l)) for l in c]
            if any(v is not None and v == (l > 0) for v, l in zip(vals, c)):
                continue
            if all(v is not None for v in vals):
                tot += w
        return tot

    def rec(asg):
        steps[0] += 1
        if steps[0] > budget:
            raise RuntimeError("budget")
        if not propagate(asg):
            return
        lb = soft_cost(asg, False)
        if best[0] is not None and lb >= best[0]:
            return
        for v in order:
            if v not in asg:
                for val in (True, False):
                    a2 = dict(asg)
                    a2[v] = val
                    rec(a2)
                return
        best[0] = lb

    rec({})
    return best[0]


# ------------------------------------------------------------------ running the implementation
def nnf_term(nnf, idx):
    if idx == 0:
        return "NTrue"
    if idx is None:
        return "NFalse"
    node = nnf.get_node(abs(idx))
    t = type(node).__name__
    if t == "atom":
        return "(NLit %s %s)" % ("true" if idx < 0 else "false", vf.coq_N(abs(idx)))
    if idx < 0:
        raise ValueError("negated compound node in NNF")
    kids = [nnf_term(nnf, c) for c in node.children]
    op = "NAnd" if t == "conj" else "NOr"
    if not kids:
        return "NTrue" if t == "conj" else "NFalse"
    acc = kids[0]
    for k in kids[1:]:
        acc = "(%s %s %s)" % (op, acc, k)
    return acc


def nnf_decomposable(nnf, idx, memo):
    """(decomposable?, frozenset of atoms) of the sub-NNF."""
    if idx == 0 or idx is None:
        return True, frozenset()
    if abs(idx) in memo:
        return memo[abs(idx)]
    node = nnf.get_node(abs(idx))
    t = type(node).__name__
    if t == "atom":
        r = (True, frozenset([abs(idx)]))
    else:
        ok, used = True, set()
        for c in node.children:
            o, u = nnf_decomposable(nnf, c, memo)
            ok = ok and o
            if t == "conj" and (used & u):
                ok = False
            used |= u
        r = (ok, frozenset(used))
    memo[abs(idx)] = r
    return r


def work(p, modes=("maxsat", "semiring")):
    src = render(p)
    res = {"src": src, "p": p}

    def maxsat():
        from problog.tasks import mpe
        from problog.program import PrologString
        from problog.formula import LogicDAG
        from problog.cnf_formula import CNF
        from problog.constraint import TrueConstraint
        from problog.maxsat import get_solver
        from problog.evaluator import SemiringLogProbability, SemiringProbability
        import problog.maxsat as M
        out = {}
        # the task itself; the solver interface is wrapped (in this process only) to record the wcnf text that is
        # sent to maxsatz, the CNF object and the solver's answer
        cap = {}
        orig = M.MaxSATSolver.evaluate

        def wrapped(self, formula, **kw):
            cap["cnf"] = formula
            cap["input"] = self.prepare_input(formula, **kw)
            output = self.call_process(cap["input"])
            cap["solver"] = None
            result = self.process_output(output)
            cap["solver"] = result
            return result
        M.MaxSATSolver.evaluate = wrapped
        try:
            dag2 = LogicDAG.createFrom(PrologString(src), avoid_name_clash=True, label_all=True, labels=[("output", 1)])
            try:
                prob, facts = mpe.mpe_maxsat(dag2)
                out["result"] = ("ok", prob, None if facts is None else [str(f) for f in facts])
            except Exception as e:
                out["result"] = ("err", pl.err_class(e), str(e)[:100])
        finally:
            M.MaxSATSolver.evaluate = orig
        if "cnf" in cap:
            cnf = cap["cnf"]
        else:
            dag = LogicDAG.createFrom(PrologString(src), avoid_name_clash=True, label_all=True, labels=[("output", 1)])
            cnf = CNF.createFrom(dag, force_atoms=True)
        out["evidence_on_false_node"] = any(cnf.is_false(qi) for qn, qi in cnf.evidence())
        out["trivial"] = "cnf" not in cap
        if "input" in cap and " None " not in cap["input"]:
            lines = cap["input"].split("\n")
            hd = lines[0].split()
            nv, ncl, top = int(hd[2]), int(hd[3]), int(hd[4])
            cls = []
            for ln in lines[1:]:
                xs = list(map(int, ln.split()))
                cls.append((xs[0], xs[1:-1]))
            lw = cnf.extract_weights(SemiringLogProbability())
            pw = cnf.extract_weights(SemiringProbability())

            def fr(x):
                # ln 0 = -inf: the encoder clamps at -10000, any rational below that is the same input
                return Fraction(-10 ** 6) if x == float("-inf") else Fraction(x)
            out.update(nvars=nv, top=top, clauses=cls,
                       lw=[tuple(fr(x) for x in lw.get(a, (0.0, 0.0))) for a in range(1, nv + 1)],
                       pw=[tuple(Fraction(x) for x in pw.get(a, (1.0, 1.0))) for a in range(1, nv + 1)],
                       weighted=sorted(a for a in lw if 1 <= a <= nv), solver=cap.get("solver"))
        return out

    def semiring():
        from problog.tasks import mpe
        from problog.program import PrologString
        from problog.formula import LogicFormula, LogicNNF
        from problog.logic import Term
        out = {}
        lf = LogicFormula.create_from(PrologString(src), label_all=True, avoid_name_clash=True)
        try:
            prob, facts = mpe.mpe_semiring(lf)
            out["result"] = ("ok", prob, [str(f) for f in facts])
        except Exception as e:
            out["result"] = ("err", pl.err_class(e), str(e)[:100])
        # replica of mpe_semiring's preprocessing (no queries in the generated programs) to obtain the NNF it evaluates
        lf = LogicFormula.create_from(PrologString(src), label_all=True, avoid_name_clash=True)
        if lf.evidence():
            sr = mpe.SemiringMPEState()
            qn = lf.add_and([y for x, y in lf.evidence()])
            lf.clear_evidence()
            lf.clear_queries()
            lf.add_query(Term("query"), qn, keep_name=True)
            nnf = LogicNNF.create_from(lf)
            qs = list(nnf.queries())
            qi = qs[0][1]
            ws = nnf.extract_weights(sr)
            out["has_ad_weights"] = any(len(w[1][1]) == 0 for w in ws.values())
            out["weights"] = [(k, Fraction(w[0][0]), Fraction(w[1][0])) for k, w in sorted(ws.items())]
            out["names"] = {k: str(next(iter(w[0][1]))) for k, w in ws.items()}
            out["term"] = nnf_term(nnf, qi)
            out["decomposable"] = nnf_decomposable(nnf, qi, {})[0]
            out["query_is_atom"] = qi is not None and qi != 0 and type(nnf.get_node(abs(qi))).__name__ == "atom"
        return out

    for name, fn in (("maxsat", maxsat), ("semiring", semiring)):
        if name not in modes:
            continue
        try:
            res[name] = pl.with_timeout(fn, 60)
        except BaseException as e:  # noqa
            if isinstance(e, (KeyboardInterrupt, SystemExit)):
                raise
            res[name] = {"crash": pl.err_class(e) + ": " + str(e)[:200]}
    return res


def shrink(p, bad, budget_s=15.0):
    """Greedy structural shrinking keeping `bad(program)` true, for at most budget_s seconds."""
    import copy
    import time
    t_end = time.time() + budget_s
    changed = True
    while changed and time.time() < t_end:
        changed = False
        cands = []
        for i in range(len(p["evidence"])):
            if len(p["evidence"]) > 1:
                q = copy.deepcopy(p)
                del q["evidence"][i]
                cands.append(q)
        for i, (h, body) in enumerate(p["rules"]):
            if sum(1 for hh, _ in p["rules"] if hh == h) > 1:
                q = copy.deepcopy(p)
                del q["rules"][i]
                cands.append(q)
            for j in range(len(body)):
                if len(body) > 1:
                    q = copy.deepcopy(p)
                    del q["rules"][i][1][j]
                    cands.append(q)
        used = {a for _, b in p["rules"] for _, a in b} | {a for a, _ in p["evidence"]} | \
               {a for ad in p["pads"] for _, a in ad["body"]}
        for i, (n, _) in enumerate(p["facts"]):
            if n not in used and len(p["facts"]) > 1:
                q = copy.deepcopy(p)
                del q["facts"][i]
                cands.append(q)
        heads = []
        for h, _ in p["rules"]:
            if h not in heads:
                heads.append(h)
        for h in heads:
            if h not in used:
                q = copy.deepcopy(p)
                q["rules"] = [r for r in q["rules"] if r[0] != h]
                cands.append(q)
        for i, ad in enumerate(p["pads"]):
            if not any(n in used for n, _ in ad["heads"]):
                q = copy.deepcopy(p)
                del q["pads"][i]
                cands.append(q)
        for q in cands:
            if time.time() > t_end:
                break
            try:
                if bad(q):
                    p = q
                    changed = True
                    break
            except Exception:
                pass
    return p


def judge_mode(res, mode):
    """(verdict, what, klass) for one mode of one program."""
    p = res["p"]
    sem = Sem(p)
    info = res[mode]
    if "crash" in info:
        return ("violation", "%s harness run crashed: %s" % (mode, info["crash"]), None)
    r = info["result"]
    sat = sem.satisfiable()
    problems = []
    if r[0] == "err":
        if not sat and ("Unsatisfiable" in r[1] or "InconsistentEvidence" in r[1]):
            return ("unsat-reported", "", None)
        problems.append("raised %s: %s" % (r[1], r[2]))
    elif r[2] is None:
        if not sat:
            return ("unsat-reported", "", None)
        problems.append("reported unsatisfiable but the evidence has probability > 0")
    elif not sat:
        if r[1] == 0.0:
            return ("unsat-reported", "", None)      # probability 0.0 is read as "no world of positive probability satisfies the evidence"
        problems.append("the evidence is unsatisfiable but an answer %r with probability %r was returned" % (r[2], r[1]))
    else:
        nw = len(info.get("weighted", r[2])) if mode == "maxsat" else 0
        slack = (nw + 1) * 1e-4 if mode == "maxsat" else 0.0
        problems += sem.judge(r[2], r[1], slack)
    if not problems:
        return ("ok", "", None)
    klass = None
    if mode == "maxsat" and not sat and info.get("evidence_on_false_node") and r[0] == "ok":
        klass = "mpe-maxsat-evidence-contradicting-a-deterministic-node-ignored"
    if mode == "semiring":
        names = r[2] if r[0] == "ok" and r[2] is not None else []
        if any(n in ("query", "\\+query") for n in names) and info.get("query_is_atom"):
            klass = "mpe-semiring-single-fact-evidence-reported-as-query"
        elif info.get("decomposable") is False:
            klass = "mpe-semiring-nondecomposable-evidence"
        elif info.get("has_ad_weights") and p["pads"]:
            klass = "mpe-semiring-annotated-disjunction-constraints-ignored"
    what = "mpe (%s) on\n%s-> %r: %s" % (mode, res["src"], r, "; ".join(problems))
    return ("violation", what, klass)


def bad_pred(mode, klass):
    def bad(q):
        v = judge_mode(work(q, (mode,)), mode)
        return v[0] == "violation" and v[2] == klass
    return bad


WITNESSES = [
    # DESIGN §7: (a v b) & (~a v c)
    {"facts": [("a", "0.6"), ("b", "0.3"), ("c", "0.3")], "pads": [],
     "rules": [("e1", [(False, "a")]), ("e1", [(False, "b")]), ("e2", [(True, "a")]), ("e2", [(False, "c")])],
     "evidence": [("e1", True), ("e2", True)]},
    # unsatisfiable evidence
    {"facts": [("a", "0.6"), ("b", "0.3")], "pads": [], "rules": [("e", [(False, "a"), (False, "b")])],
     "evidence": [("e", True), ("a", False)]},
    # AD: two heads required at once
    {"facts": [], "pads": [{"heads": [("x0", "0.3"), ("x1", "0.5")], "body": []}],
     "rules": [("e", [(False, "x0"), (False, "x1")])], "evidence": [("e", True)]},
    # evidence contradicts a node that the grounder already decided
    {"facts": [("a", "0.95"), ("b", "0.3")], "pads": [], "rules": [("r0", [(True, "a")]), ("r0", [(False, "a")]), ("e", [(False, "b")])],
     "evidence": [("r0", False), ("e", True)]},
    # ln 0 clamp: AD summing to exactly 1, both heads expensive under the evidence (MPE: x1, f1, \+f0 with 0.08)
    {"facts": [("f0", "0.2"), ("f1", "0.2")], "pads": [{"heads": [("x0", "0.5"), ("x1", "0.5")], "body": []}],
     "rules": [("r0", [(False, "x0"), (True, "f0")]), ("r0", [(False, "x1"), (True, "f1")])], "evidence": [("r0", False)]},
    # ln 0 clamp: three heads summing to 1
    {"facts": [("f0", "0.3"), ("f1", "0.3"), ("f2", "0.3")],
     "pads": [{"heads": [("x0", "0.25"), ("x1", "0.25"), ("x2", "0.5")], "body": []}],
     "rules": [("r0", [(False, "x0"), (True, "f0")]), ("r0", [(False, "x1"), (True, "f1")]), ("r0", [(False, "x2"), (True, "f2")])],
     "evidence": [("r0", False)]},
    # ln 0 clamp: a 0.0:: fact competing with an unlikely fact; a 1.0:: fact whose negation competes
    {"facts": [("f0", "0.0"), ("f1", "0.1")], "pads": [], "rules": [("r0", [(False, "f0")]), ("r0", [(False, "f1")])],
     "evidence": [("r0", True)]},
    {"facts": [("f0", "1.0"), ("f1", "0.1"), ("f2", "0.2")], "pads": [],
     "rules": [("r0", [(True, "f0")]), ("r0", [(False, "f1"), (False, "f2")])], "evidence": [("r0", True)]},
    # evidence is a single fact
    {"facts": [("a", "0.6"), ("b", "0.3")], "pads": [], "rules": [("e", [(False, "a")])], "evidence": [("e", True)]},
    # decomposable
    {"facts": [("a", "0.6"), ("b", "0.3"), ("c", "0.3")], "pads": [],
     "rules": [("e1", [(False, "a")]), ("e1", [(False, "b")]), ("e", [(False, "e1"), (False, "c")])],
     "evidence": [("e", True)]},
]


def run(ctx):
    ctx.cov["rule"] = ("random propositional programs: 1-5 probabilistic facts, optional AD (2-3 heads, optional body), 1-4 derived "
                       "atoms with 1-2 rules of 1-3 literals (30% negated, acyclic), evidence true/false on 1-2 derived atoms (20%: also on "
                       "a fact); no queries. Each program runs mpe_maxsat and mpe_semiring. Non-trivial: evidence satisfiable, >= 2 "
                       "weighted atoms in the answer. distinct = distinct (mode, program text)")
    ctx.assumptions += [
        "the reference is the harness's possible-world enumeration over exact rationals; an answer is judged as an assignment to the "
        "atoms it names: it must be consistent, guarantee the evidence, have maximal probability among such assignments (MaxSAT: "
        "within (n+1)*1e-4 in ln) and the reported probability must be its probability (1e-9)",
        "maxsatz is assumed to return an optimum of the wcnf; checked per instance by a DPLL search in the harness",
        "literals of probability 0 (0.0:: / 1.0:: facts, null choice of an AD summing to 1) are generated; the encoder clamps ln 0 to -10000 "
        "(cost 10^8, C20_log_zero_is_clamped / C20_zero_probability_literal_loses); worlds of probability below e^-10000 are not generated",
        "mpe_semiring's preprocessing is replicated in the harness to obtain the LogicNNF it evaluates (no queries in the programs)",
    ]
    ctx.cov["trusted_base"] += ["maxsatz binary (answers checked per instance by harness DPLL)",
                                "harness possible-world enumerator (harness/props/C20.py class Sem)"]
    ctx.prove("C20/Props.v")
    with open(os.path.join(vf.THEORIES, "C20", "Findings.v")) as f:
        rc, out = ctx.coq_run(f.read(), "findings")
    ctx.cov["findings_witnesses_compile"] = (rc == 0)
    if rc:
        ctx.notes.append("C20/Findings.v no longer compiles: " + out[-500:])

    if ctx.replay and "program" in ctx.replay.get("replay", {}):
        progs = [ctx.replay["replay"]["program"]]
    else:
        progs = list(WITNESSES) + [gen_prog(ctx.rng) for _ in range(ctx.n(40, 600))]
    results = pl.pmap(work, progs, jobs=8, chunksize=1)
    ctx.log("%d programs run" % len(results))

    enc_cases, enc_meta, rep_cases, rep_meta, sem_cases, sem_meta = [], [], [], [], [], []
    seen = {}
    for res in results:
        p = res["p"]
        for mode in ("maxsat", "semiring"):
            verdict, what, klass = judge_mode(res, mode)
            ctx.count("%s_%s" % (mode, verdict))
            info = res[mode]
            r = info.get("result", ("err", "crash", ""))
            nontrivial = verdict in ("ok", "violation") and r[0] == "ok" and r[2] is not None and len(r[2]) >= 2
            ctx.case((mode, res["src"]), nontrivial, sample={"mode": mode, "program": res["src"], "result": repr(r)[:200]})
            if verdict == "violation":
                seen[klass] = seen.get(klass, 0) + 1
                known = any(kf.get("property") == "C20" and kf.get("class") == klass and kf.get("status") == "known"
                            for kf in ctx.known)
                if (seen[klass] <= 1 or klass is None) and not known and seen[klass] <= 3:
                    small = shrink(p, bad_pred(mode, klass))
                    sres = work(small)
                    _, swhat, _ = judge_mode(sres, mode)
                    ctx.violation(swhat, {"mode": mode, "program": small, "src": sres["src"], "observed": repr(sres[mode].get("result"))},
                                  klass=klass)
                else:
                    ctx.violation(what, {"mode": mode, "program": p, "src": res["src"], "observed": repr(r)}, klass=klass)
        # ---- tie 1: the encoding
        ms = res["maxsat"]
        if "clauses" in ms:
            top = ms["top"]
            soft = [(w, c) for w, c in ms["clauses"] if w != top]
            lw = vf.coq_list(["(%s, %s)" % (coq_Q(a), coq_Q(b)) for a, b in ms["lw"]])
            st = vf.coq_list(["(%s, %s)" % (vf.coq_Z(w), vf.coq_list([vf.coq_Z(l) for l in c])) for w, c in soft])
            enc_cases.append("enc_agrees %s %s %s 0%%Z" % (lw, vf.coq_Z(top), st))
            enc_meta.append(res)
            # the solver's answer against a complete search of the same wcnf
            try:
                opt = wcnf_optimum(ms["nvars"], top, ms["clauses"])
                if ms["solver"] is None:
                    if opt is not None:
                        ctx.violation("maxsatz reports UNSAT on a satisfiable wcnf:\n" + res["src"],
                                      {"program": p, "src": res["src"]}, klass=None)
                    ctx.count("solver_unsat_confirmed")
                else:
                    asg = {abs(l): l > 0 for l in ms["solver"]}
                    cost = sum(w for w, c in ms["clauses"] if not any(asg.get(abs(l)) == (l > 0) for l in c))
                    if opt is None or cost != opt:
                        ctx.violation("maxsatz answer has cost %s, optimum of the wcnf is %s on\n%s" % (cost, opt, res["src"]),
                                      {"program": p, "src": res["src"], "solver": ms["solver"]}, klass=None)
                    ctx.count("solver_optimal_confirmed")
            except RuntimeError:
                ctx.count("solver_check_budget_exceeded")
            r = ms.get("result")
            if r and r[0] == "ok" and r[2] is not None and ms["solver"] is not None:
                pwt = vf.coq_list(["(%s, %s)" % (coq_Q(a), coq_Q(b)) for a, b in ms["pw"]])
                rep_cases.append("rep_agrees %s %s %s (1 # 1000000000000)%%Q"
                                 % (vf.coq_list([vf.coq_Z(l) for l in ms["solver"]]), pwt, coq_Q(Fraction(r[1]))))
                rep_meta.append(res)
        # ---- tie 2: the semiring evaluation of the real NNF (programs without AD weights)
        sm = res["semiring"]
        r = sm.get("result")
        if "term" in sm and r and r[0] == "ok" and not sm.get("has_ad_weights"):
            ws = vf.coq_list(["(%s, (%s, %s))" % (vf.coq_N(k), coq_Q(a), coq_Q(b)) for k, a, b in sm["weights"]])
            inv = {v: k for k, v in sm["names"].items()}
            try:
                wit = []
                for s in r[2]:
                    neg = s.startswith("\\+")
                    wit.append("(%s, %s)" % (vf.coq_bool(neg), vf.coq_N(inv[s[2:] if neg else s])))
            except KeyError:
                wit = None
            if wit is not None:
                base = "sem_agrees %s %s %s %s (1 # 1000000000000)%%Q" % (ws, sm["term"], vf.coq_list(wit), coq_Q(Fraction(r[1])))
                sem_cases.append(base + " true")
                sem_meta.append((res, base))
    try:
        bad = ctx.coq_failing(HEADER, enc_cases, name="enc")
        still = set(bad)
        if bad:
            bad2 = ctx.coq_failing(HEADER, [enc_cases[i][:-len("0%Z")] + "1%Z" for i in bad], name="enc2")
            for j, i in enumerate(bad):
                if j not in bad2:
                    still.discard(i)
                    ctx.count("encoding_top_off_by_one_float_sum")
        ctx.cov["encoding_model_vs_impl"] = "%d/%d" % (len(enc_cases) - len(still), len(enc_cases))
        for i in sorted(still)[:3]:
            ctx.broken.append("correspondence:MaxSAT encoding model vs to_dimacs(weighted=int) on\n" + enc_meta[i]["src"])
        bad = ctx.coq_failing(HEADER, rep_cases, name="rep")
        ctx.cov["reported_prob_model_vs_impl"] = "%d/%d" % (len(rep_cases) - len(bad), len(rep_cases))
        for i in bad[:3]:
            ctx.broken.append("correspondence:reported probability model vs mpe_maxsat on\n" + rep_meta[i]["src"])
        bad = ctx.coq_failing(HEADER, sem_cases, name="sem")
        still = set(bad)
        if bad:
            bad2 = ctx.coq_failing(HEADER, [sem_meta[i][1] + " false" for i in bad], name="sem2")
            for j, i in enumerate(bad):
                if j not in bad2:
                    still.discard(i)
                    ctx.count("semiring_same_value_other_witness")
        ctx.cov["semiring_model_vs_impl"] = "%d/%d" % (len(sem_cases) - len(still), len(sem_cases))
        for i in sorted(still)[:3]:
            ctx.broken.append("correspondence:semiring model vs mpe_semiring on\n%s got %r" % (sem_meta[i][0]["src"], sem_meta[i][0]["semiring"]["result"]))
    except RuntimeError as e:
        ctx.broken.append("correspondence:C20 model does not evaluate")
        ctx.notes.append(str(e))
