"""C04 — the documented unbuffered / rc-first / random-order evaluation agrees with the default engine.

Proof part: coq/theories/C04/Props.v (depth-first, rc-first and random
strategies are schedules of the abstract machine of C03, hence agree).
Tie: the real engine modes
    DefaultEngine(unbuffered=True)                  (MessageOrderD, the hidden --unbuffered flag)
    DefaultEngine(unbuffered=True, rc_first=True)   (MessageOrderDrc)
    RandomOrderEngine of docs/source/engine.rst     (StackBasedEngine(unbuffered=True) whose
                                                     init_message_stack returns MessageOrder1; random.seed(k))
against DefaultEngine() on /repo/test and on generated programs.
"""
import os
import sys

import vf

sys.path.insert(0, os.path.join(vf.VERIF, "gen"))
import c03_sched as cs  # noqa: E402
from props import C03 as base  # noqa: E402

META = {
    "id": "C04",
    "level": "proof",
    "technique": "Coq: engine modes are strategies of the abstract tabling machine and every strategy run is a schedule run "
                 "(instance of C03 schedule independence) + differential runs of the real engine modes against the default engine",
    "design_ref": "DESIGN.md §5 C04",
    "text": "depth-first (unbuffered), rc-first and random-order strategies of the abstract machine produce the same goals, edges, "
            "well-founded values, probabilities and must-reject verdict whenever they terminate (for all programs, queries, fuel, "
            "sources of randomness). The real modes are compared with the default engine on the corpus and on generated programs: "
            "reported instances, probabilities (1e-9), accept/reject and error class, lists as multisets."
            " Every strategy function terminates within the explicit bound of C03, so the agreement theorems also hold unconditionally (`_total` forms).",
    "note": "The unbuffered branches of EvalOr/EvalDefine, cycle detection and findall of the real engine are not modelled; "
            "the tie is sampled and on the pinned tree it exposes genuine disagreements (known findings by mode + symptom class).",
}

EXCLUDED = base.EXCLUDED


def run(ctx):
    ctx.jobs = 14 if ctx.tier == "thorough" else 10
    cs.ensure_sched_hook()
    ctx.cov["rule"] = ("one case = (program, engine mode); modes: unbuf, unbuf_rc, random:<seed> (several seeds); programs as in C03 "
                       "(corpus minus stated exclusions + generated + an acyclic stream in which a negated goal re-calls an earlier multi-clause goal + the directed programs of seeded/C04/demo.py); every case with a mode other than the default is non-trivial; "
                       "distinct = distinct (program, mode)")
    ctx.assumptions += [
        "the real engine modes are tied to the strategies of the abstract machine only by these sampled runs",
        "lists inside answers are compared as multisets (DESIGN 1.3a); timeouts are recorded, never reported",
        "two runs that both reject with different error classes agree when each class is also produced by the default engine on one of the program's queries in isolation",
        "the random-order engine is exactly the RandomOrderEngine/RandomOrderQueue of docs/source/engine.rst (= engine_stack.MessageOrder1), seeded through random.seed",
    ]
    ctx.prove("C04/Props.v")
    if ctx.replay:
        rep = ctx.replay.get("replay", ctx.replay)
        prog = {"src": rep["src"]} if "src" in rep else {"path": rep["path"]}
        mode = rep.get("mode", "unbuf")
        rs = cs.run_many((prog, ["default", mode], 30))
        if len(rs) == 2:
            v, klass, d = cs.judge_modes(prog, rs[0], rs[1], prog["src"].split("\n") if "src" in prog else None)
            ctx.case((str(prog), mode), True, sample={"verdict": v, "difference": d})
            ctx.log("replay verdict:", v, klass, d)
            if v == "violation":
                ctx.violation("mode-dependent result under %s: %s" % (mode, d), rep, klass=klass)
        return
    totals = {"batches": 0, "all_e": 0, "permuted": 0, "nontrivial_runs": 0, "timeouts": [], "shrunk": {}, "path": "n/a"}
    nrand = ctx.n(1, 4)

    def modes():
        return ["default", "unbuf", "unbuf_rc"] + ["random:%d" % ctx.rng.randrange(1, 2 ** 31) for _ in range(nrand)]

    files = cs.corpus_files(vf.REPO, recursive=(ctx.tier == "thorough"))
    items, labels, excluded = [], [], {}
    for f in files:
        b = os.path.basename(f)
        if b in EXCLUDED:
            excluded[os.path.relpath(f, vf.REPO)] = EXCLUDED[b]
            continue
        items.append(({"path": f}, modes(), ctx.n(20, 30)))
        labels.append(os.path.relpath(f, vf.REPO))
    ctx.cov["corpus_files"] = len(items)
    ctx.cov["corpus_excluded"] = excluded
    base.process(ctx, items, labels, "corpus", totals, 0, judge=cs.judge_modes, word="mode")
    ctx.log("corpus done: %d files" % len(items))

    nprog = ctx.n(24, 200)
    items, labels = [], []
    for i in range(nprog):
        lines, feats = cs.gen_program(ctx.rng, malformed=(i % 5 == 4))
        for ft in feats:
            ctx.count("gen feature " + ft)
        items.append(({"src": "\n".join(lines)}, modes() + ["random:%d" % ctx.rng.randrange(1, 2 ** 31)], 20))
        labels.append("generated#%d" % i)
    ctx.cov["generated_programs"] = nprog
    base.process(ctx, items, labels, "generated", totals, ctx.n(1, 2), judge=cs.judge_modes, word="mode")

    # ---- acyclic stream (shared multi-clause subgoal re-called under a negation) + directed cases
    ndag = ctx.n(30, 300)
    items, labels = [], []
    for name, lines in cs.DIRECTED:
        items.append(({"src": "\n".join(lines)},
                      ["default", "unbuf", "unbuf_rc"] + ["random:%d" % k for k in range(ctx.n(6, 12))], 20))
        labels.append("directed:" + name)
    for i in range(ndag):
        lines, feats = cs.gen_dag_program(ctx.rng)
        for ft in feats:
            ctx.count("gen feature " + ft)
        items.append(({"src": "\n".join(lines)}, modes() + ["random:%d" % ctx.rng.randrange(1, 2 ** 31)], 20))
        labels.append("acyclic#%d" % i)
    ctx.cov["acyclic_programs"] = ndag
    ctx.cov["directed_programs"] = [n for n, _ in cs.DIRECTED]
    base.process(ctx, items, labels, "acyclic", totals, ctx.n(1, 2), judge=cs.judge_modes, word="mode")
    ctx.cov["timeouts_recorded_not_reported"] = totals["timeouts"][:60]
    ctx.cov["timeouts_count"] = len(totals["timeouts"])
