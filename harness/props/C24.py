"""C24 — learning from interpretations is a monotone EM producing valid parameters
(problog/learning/lfi.py: LFIProblem.step / _update / _normalize_weights, ExampleEvaluator)."""
import math
import random
from fractions import Fraction as F

import pl
import vf

META = {
    "id": "C24",
    "level": "proof",
    "technique": "Coq theorems over a hand model (over Q) of one LFI iteration (exact E-step by world enumeration + "
                 "the arithmetic of _update/_normalize_weights), EM monotonicity over R (Gibbs' inequality), "
                 "+ per-iteration differential correspondence with the real LFIProblem",
    "design_ref": "DESIGN.md §5 C24",
    "text": "Range / AD-sum / fully-observed-MLE theorems for every propositional program, example set and starting point; "
            "the model is tied to lfi.py by running single iterations of the real LFIProblem and of the model from the same "
            "starting point and comparing E-step results and updated parameters (1e-9); the property itself is judged on "
            "natural multi-iteration runs (parameters in [0,1], AD sums <= 1, reported log-likelihood non-decreasing, "
            "fully observed data -> relative frequencies)."
            " EM monotonicity is proved for the abstract model with k tunable blocks (Q decomposes, blockwise M-step optimal); its instantiation by the world table is the remaining gap, and two refuted witnesses (first-iteration LL decrease, dropped example) are known findings."
            " C24_em_monotone_model: one step of the executable LFI model does not decrease the log-likelihood under decidable side conditions (tunable heads of every AD sum to the available mass; no single tunable head next to constant heads) — both exclusions are necessary.",
    "note": "Trusted: Coq kernel + vm_compute; hand model (sampled correspondence); propositional acyclic programs only; "
            "propagate_evidence=False as in problog/test/test_lfi.py.",
}

TOL = 1e-9
HEADER = """From Coq Require Import QArith List Bool.
From PL.C24 Require Import ModelLFIUpdate.
Import ListNotations.
Open Scope Q_scope.
Definition eps : Q := 1 # 1000000000.
Definition chk (norm : bool) (p : program) (exs : list (Q * example)) (th : list Q)
               (R : list result) (W : list Q) : bool :=
  let rs := estep th p exs in
  results_close eps rs R && qclose_list eps (mstep norm p rs th) W.
"""


# ------------------------------------------------------------------ programs
# clause = (heads, body); heads = [(atom, kind, val)], kind in "det"/"fix"/"tun"
# (val = Fraction for fix, parameter index for tun); body = [(atom, sign)]
def atom_name(a):
    return "a%d" % a


def frac_str(x):
    """Decimal text of a Fraction with a power-of-ten denominator."""
    s = "%.6f" % float(x)
    assert F(s) == x, (s, x)
    return s.rstrip("0").rstrip(".") if "." in s else s


def program_text(clauses, theta0):
    lines = []
    for heads, body in clauses:
        hs = []
        for (a, kind, val) in heads:
            if kind == "det":
                hs.append(atom_name(a))
            elif kind == "fix":
                hs.append("%s::%s" % (frac_str(val), atom_name(a)))
            else:
                hs.append("t(%s)::%s" % (frac_str(theta0[val]), atom_name(a)))
        b = ", ".join(("" if s else "\\+") + atom_name(a) for a, s in body)
        lines.append("; ".join(hs) + ((" :- " + b) if b else "") + ".")
    return "\n".join(lines) + "\n"


def n_params(clauses):
    return sum(1 for h, _ in clauses for x in h if x[1] == "tun")


def n_atoms(clauses):
    m = 0
    for heads, body in clauses:
        for h in heads:
            m = max(m, h[0] + 1)
        for l in body:
            m = max(m, l[0] + 1)
    return m


def is_det(cl):
    return len(cl[0]) == 1 and cl[0][0][1] == "det"


def options(cl):
    return [0] if is_det(cl) else list(range(len(cl[0]) + 1))


def n_worlds(clauses):
    n = 1
    for cl in clauses:
        n *= len(options(cl))
    return n


def hweight(theta, h):
    return F(1) if h[1] == "det" else (h[2] if h[1] == "fix" else theta[h[2]])


def sel_weight(theta, cl, k):
    if k < len(cl[0]):
        return hweight(theta, cl[0][k])
    return 1 - sum(hweight(theta, h) for h in cl[0])


def eval_world(clauses, w, natoms):
    vals = []
    for a in range(natoms):
        v = False
        for cl, k in zip(clauses, w):
            if k < len(cl[0]) and cl[0][k][0] == a and all(vals[b] == s for b, s in cl[1]):
                v = True
                break
        vals.append(v)
    return vals


def all_worlds(clauses):
    ws = [[]]
    for cl in reversed(clauses):
        ws = [[k] + w for k in options(cl) for w in ws]
    return ws


class Ref:
    """The property's reference semantics in Python (exact rationals): possible worlds of the
    propositional program; used for sampling the data and for the log-likelihood oracle."""

    def __init__(self, clauses):
        self.clauses = clauses
        self.natoms = n_atoms(clauses)
        self.worlds = all_worlds(clauses)
        self.vals = [eval_world(clauses, w, self.natoms) for w in self.worlds]

    def weights(self, theta):
        out = []
        for w in self.worlds:
            x = F(1)
            for cl, k in zip(self.clauses, w):
                x *= sel_weight(theta, cl, k)
            out.append(x)
        return out

    def pevidence(self, theta, example, wts=None):
        wts = wts or self.weights(theta)
        return sum((x for x, v in zip(wts, self.vals) if all(v[a] == s for a, s in example)), F(0))

    def loglik(self, theta, grouped):
        """sum m*log P(e) over the examples with P(e) > 0 (the implementation ignores the others)."""
        wts = self.weights(theta)
        ll = 0.0
        for m, e in grouped:
            pe = self.pevidence(theta, e, wts)
            if pe >= F(1, 10 ** 12):        # SemiringProbability.is_zero: |P(e)| < 1e-12 -> "Ignoring example"
                ll += m * math.log(pe)
        return ll

    def sample(self, rng, theta):
        w = []
        for cl in self.clauses:
            opts = options(cl)
            r = rng.random()
            acc = 0.0
            pick = opts[-1]
            for k in opts:
                acc += float(sel_weight(theta, cl, k))
                if r < acc:
                    pick = k
                    break
            w.append(pick)
        return eval_world(self.clauses, w, self.natoms)


def ad_groups(clauses):
    """Per clause with tunable heads: (available, [param], [head atoms of the tunables])."""
    out = []
    for heads, body in clauses:
        tun = [(h[2], h[0]) for h in heads if h[1] == "tun"]
        if tun:
            fixed = sum((h[2] for h in heads if h[1] == "fix"), F(0))
            out.append((1 - fixed, [t[0] for t in tun], [t[1] for t in tun], fixed))
    return out


def process_examples(clauses, examples, infer=True):
    """Reference of LFIProblem._process_examples for propositional programs: in a group of >= 2 tunable AD
    heads, when all heads but one are observed false and the last is unobserved, it is set true; then identical
    (atoms, values) tuples are merged with multiplicity."""
    groups = [g[2] for g in ad_groups(clauses) if len(g[2]) > 1]
    tun_atoms = set(h[0] for hs, _ in clauses for h in hs if h[1] == "tun")
    out = []
    for ex in examples:
        res = list(ex)
        if infer and groups:
            ds = [dict((a, None) for a in g) for g in groups]
            non_ad = {}
            for a, v in ex:
                if a in tun_atoms:
                    hit = False
                    for d in ds:
                        if a in d:
                            d[a] = v
                            hit = True
                    if not hit:
                        non_ad[a] = v
                else:
                    non_ad[a] = v
            inconsistent = False
            for d in ds:
                nf = sum(1 for v in d.values() if v is False)
                if nf == len(d):
                    inconsistent = True
                    continue
                if nf == len(d) - 1 and any(v is None for v in d.values()):
                    for k in d:
                        if d[k] is None:
                            d[k] = True
            if not inconsistent:
                res = []
                for d in ds:
                    for k, v in d.items():
                        if v is not None and (k, v) not in res:
                            res.append((k, v))
                for k, v in non_ad.items():
                    res.append((k, v))
        out.append(tuple(res))
    grouped = {}
    for e in out:
        grouped[e] = grouped.get(e, 0) + 1
    return [(m, list(e)) for e, m in grouped.items()]


# ------------------------------------------------------------------ generator
def gen_body(rng, upto, maxlen=2):
    if upto == 0:
        return []
    n = rng.choice([1, 1, 2]) if upto > 1 else 1
    n = min(n, maxlen)
    atoms = rng.sample(range(upto), n)
    # a body that is a single negated literal makes the ground node an alias `\\+x` of the fact and
    # Example.compile crashes with UnknownClause lfi_body/3 (see notes/C24.md) -- not generated
    return [(a, n == 1 or rng.random() >= 0.3) for a in sorted(atoms)]


def gen_body2(rng, upto):
    atoms = rng.sample(range(upto), 2)
    return [(a, rng.random() >= 0.3) for a in sorted(atoms)]


def split_mass(rng, total20, k, allow_less):
    """k positive multiples of 1/20 summing to total20/20 (or less when allow_less)."""
    if allow_less and total20 > k and rng.random() < 0.5:
        total20 = rng.randrange(k, total20)
    cuts = sorted(rng.sample(range(1, total20), k - 1)) if k > 1 else []
    parts = [b - a for a, b in zip([0] + cuts, cuts + [total20])]
    return [F(x, 20) for x in parts]


def gen_program(rng, feat):
    """Random acyclic propositional program with tunable facts / rules / ADs.
    feat: 'single_fixed' allows one tunable head next to fixed heads (defect class), 'mle' keeps every tunable
    head atom defined by exactly one clause."""
    clauses, theta0, ref = [], [], []
    nxt = [0]

    def new_atom():
        nxt[0] += 1
        return nxt[0] - 1

    def add_tun(init, refv):
        theta0.append(init)
        ref.append(refv)
        return len(theta0) - 1

    def prob_clause(body):
        r = rng.random()
        if r < 0.45:
            a = new_atom()
            return ([(a, "tun", add_tun(F(rng.randrange(1, 10), 10), F(rng.randrange(1, 10), 10)))], body)
        if r < 0.55:
            a = new_atom()
            return ([(a, "fix", F(rng.randrange(1, 10), 10))], body)
        if r < 0.85 or not feat.get("fixed_heads", True):
            k = rng.choice([2, 2, 3])
            init = split_mass(rng, 20, k, True)
            rf = split_mass(rng, 20, k, False)
            return ([(new_atom(), "tun", add_tun(i, r_)) for i, r_ in zip(init, rf)], body)
        # fixed head(s) next to tunable ones
        fx = F(rng.randrange(2, 9), 20)
        avail20 = 20 - int(fx * 20)
        k = 1 if (feat.get("single_fixed") and rng.random() < 0.7) else 2
        init = split_mass(rng, avail20, k, True)
        rf = split_mass(rng, avail20, k, False)
        hs = [(new_atom(), "tun", add_tun(i, r_)) for i, r_ in zip(init, rf)]
        hs.insert(rng.randrange(len(hs) + 1), (new_atom(), "fix", fx))
        return (hs, body)

    budget = feat.get("max_worlds", 300)
    nbase = rng.choice([1, 2, 2, 3])
    for _ in range(nbase):
        cl = prob_clause([])
        clauses.append(cl)
    nder = rng.choice([0, 1, 2, 2, 3])
    derived = []
    for _ in range(nder):
        r = rng.random()
        if r < 0.4 and nxt[0] >= 2:
            # a rule `x :- y.` makes x an alias of y's node; bodies mentioning both are then simplified by
            # LogicFormula (y, \\+x -> false) before LFI looks for lfi_prob nodes, which the model's `queried`
            # does not imitate: plain rules get two body literals or a second clause
            two = rng.random() < 0.4
            body = gen_body(rng, nxt[0]) if two else gen_body2(rng, nxt[0])
            a = new_atom()
            clauses.append(([(a, "det", None)], body))
            derived.append(a)
            if two:                      # second clause: disjunction
                b2 = gen_body(rng, a)
                while b2 == body:
                    b2 = gen_body2(rng, a)
                clauses.append(([(a, "det", None)], b2))
        elif r < 0.5 and derived and not feat.get("mle"):
            a = rng.choice(derived)     # tunable extra clause for an existing derived atom
            body = gen_body(rng, a)
            clauses.append(([(a, "tun", add_tun(F(rng.randrange(1, 10), 10), F(rng.randrange(1, 10), 10)))], body))
        else:
            body = gen_body(rng, nxt[0])
            cl = prob_clause(body)
            clauses.append(cl)
        if n_worlds(clauses) > budget:
            clauses.pop()
            break
    # parameters must be numbered in source order
    renum, k = {}, 0
    for heads, _ in clauses:
        for h in heads:
            if h[1] == "tun":
                renum[h[2]] = k
                k += 1
    clauses = [([(a, kd, renum[v] if kd == "tun" else v) for a, kd, v in heads], body) for heads, body in clauses]
    keep = sorted(renum, key=lambda o: renum[o])
    theta0 = [theta0[o] for o in keep]
    ref = [ref[o] for o in keep]
    # compact the atom numbering (a popped clause may leave holes)
    used = sorted(set(h[0] for hs, _ in clauses for h in hs) | set(l[0] for _, b in clauses for l in b))
    defined = set(h[0] for hs, _ in clauses for h in hs)
    if any(u not in defined for u in used):
        return None
    amap = dict((a, i) for i, a in enumerate(used))
    clauses = [([(amap[a], kd, v) for a, kd, v in heads], [(amap[a], s) for a, s in body]) for heads, body in clauses]
    if not theta0:
        return None
    return clauses, theta0, ref


def gen_problem(rng, mode, feat, nex):
    for _ in range(200):
        g = gen_program(rng, feat)
        if g is not None:
            break
    else:
        raise RuntimeError("generator failed")
    clauses, theta0, ref = g
    R = Ref(clauses)
    examples = []
    for _ in range(nex):
        vals = R.sample(rng, ref)
        atoms = list(range(R.natoms))
        if mode == "partial" or (mode == "mixed" and rng.random() < 0.5):
            k = rng.randrange(1, max(2, R.natoms))
            atoms = sorted(rng.sample(atoms, k))
        examples.append([(a, vals[a]) for a in atoms])
    return {"clauses": clauses, "theta0": theta0, "ref": ref, "examples": examples, "mode": mode}


# ------------------------------------------------------------------ running the real LFI
def _flat_weights(lfi):
    out = []
    for i in range(len(lfi.names)):
        ws = lfi.get_weights(i)
        assert len(ws) == 1, ws
        out.append(float(ws[0][1]))
    return out


def _conv_results(results):
    out = []
    for m, pe, res in results:
        q = {}
        for fact, value in res.items():
            i = int(fact.args[0])
            q.setdefault(i, [None, None])
            q[i][0 if fact.functor == "lfi_body" else 1] = float(value)
        out.append((int(m), float(pe), sorted((i, v[0], v[1]) for i, v in q.items())))
    return out


def make_lfi(prob, theta0, normalize, n_iter):
    from problog.program import PrologString
    from problog.logic import Term
    from problog.learning.lfi import LFIProblem

    class Cap(LFIProblem):
        def __init__(self, *a, **kw):
            LFIProblem.__init__(self, *a, **kw)
            self.cap = []

        def _update(self, results):
            out = LFIProblem._update(self, results)
            self.cap.append({"results": _conv_results(results), "ll": float(out[0]), "weights": _flat_weights(self)})
            return out

    src = program_text(prob["clauses"], theta0)
    exs = [[(Term(atom_name(a)), bool(v)) for a, v in e] for e in prob["examples"]]
    lfi = Cap(PrologString(src), exs, max_iter=n_iter, min_improv=-1.0, normalize=normalize,
              propagate_evidence=False, infer_AD_values=prob.get("infer", True))
    return lfi, src


def run_problem(prob):
    """Runs (a) the natural n-iteration run through LFIProblem.run(), (b) single iterations from rounded
    starting points.  Returns plain data (picklable)."""
    random.seed(12345)      # LFI draws random numbers even when every t(_) has a value
    n_iter = prob["n_iter"]
    normalize = prob["normalize"]
    out = {"src": None, "err": None}

    def go():
        lfi, src = make_lfi(prob, prob["theta0"], normalize, n_iter + 1)
        out["src"] = src
        lfi.run()
        out["names"] = [str(n) for n in lfi.names]
        out["adatoms"] = [(float(a), list(idx)) for a, idx in lfi._adatoms if idx]
        out["compiled"] = [([str(a) for a in ex.atoms], [bool(v) for v in ex.values], len(ex.n))
                           for ex in lfi._compiled_examples]
        out["trace"] = lfi.cap
        out["iterations"] = lfi.iteration
        # (b) single steps from rational starting points on the same compiled problem
        starts = [list(prob["theta0"])]
        for c in lfi.cap[:prob.get("n_single", n_iter) - 1]:
            starts.append([F(round(w * 10 ** 6), 10 ** 6) for w in c["weights"]])
        singles = []
        for th in starts + [list(t) for t in prob.get("extra_starts", [])]:
            lfi._weights = [float(x) for x in th]
            lfi.cap = []
            res = lfi._evaluate_examples()
            lfi._update(res)
            singles.append({"theta": [(x.numerator, x.denominator) for x in th], "results": lfi.cap[0]["results"],
                            "weights": lfi.cap[0]["weights"], "ll": lfi.cap[0]["ll"]})
        out["singles"] = singles

    try:
        pl.with_timeout(go, 600)
    except BaseException as e:  # noqa
        if isinstance(e, (KeyboardInterrupt, SystemExit)):
            raise
        import traceback
        out["err"] = pl.err_class(e) + ": " + traceback.format_exc()[-1500:]
    return out


# ------------------------------------------------------------------ Coq encoding
def coq_q(x):
    x = F(x)
    if x.denominator == 1:
        return "(%d # 1)" % x.numerator if x.numerator >= 0 else "(-%d # 1)" % -x.numerator
    return "(%d # %d)" % (x.numerator, x.denominator) if x.numerator >= 0 else "(-%d # %d)" % (-x.numerator, x.denominator)


def coq_lit(l):
    return "(%d%%nat, %s)" % (l[0], vf.coq_bool(l[1]))


def coq_program(clauses):
    cs = []
    for heads, body in clauses:
        hs = []
        for a, kind, val in heads:
            k = "HDet" if kind == "det" else ("HFix %s" % coq_q(val) if kind == "fix" else "HTun %d" % val)
            hs.append("(%d%%nat, %s)" % (a, k))
        cs.append("Clause %s %s" % (vf.coq_list(hs), vf.coq_list([coq_lit(l) for l in body])))
    return vf.coq_list(cs)


def coq_examples(grouped):
    return vf.coq_list(["(%s, %s)" % (coq_q(m), vf.coq_list([coq_lit(l) for l in e])) for m, e in grouped])


def coq_results(results):
    rs = []
    for m, pe, qs in results:
        rs.append("(%s, %s, %s)" % (coq_q(m), coq_q(F(pe)), vf.coq_list(
            ["(%d%%nat, %s, %s)" % (i, coq_q(F(b)), coq_q(F(p))) for i, b, p in qs])))
    return vf.coq_list(rs)


# ------------------------------------------------------------------ judge (the property's own specification)
def features(clauses):
    f = set()
    for av, idx, _, fixed in ad_groups(clauses):
        if len(idx) == 1 and fixed > 0:
            f.add("single_tunable_with_fixed")
        if len(idx) >= 2:
            f.add("ad")
        if len(idx) >= 2 and fixed > 0:
            f.add("ad_fixed")
    if any(b for h, b in clauses if any(x[1] == "tun" for x in h)):
        f.add("tunable_body")
    return f


def mle_expected(clauses, examples):
    """Relative-frequency estimate for complete data; None for a parameter whose choice is not determined
    by the interpretation (its head atom has another defining clause)."""
    defs = {}
    for heads, _ in clauses:
        for h in heads:
            defs[h[0]] = defs.get(h[0], 0) + 1
    exp = [None] * n_params(clauses)
    for heads, body in clauses:
        tun = [h for h in heads if h[1] == "tun"]
        if not tun or any(defs[h[0]] != 1 for h in tun):
            continue
        fixed = sum((h[2] for h in heads if h[1] == "fix"), F(0))
        act = [dict(e) for e in examples if all(dict(e)[a] == s for a, s in body)]
        cnt = [sum(1 for e in act if e[h[0]]) for h in tun]
        if len(tun) == 1:
            if not fixed and act:
                exp[tun[0][2]] = F(cnt[0], len(act))
            elif fixed and act:
                exp[tun[0][2]] = min(F(cnt[0], len(act)), 1 - fixed)
        elif sum(cnt):
            for h, c in zip(tun, cnt):
                exp[h[2]] = (1 - fixed) * F(c, sum(cnt))
    return exp


K_LL_FIRST = "normalize-first-iteration-ad-initial-mass-below-available-ll-decreases"
K_DROPPED = "ad-none-outcome-mass-removed-example-dropped"


def initial_mass_below_available(prob):
    """Some AD that _normalize_weights touches (>= 2 tunable heads) starts with less than its available mass."""
    th = prob["theta0"]
    return any(len(idx) >= 2 and sum((th[i] for i in idx), F(0)) < av for av, idx, _, _ in ad_groups(prob["clauses"]))


def classify(prob, symptom, transitions=()):
    """Narrow known-finding classes: input features + symptom (+ for the two first-iteration classes: the
    symptom shows between iteration 1 and iteration 2 and nowhere else)."""
    f = features(prob["clauses"])
    if not prob["normalize"] and "ad" in f and symptom in ("mle", "ll-decrease"):
        return "nonormalize-ad-parent-count-multiplied"
    if "single_tunable_with_fixed" in f and symptom in ("ad-sum", "mle", "ll-decrease", "range"):
        return "ad-single-tunable-head-with-fixed-head-not-capped"
    if prob["normalize"] and symptom in ("ll-decrease", "example-dropped") and set(transitions) == {1} \
            and initial_mass_below_available(prob):
        return K_LL_FIRST if symptom == "ll-decrease" else K_DROPPED
    return None


def judge(ctx, prob, out, ref_obj, grouped):
    """Returns the list of (symptom, message, transition) for the natural run; transition t means "between the
    E-step of iteration t and the E-step of iteration t+1" (None where that makes no sense)."""
    bad = []
    clauses = prob["clauses"]
    trace = out["trace"]
    groups = ad_groups(clauses)
    for t, c in enumerate(trace):
        w = c["weights"]
        for i, x in enumerate(w):
            if not (-TOL <= x <= 1 + TOL) or x != x:
                bad.append(("range", "parameter %d = %r after iteration %d" % (i, x, t + 1), None))
        for av, idx, _, fixed in groups:
            s = sum(w[i] for i in idx) + float(fixed)
            if s > 1 + TOL:
                bad.append(("ad-sum", "AD heads %r sum to %r (fixed part %s) after iteration %d" % (idx, s, fixed, t + 1), None))
    lls = [c["ll"] for c in trace]
    for t in range(1, len(lls)):
        if lls[t] < lls[t - 1] - TOL:
            bad.append(("ll-decrease", "reported log-likelihood falls from %r to %r at iteration %d" % (lls[t - 1], lls[t], t + 1), t))
    # an example that had positive probability is silently ignored later on ("Ignoring example i/n")
    used = [sum(m for m, _, _ in c["results"]) for c in trace]
    for t in range(1, len(used)):
        if used[t] < used[t - 1]:
            bad.append(("example-dropped", "%d example(s) evaluated at iteration %d are ignored (probability 0) at iteration %d; "
                        "reported log-likelihood %r -> %r" % (used[t - 1] - used[t], t, t + 1, lls[t - 1], lls[t]), t))
    # the reported log-likelihood is the log-likelihood of the (pre-processed) data under the current parameters
    thetas = [prob["theta0"]] + [[F(x) for x in c["weights"]] for c in trace[:-1]]
    for t, th in enumerate(thetas):
        if all(0 <= x <= 1 for x in th):
            want = ref_obj.loglik(th, grouped)
            if abs(want - lls[t]) > 1e-7 * max(1.0, abs(want)):
                bad.append(("ll-value", "reported log-likelihood %r at iteration %d, reference semantics gives %r" % (lls[t], t + 1, want), None))
    if prob["mode"] == "complete":
        exp = mle_expected(clauses, prob["examples"])
        w = trace[0]["weights"]
        for i, e in enumerate(exp):
            if e is not None and abs(float(e) - w[i]) > TOL:
                bad.append(("mle", "fully observed data: parameter %d is %r after one iteration, relative frequency is %s" % (i, w[i], e), None))
    return bad


# ------------------------------------------------------------------ fixed probes for the two defect classes
def probe_problems():
    single = {"clauses": [([(0, "fix", F(3, 10)), (1, "tun", 0)], [])], "theta0": [F(1, 2)], "ref": [F(13, 20)],
              "examples": [[(0, False), (1, True)]] * 9 + [[(0, True), (1, False)]], "mode": "complete",
              "normalize": True, "tag": "probe-single-fixed"}
    nonorm = {"clauses": [([(0, "tun", 0), (1, "tun", 1)], [])], "theta0": [F(1, 2), F(1, 2)], "ref": [F(3, 4), F(1, 4)],
              "examples": [[(0, True), (1, False)]] * 3 + [[(0, False), (1, True)]], "mode": "complete",
              "normalize": False, "tag": "probe-nonormalize"}
    # t(0.3)::b; t(0.3)::c. 0.9::f1. 0.1::f2. s :- \+b,\+c,f1. s :- b,f2.   evidence: s
    # (normalisation removes the "no head" mass 0.4 of the AD: reported LL ln 0.39 -> ln 0.1)
    nohead_ll = {"clauses": [([(0, "tun", 0), (1, "tun", 1)], []), ([(2, "fix", F(9, 10))], []), ([(3, "fix", F(1, 10))], []),
                             ([(4, "det", None)], [(0, False), (1, False), (2, True)]),
                             ([(4, "det", None)], [(0, True), (3, True)])],
                 "theta0": [F(3, 10), F(3, 10)], "ref": None, "examples": [[(4, True)]], "mode": "partial",
                 "normalize": True, "tag": "probe-nohead-ll", "n_single": 1}
    # t(0.3)::b; t(0.3)::c.  interpretations {b} and {~b,~c}: after one normalised step P({~b,~c}) = 0, example ignored
    nohead_drop = {"clauses": [([(0, "tun", 0), (1, "tun", 1)], [])], "theta0": [F(3, 10), F(3, 10)], "ref": None,
                   "examples": [[(0, True)], [(0, False), (1, False)]], "mode": "partial",
                   "normalize": True, "tag": "probe-nohead-dropped", "n_single": 1}
    return [single, nonorm, nohead_ll, nohead_drop]


# ------------------------------------------------------------------ family: evidence that depends on the "no head" outcome
def gen_nohead_problem(rng, mode, nex):
    r"""A bodyless AD of 2-3 tunable heads (optionally one constant head) whose initial values sum to LESS than the
    available mass, constant facts, optionally a tunable fact, and an atom s with
        s :- \+h_0, ..., \+h_k [, \+x], g1.        (true only when no head of the AD is selected)
        s :- h_j, g2.
    Data are sampled from a reference vector that also leaves mass to "no head"; observed completely, or
    partially (s always, the AD heads never, the other atoms at random)."""
    k = rng.choice([2, 2, 3])
    fixed20 = rng.choice([0, 0, 0, 4, 6])
    avail20 = 20 - fixed20
    init = split_mass(rng, rng.randrange(k, avail20), k, False)       # strictly below the available mass
    rf = split_mass(rng, rng.randrange(k, avail20), k, False)
    heads = [(i, "tun", i) for i in range(k)]
    natom = k
    if fixed20:
        heads.insert(rng.randrange(k + 1), (natom, "fix", F(fixed20, 20)))
        natom += 1
    clauses = [(heads, [])]
    theta0, ref = list(init), list(rf)
    guards = []
    # half of the programs make the "no head" explanation of s likely and the other one unlikely
    skew = rng.random() < 0.5
    for gi in range(2):
        if not skew and rng.random() < 0.3:
            clauses.append(([(natom, "tun", len(theta0))], []))
            theta0.append(F(rng.randrange(1, 10), 10))
            ref.append(F(rng.randrange(1, 10), 10))
        elif skew:
            clauses.append(([(natom, "fix", F(rng.choice([8, 9] if gi == 0 else [1, 2]), 10))], []))
        else:
            clauses.append(([(natom, "fix", F(rng.randrange(1, 10), 10))], []))
        guards.append(natom)
        natom += 1
    s = natom
    none_body = sorted([(h[0], False) for h in heads] + [(guards[0], True)])
    j = rng.randrange(k)
    clauses.append(([(s, "det", None)], none_body))
    clauses.append(([(s, "det", None)], sorted([(j, True), (guards[1], True)])))
    # atoms must be numbered so that heads of one clause are new atoms in order: renumber heads 0..  (constant head may sit in between)
    order = [h[0] for h in heads] + guards + [s]
    amap = dict((a, i) for i, a in enumerate(order))
    clauses = [([(amap[a], kd, v) for a, kd, v in hs], sorted((amap[a], sg) for a, sg in b)) for hs, b in clauses]
    R = Ref(clauses)
    full = list(ref)
    examples = []
    tun_heads = set(amap[h[0]] for h in heads if h[1] == "tun")
    for _ in range(nex):
        vals = R.sample(rng, full)
        if mode == "complete":
            atoms = list(range(R.natoms))
        else:
            atoms = [a for a in range(R.natoms) if a == amap[s] or (a not in tun_heads and rng.random() < 0.5)]
        examples.append([(a, vals[a]) for a in atoms])
    return {"clauses": clauses, "theta0": theta0, "ref": ref, "examples": examples, "mode": mode, "family": "nohead"}


# ------------------------------------------------------------------ main
def shrink_examples(prob, symptom):
    """Drop examples while the same symptom persists on the real implementation."""
    cur = dict(prob)
    exs = list(prob["examples"])
    i = 0
    tries = 0
    while i < len(exs) and tries < 40 and len(exs) > 1:
        cand = exs[:i] + exs[i + 1:]
        p2 = dict(cur, examples=cand)
        o2 = run_problem(p2)
        tries += 1
        ok = False
        if not o2["err"]:
            grouped = process_examples(p2["clauses"], cand, p2.get("infer", True))
            ok = any(b[0] == symptom for b in judge(None, p2, o2, Ref(p2["clauses"]), grouped))
        if ok:
            exs = cand
        else:
            i += 1
    return dict(cur, examples=exs)


def replay_of(prob, out=None):
    r = {"program": program_text(prob["clauses"], prob["theta0"]),
         "examples": [[(atom_name(a), v) for a, v in e] for e in prob["examples"]],
         "normalize": prob["normalize"], "n_iter": prob["n_iter"], "mode": prob["mode"],
         "problem": {"clauses": [[[list(map(str, h)) for h in hs], b] for hs, b in prob["clauses"]],
                     "theta0": [str(x) for x in prob["theta0"]]}}
    if out is not None and out.get("trace"):
        r["weights_per_iteration"] = [c["weights"] for c in out["trace"]]
        r["loglik_per_iteration"] = [c["ll"] for c in out["trace"]]
    return r


def run(ctx):
    ctx.cov["rule"] = ("random acyclic propositional programs (1-3 bodyless probabilistic clauses: t(p) facts, constant facts, "
                       "ADs of 2-3 tunable heads, ADs with a constant head; 0-3 derived clauses: rules, t(p) rules with body, "
                       "ADs with body, negated body literals), explicit initial values in 1/10 or 1/20 steps; data = 8-24 worlds "
                       "sampled from a reference parameter vector, observed completely / partially / mixed; a case is "
                       "non-trivial when it has >= 2 parameters, >= 2 distinct examples and some parameter moves by > 1e-3; "
                       "+ family `nohead`: a bodyless tunable AD starting BELOW its available mass, constant/tunable guard facts and "
                       "s :- \\+all heads, g1.  s :- h_j, g2., data sampled from a reference that leaves mass to 'no head', observed "
                       "completely or through s and the guards only; + 4 fixed probes (one per known defect class); "
                       "distinct = distinct (program, data, options)")
    ctx.assumptions += [
        "hand-written Gallina model corresponds to lfi.py only as far as the sampled single-iteration comparisons show",
        "propositional acyclic programs; first-order t(_,X) parameters, leak probabilities, logspace evaluation and "
        "propagate_evidence=True are outside the model",
        "the implementation starts the compared single iterations from float(k/10^6), the model from k/10^6 exactly",
        "`queried` models reachability only: programs where LogicFormula simplifies a tunable clause's body away "
        "(alias rules `x :- y.` combined with `y, \\+x`) are not generated",
        "EM monotonicity is proved for the exact E-step/M-step (posterior clamp 1e-6 and floor 1e-15 inactive)",
    ]
    ok = ctx.prove("C24/Props.v")
    if ctx.tier == "thorough":
        ctx.coqchk("PL.C24.Props")

    nprob = ctx.n(18, 240)
    n_iter = 5
    probs = probe_problems()
    if getattr(ctx, "replay", None) and ctx.replay.get("replay", {}).get("problem"):
        rp = ctx.replay["replay"]
        cl = [([(int(h[0]), h[1], (F(h[2]) if h[1] == "fix" else (int(h[2]) if h[1] == "tun" else None))) for h in hs],
               [(int(a), bool(sg)) for a, sg in b]) for hs, b in rp["problem"]["clauses"]]
        probs = [{"clauses": cl, "theta0": [F(x) for x in rp["problem"]["theta0"]], "ref": None,
                  "examples": [[(int(a[1:]), bool(v)) for a, v in e] for e in rp["examples"]],
                  "mode": rp["mode"], "normalize": rp["normalize"], "tag": "replay"}]
        nprob = 0
    for k in range(nprob):
        mode = ["complete", "partial", "mixed"][k % 3]
        feat = {"single_fixed": (k % 13 == 5), "mle": mode == "complete" and k % 2 == 0,
                "max_worlds": ctx.n(150, 400)}
        p = gen_problem(ctx.rng, mode, feat, ctx.rng.choice([8, 12, 16, 24]))
        p["normalize"] = not (k % 9 == 4)
        p["tag"] = "gen%d" % k
        probs.append(p)
    # family: ADs starting below their available mass, evidence depending on the "no head" outcome (after the
    # main stream so that the main stream of a seed is unchanged)
    for k in range(ctx.n(6, 60) if nprob else 0):
        p = gen_nohead_problem(ctx.rng, ["partial", "complete"][k % 2], ctx.rng.choice([6, 10, 16]))
        p["normalize"] = True
        p["tag"] = "nohead%d" % k
        # single iterations only from the initial point and from two more points below the available mass:
        # later points of the run sit on the boundary (no-head mass 0 up to float noise)
        p["n_single"] = 1
        av20 = [int(av * 20) for av, idx, _, _ in ad_groups(p["clauses"]) if len(idx) >= 2][0]
        nad = len(ad_groups(p["clauses"])[0][1])
        p["extra_starts"] = [split_mass(ctx.rng, ctx.rng.randrange(nad, av20), nad, False)
                             + [F(ctx.rng.randrange(1, 10), 10) for _ in p["theta0"][nad:]] for _ in range(ctx.n(1, 2))]
        probs.append(p)
    for p in probs:
        p["n_iter"] = n_iter
        p.setdefault("n_single", ctx.n(3, 5))
    ctx.log("running LFI on %d problems" % len(probs))
    outs = pl.pmap(run_problem, probs, jobs=ctx.n(8, 14), chunksize=1)
    ctx.log("LFI runs done")

    cases, metas = [], []
    for p, out in zip(probs, outs):
        feats = sorted(features(p["clauses"]))
        ctx.count("mode:" + p["mode"])
        ctx.count("normalize:" + str(p["normalize"]))
        for f in feats:
            ctx.count("feature:" + f)
        if p.get("family"):
            ctx.count("family:" + p["family"])
        if initial_mass_below_available(p):
            ctx.count("feature:ad_initial_mass_below_available")
        ctx.count("params", n_params(p["clauses"]))
        if out["err"] and out["err"].startswith("Timeout"):
            ctx.count("impl-timeout (skipped, machine load)")
            continue
        if out["err"]:
            ctx.count("impl-error")
            ctx.violation("LFI raised on a generated problem: %s" % out["err"][:300], replay_of(p), klass="lfi-error:" + out["err"].split(":")[0])
            continue
        R = Ref(p["clauses"])
        grouped = process_examples(p["clauses"], p["examples"], p.get("infer", True))
        # the harness's reading of _process_examples must agree with what LFI compiled
        mine = [([atom_name(a) for a, _ in e], [v for _, v in e], m) for m, e in grouped]
        if mine != [(a, v, m) for a, v, m in out["compiled"]]:
            ctx.broken.append("correspondence:example pre-processing differs on %s" % p["tag"])
            ctx.notes.append("preprocess: mine=%r impl=%r\n%s" % (mine, out["compiled"], out["src"]))
            continue
        ad_impl = sorted((round(a, 9), tuple(i)) for a, i in out["adatoms"])
        ad_mine = sorted((round(float(a), 9), tuple(i)) for a, i, _, _ in ad_groups(p["clauses"]))
        if ad_impl != ad_mine:
            ctx.broken.append("correspondence:_adatoms differ on %s: %r vs %r" % (p["tag"], ad_impl, ad_mine))
            continue
        moved = max(abs(a - float(b)) for a, b in zip(out["trace"][0]["weights"], p["theta0"]))
        nontrivial = n_params(p["clauses"]) >= 2 and len(grouped) >= 2 and moved > 1e-3
        ctx.case((out["src"], tuple(map(tuple, (tuple(e) for e in p["examples"]))), p["normalize"]), nontrivial,
                 sample={"program": out["src"], "n_examples": len(p["examples"]), "distinct_examples": len(grouped),
                         "mode": p["mode"], "normalize": p["normalize"],
                         "weights": [c["weights"] for c in out["trace"][:2]], "loglik": [c["ll"] for c in out["trace"]]})
        ctx.count("distinct_examples", len(grouped))
        # ---- property-level judge on the natural run
        bad = judge(ctx, p, out, R, grouped)
        seen = set()
        for symptom, msg, _t in bad:
            if symptom in seen:
                continue
            seen.add(symptom)
            klass = classify(p, symptom, [b[2] for b in bad if b[0] == symptom])
            ctx.count("judge:" + symptom)
            small = p
            if klass is None and ctx.tier == "thorough":
                small = shrink_examples(p, symptom)
            ctx.violation("%s [%s; normalize=%s] on program\n%s" % (msg, symptom, p["normalize"], out["src"]),
                          replay_of(small, out), klass=klass or ("c24-" + symptom))
        # ---- tie: single iterations, model vs implementation
        for s in out["singles"]:
            th = [F(a, b) for a, b in s["theta"]]
            cases.append("chk %s %s %s %s %s %s" % (
                vf.coq_bool(p["normalize"]), coq_program(p["clauses"]), coq_examples(grouped),
                vf.coq_list([coq_q(x) for x in th]), coq_results(s["results"]),
                vf.coq_list([coq_q(F(w)) for w in s["weights"]])))
            metas.append((p["tag"], out["src"], [str(x) for x in th], s["weights"]))
            ctx.count("single_iterations_compared")
    if cases:
        ctx.log("evaluating %d single iterations in the Coq model" % len(cases))
        try:
            badi = ctx.coq_failing(HEADER, cases, name="lfi", shard=ctx.n(8, 24), jobs=ctx.n(8, 14))
        except RuntimeError as e:
            ctx.broken.append("correspondence:ModelLFIUpdate does not evaluate")
            ctx.notes.append(str(e))
            return
        ctx.cov["model_vs_impl_agree"] = len(cases) - len(badi)
        for i in badi[:5]:
            tag, src, th, w = metas[i]
            ctx.broken.append("correspondence:ModelLFIUpdate.step vs LFIProblem._update on %s from %s (impl -> %r)" % (tag, th, w))
            ctx.notes.append("program of %s:\n%s" % (tag, src))
