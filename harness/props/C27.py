"""C27 — user errors surface as ProbLog errors, never as crashes.

proof part   : coq/theories/C27 — `check_mode`, the translated type predicates / mode table / call sites
               (gen/c27_modes.py, fail-closed) and hand models of the C16 builtins over partial primitives;
               theorems: predicates never raise, check_mode is total and first-match, every call site is
               well formed, and mode safety (`Accept i -> body <> Stuck`) builtin by builtin.
tie          : (a) the registration table of the live engine == the translated one; (b) EVERY dynamic
               `check_mode` call made while the streams run is replayed through the Coq `check_mode`
               (arguments captured at the call boundary); (c) every dynamic call of a modelled builtin is
               replayed through its Coq body (outcome class + results).
search part  : malformed stream (every registered builtin x random argument shapes, inside programs) and
               token-level mutations of generated programs and /repo/test/*.pl through parse+ground+evaluate;
               judge = "outcome is a result or a ProbLogError subclass".  This part is a search, not a proof.
"""
import glob
import io
import json
import os
import sys
import traceback

import vf
import pl

sys.path.insert(0, os.path.join(vf.VERIF, "gen"))
import c27_modes  # noqa: E402

META = {
    "id": "C27",
    "level": "proof",
    "partial": True,
    "technique": "fail-closed Python-ast -> Gallina translation of engine_builtin.py's type predicates, mode table, "
                 "check_mode call sites and registrations; Coq theorems: predicates total, check_mode total/first-match, "
                 "sites well-formed, mode safety of the C16 builtins over partial primitives; ties: live registration table, "
                 "replay of every dynamic check_mode / modelled-builtin call through the Coq model; "
                 "SEARCH (not proof): malformed-call stream + token mutation stream judged on exception class",
    "design_ref": "DESIGN.md §5 C27",
    "text": "Proved for the modelled surface (call-mode guarding of partial operations). The absence of internal "
            "exceptions in unmodelled Python (parser, engine, ClauseDB, formula, evaluators) is runtime behaviour: that "
            "part is a budgeted search over generated/mutated programs and is labelled as search.",
    "note": "partial: theorems cover check_mode + modelled builtin bodies; everything else is searched, not proved.",
}

HEADER = """From Coq Require Import ZArith List Bool String Ascii.
From PL.C27 Require Import ModelTerms GenModes ModelModes ModelBuiltins.
Import ListNotations.
Open Scope string_scope.
"""

# ------------------------------------------------------------------------------------------------ translator
_TABLE = {}


def generate(ctx):
    text, table = c27_modes.translate(vf.REPO)
    ctx.generate("C27/GenModes.v", text)
    _TABLE.clear()
    _TABLE.update(table)
    return table


# ------------------------------------------------------------------------------------------------ encoding python terms
class _Skip(Exception):
    pass


def enc(t, depth=0, budget=None):
    """Python object seen by a builtin -> JSON-able pterm."""
    from problog.logic import Term, Constant, Var, Object
    if budget is None:
        budget = [80]
    budget[0] -= 1
    if budget[0] < 0 or depth > 14:
        raise _Skip()
    if t is None:
        return ["N"]
    if type(t) is int:
        return ["S", t]
    if isinstance(t, Var):
        return ["V", str(t.functor)]
    if isinstance(t, Object):
        return ["O"]
    if isinstance(t, Constant):
        v = t.functor
        if type(v) is int:
            return ["I", v]
        if type(v) is float:
            if v != v:
                return ["F", "nan"]
            if v in (float("inf"), float("-inf")):
                return ["F", "inf" if v > 0 else "-inf"]
            return ["F", "fin", v == int(v), int(v)]
        if type(v) is str:
            return ["Q", v]
        raise _Skip()
    if isinstance(t, Term):
        f = t.functor
        if type(f) is not str:
            f = str(f)
        return ["A", f, [enc(a, depth + 1, budget) for a in t.args]]
    raise _Skip()


def ascii_ok(s):
    return all(32 <= ord(c) < 127 for c in s)


def coq_term(e):
    k = e[0]
    if k == "N":
        return "PNone"
    if k == "S":
        return "(PSlot %s)" % vf.coq_Z(e[1])
    if k == "V":
        return "(PVarObj %s)" % vf.coq_string(e[1])
    if k == "O":
        return "(PObj 0)"
    if k == "I":
        return "(PInt %s)" % vf.coq_Z(e[1])
    if k == "F":
        if e[1] == "nan":
            return "(PFloat FNan)"
        if e[1] == "inf":
            return "(PFloat (FInf false))"
        if e[1] == "-inf":
            return "(PFloat (FInf true))"
        return "(PFloat (FFin %s %s))" % (vf.coq_bool(e[2]), vf.coq_Z(e[3]))
    if k == "Q":
        if not ascii_ok(e[1]):
            raise _Skip()
        return "(PStr %s)" % vf.coq_string(e[1])
    if k == "A":
        if not ascii_ok(e[1]):
            raise _Skip()
        return "(PApp %s %s)" % (vf.coq_string(e[1]), vf.coq_list([coq_term(a) for a in e[2]]))
    raise _Skip()


# ------------------------------------------------------------------------------------------------ in-process recorders
_STATE = {"patched": False, "rec": None, "orig_check_mode": None}

# modelled builtins: python function name -> Coq body
MODELLED = {
    "_builtin_between": "body_between", "_builtin_succ": "body_succ", "_builtin_plus": "body_plus",
    "_builtin_length": "body_length", "_builtin_functor": "body_functor", "_builtin_arg": "body_arg",
    "_builtin_split_call": "body_split_call", "_builtin_compare": "body_compare",
    "_builtin_atom_number": "body_atom_number", "_builtin_nocache": "body_nocache",
    "_builtin_var": "body_tt \"var\"", "_builtin_atom": "body_tt \"atom\"", "_builtin_atomic": "body_tt \"atomic\"",
    "_builtin_compound": "body_tt \"compound\"", "_builtin_float": "body_tt \"float\"",
    "_builtin_integer": "body_tt \"integer\"", "_builtin_nonvar": "body_tt \"nonvar\"",
    "_builtin_number": "body_tt \"number\"", "_builtin_simple": "body_tt \"simple\"",
    "_builtin_callable": "body_tt \"callable\"", "_builtin_ground": "body_tt \"ground\"",
    "_builtin_is_list": "body_tt \"is_list\"", "_builtin_rational": "body_tt \"rational\"",
    "_builtin_dbreference": "body_tt \"dbreference\"", "_builtin_primitive": "body_tt \"primitive\"",
    "_builtin_is": "body_is", "_builtin_gt": "body_cmp", "_builtin_lt": "body_cmp", "_builtin_le": "body_cmp",
    "_builtin_ge": "body_cmp", "_builtin_val_neq": "body_cmp", "_builtin_val_eq": "body_cmp",
    "_builtin_sort": "body_sort", "_builtin_numbervars": "body_numbervars",
}


MODELLED_SIGS = {"between/3", "succ/2", "plus/3", "length/2", "functor/3", "arg/3", "=../2", "compare/3", "atom_number/2", "sort/2",
                 "is/2", "</2", ">/2", "=</2", ">=/2", "=:=/2", "=\\=/2", "numbervars/3", "nocache/2"}


def _patch_check_mode():
    import problog.engine_builtin as eb
    if _STATE["patched"]:
        return
    orig = eb.check_mode
    _STATE["orig_check_mode"] = orig

    def check_mode(args, accepted, *a, **kw):
        rec = _STATE["rec"]
        out = None
        try:
            out = orig(args, accepted, *a, **kw)
            return out
        except eb.CallModeError:
            out = "CME"
            raise
        except BaseException as e:  # the model says this cannot happen
            out = "EXC:" + type(e).__name__
            raise
        finally:
            if rec is not None and len(rec["modes"]) < 400 and out != "EXC:_Timeout":   # the alarm can fire anywhere
                fr = sys._getframe(1)
                try:
                    rec["modes"].append([fr.f_code.co_name, fr.f_lineno, list(accepted), [enc(x) for x in args], out])
                except _Skip:
                    rec["skipped"] += 1
                except Exception:
                    rec["skipped"] += 1
    eb.check_mode = check_mode
    _STATE["patched"] = True


def _wrap_builtin(pyname, fn):
    def wrapped(*args, **kw):
        rec = _STATE["rec"]
        out = None
        try:
            r = fn(*args, **kw)
            try:
                if r is True or r is False:
                    out = ["B", bool(r)]
                elif r is None:
                    out = ["R", []]
                else:
                    out = ["R", [[enc(x) for x in tup] for tup in r]]
            except Exception:
                out = None
            return r
        except BaseException as e:
            from problog.errors import ProbLogError
            out = ["E", type(e).__name__, isinstance(e, ProbLogError)]
            if type(e).__name__ == "_Timeout":
                out = None
            raise
        finally:
            if rec is not None and out is not None and len(rec["calls"]) < 400:
                try:
                    rec["calls"].append([pyname, [enc(x) for x in args], out])
                except Exception:
                    rec["skipped"] += 1
    wrapped.__name__ = getattr(fn, "__name__", pyname)
    return wrapped


def _instrument_engine(eng):
    for sig, idx in eng.get_builtins().items():
        f = eng.get_builtin(idx)
        base = getattr(f, "base_function", None)
        if base is not None and getattr(base, "__name__", None) in MODELLED and not getattr(base, "_c27", False):
            w = _wrap_builtin(base.__name__, base)
            w._c27 = True
            f.base_function = w


def exc_info(e):
    """(exception name, innermost problog frame 'module.function', nearest builtin frame, message)"""
    tb = traceback.extract_tb(e.__traceback__)
    inner, near_builtin = None, None
    for fr in tb:
        fn = fr.filename.replace("\\", "/")
        if "/problog/" in fn:
            mod = fn.split("/problog/")[-1][:-3].replace("/", ".")
            inner = mod + "." + fr.name
            if mod == "engine_builtin" and fr.name not in ("check_mode", "wrapped") and not fr.name.startswith("__"):
                near_builtin = fr.name
    return [type(e).__name__, inner, near_builtin, str(e)[:160]]


def run_program(item):
    """Worker: full default pipeline on program text with recorders installed."""
    src = item["src"]
    record = item.get("record", True)
    timeout = item.get("timeout", 10)
    rec = {"modes": [], "calls": [], "skipped": 0}
    info = None

    def go():
        from problog import get_evaluatable
        from problog.program import PrologString
        from problog.engine import DefaultEngine
        from problog.formula import LogicFormula
        eng = DefaultEngine()
        if record:
            _instrument_engine(eng)
        db = eng.prepare(PrologString(src))
        lf = LogicFormula.create_from(db, engine=eng)
        kc = get_evaluatable().create_from(lf)
        res = kc.evaluate()
        return {str(k): v for k, v in res.items()}

    if record:
        _patch_check_mode()
    _STATE["rec"] = rec if record else None
    so, se = sys.stdout, sys.stderr
    sys.stdout, sys.stderr = io.StringIO(), io.StringIO()
    try:
        try:
            out = ("ok", pl.with_timeout(go, timeout))
        except BaseException as e:  # noqa
            if isinstance(e, (KeyboardInterrupt, SystemExit)):
                raise
            cls = pl.err_class(e)
            # the alarm of pl.with_timeout can fire inside library code that converts every Exception
            # (inspect.getfullargspec -> TypeError('unsupported callable')): a timeout anywhere in the chain is a Timeout
            x, hops = e, 0
            while x is not None and hops < 12:
                if type(x).__name__ == "_Timeout":
                    cls = "Timeout"
                    break
                x = x.__cause__ or x.__context__
                hops += 1
            out = ("err", cls)
            if cls.startswith("INTERNAL:"):
                info = exc_info(e)
    finally:
        sys.stdout, sys.stderr = so, se
        _STATE["rec"] = None
    if out[0] == "ok":
        out = ("ok", len(out[1]))
    return {"out": out, "info": info, "rec": rec}


# ------------------------------------------------------------------------------------------------ argument shapes
ATOMS = ["a", "b", "foo", "[]", "'hello world'", "'<'", "'='", "'>'", "inf", "nan", "'1'", "'3.5'", "fail", "true",
         "'-'", "e", "pi", "library", "infinity", "'1e400'", "'-inf'", "'0x10'"]
INTS = ["0", "1", "2", "3", "7", "-1", "-3", "100", "12345678901234567890"]
FLOATS = ["0.5", "2.0", "-1.5", "1.0e10", "1.0e308", "0.0", "3.0e-5"]
STRINGS = ['"abc"', '""', '"1"', '"a b"']
GOALS = ["pf(1)", "pf(X9)", "base(X9)", "base(a)", "r(X9)", "undefined_pred(1)", "true", "fail", "(base(X9), pf(1))",
         "(base(a); pf(2))", "\\+ base(c)", "between(1,3,X9)", "X9 = a", "call(base, a)", "foo", "writeln(hi)"]
EXPRS = ["1+2", "2*3.0", "7 // 2", "1/0", "1 << -1", "foo+1", "\"a\"+1", "2.0**10000", "X8+1", "exp(1000)", "integer(inf)",
         "1.5 << 2", "min(\"a\",1)", "sqrt(-1)", "log(0)", "10**400 / 3", "-(-(1))", "abs(-3)", "max(1, 2.5)", "e", "pi*2",
         "7 mod 0", "float(12345678901234567890123)", "\\ 1.5", "3 xor 1.0", "cot(1)", "1 + a", "[1] + 2", "nan + 1",
         "2 ** 0.5", "(-8) ** 0.5", "1.0e308 * 1.0e308", "truncate(1.0e308 * 10)", "\"a\" * 3", "\"a\" < 1"]


def g_var(rng, st):
    st["nv"] += 1
    if rng.random() < 0.25 and st["vars"]:
        return rng.choice(st["vars"])
    v = "V%d" % st["nv"]
    st["vars"].append(v)
    return v


def g_list(rng, st, depth, fixed=None):
    n = rng.choice([0, 1, 1, 2, 3, 4])
    els = [g_any(rng, st, depth + 1) for _ in range(n)]
    kind = rng.random()
    if fixed is True or (fixed is None and kind < 0.6) or n == 0:
        return "[" + ", ".join(els) + "]"
    if fixed is False or kind < 0.85:
        return "[" + ", ".join(els) + " | " + g_var(rng, st) + "]"
    return "[" + ", ".join(els) + " | " + rng.choice(["b", "1", "f(a)", "\"s\""]) + "]"


def g_compound(rng, st, depth):
    k = rng.random()
    if k < 0.15:
        return "-(%s)" % rng.choice(["1", "2.5", "a", g_var(rng, st), "-(1)", "0"])
    if k < 0.3:
        return rng.choice(EXPRS).replace("X8", g_var(rng, st))
    if k < 0.4:
        return rng.choice(["a:b", "(a,b)", "(a;b)", "\\+a", "p/1", "'$Var'(1)", "'$Var'(a)", "'$Var'", "f(A,A)".replace("A", g_var(rng, st)),
                           "(a:-b)", "0.5::a", "'.'(a)", "'.'(a,b,c)", "library(lists)", "library(nonexistent)"])
    f = rng.choice(["f", "g", "foo", "'.'", "'-'", "s"])
    n = rng.choice([1, 1, 2, 3])
    return "%s(%s)" % (f, ", ".join(g_any(rng, st, depth + 1) for _ in range(n)))


def g_any(rng, st, depth=0):
    k = rng.random()
    if depth >= 3:
        k = k * 0.62
    if k < 0.14:
        return g_var(rng, st)
    if k < 0.18:
        return "_"
    if k < 0.32:
        return rng.choice(ATOMS)
    if k < 0.44:
        return rng.choice(INTS)
    if k < 0.52:
        return rng.choice(FLOATS)
    if k < 0.58:
        return rng.choice(STRINGS)
    if k < 0.62:
        return rng.choice(GOALS).replace("X9", g_var(rng, st))
    if k < 0.82:
        return g_compound(rng, st, depth)
    return g_list(rng, st, depth)


def g_ground(rng, st, depth=0):
    for _ in range(20):
        st2 = {"nv": 0, "vars": []}
        t = g_any(rng, st2, depth)
        if not st2["vars"] and "_" not in t.replace("'", ""):
            return t
    return rng.choice(ATOMS + INTS + FLOATS + STRINGS)


def g_letter(rng, st, c):
    if c == "i":
        return rng.choice(INTS + ["-(2)", "-(0)"])
    if c == "I":
        return rng.choice(["0", "1", "2", "3", "5", "-1", "-2"])
    if c == "f":
        return rng.choice(FLOATS + ["-(2.5)"])
    if c == "v":
        return g_var(rng, st) if rng.random() < 0.9 else "_"
    if c == "n":
        for _ in range(10):
            t = g_any(rng, st)
            if not (t == "_" or (t[0].isupper() and t[1:].isdigit())):
                return t
        return "a"
    if c == "l":
        return g_list(rng, st, 1)
    if c == "L":
        return g_list(rng, st, 1, fixed=True)
    if c == "<":
        return rng.choice(["'<'", "'='", "'>'", "<", "=", ">"])
    if c == "g":
        return rng.choice(EXPRS).replace("X8", "1") if rng.random() < 0.5 else g_ground(rng, st)
    if c == "a":
        return rng.choice(ATOMS)
    if c == "c":
        return rng.choice(GOALS).replace("X9", g_var(rng, st)) if rng.random() < 0.7 else g_compound(rng, st, 1)
    if c == "s":
        return rng.choice(STRINGS + ATOMS)
    return g_any(rng, st)


PREAMBLE = "0.3::pf(1). 0.6::pf(2). base(a). base(b). r(X) :- base(X).\n"


BIG_OK = {"is", "<", ">", "=<", ">=", "=:=", "=\\=", "plus", "succ", "atom_number", "=", "==", "\\==", "\\=", "compare", "sort",
          "integer", "number", "atomic", "=..", "arg", "@<", "@>", "@=<", "@>=", "ground", "var", "nonvar", "float"}


def g_call(rng, name, arity, modes):
    args = g_call0(rng, name, arity, modes)
    if name not in BIG_OK:       # between/length/functor/... would enumerate or allocate that many elements
        args = [a.replace("12345678901234567890123", "100").replace("12345678901234567890", "100") for a in args]
    return args


def g_call0(rng, name, arity, modes):
    """One call `name(args)` as text.  modes: list of mode strings of the sites reachable from the builtin."""
    st = {"nv": 0, "vars": []}
    usable = [m for m in modes if len(m) == arity]
    if usable and rng.random() < 0.6:
        m = rng.choice(usable)
        args = [g_letter(rng, st, c) if rng.random() < 0.85 else g_any(rng, st) for c in m]
    else:
        args = [g_any(rng, st) for _ in range(arity)]
    return args


def quote_functor(name):
    import re
    if re.match(r"^[a-z][A-Za-z0-9_]*$", name):
        return name
    return "'" + name.replace("'", "\\'") + "'"      # no backslash escapes inside ProbLog quoted atoms


def call_text(name, args):
    if not args:
        return quote_functor(name)
    return "%s(%s)" % (quote_functor(name), ", ".join(args))


def program_for(call, variant=0):
    if variant == 1:
        return PREAMBLE + "q :- pf(_), %s.\nquery(q).\n" % call
    if variant == 2:
        return PREAMBLE + "q :- %s, base(_).\nquery(q).\n" % call
    if variant == 3:
        return PREAMBLE + ":- %s.\nquery(base(a)).\n" % call
    if variant == 4:
        return PREAMBLE + "q :- \\+ %s.\nquery(q).\n" % call
    if variant == 5:
        return PREAMBLE + "q :- findall(x, %s, L), L = [_|_].\nquery(q).\n" % call
    if variant == 6:
        return PREAMBLE + "q :- call(%s).\nquery(q).\n" % call
    return PREAMBLE + "q :- %s.\nquery(q).\n" % call


# ------------------------------------------------------------------------------------------------ classes
FAMILY = {"_builtin_gt": "arith_compare", "_builtin_lt": "arith_compare", "_builtin_le": "arith_compare", "_builtin_ge": "arith_compare",
          "_builtin_val_eq": "arith_compare", "_builtin_val_neq": "arith_compare",
          "_builtin_try_call": "try_call", "_builtin_try_calln": "try_call",
          "_builtin_set_state": "state_builtins", "_builtin_reset_state": "state_builtins",
          "_builtin_check_state": "state_builtins", "_builtin_condition": "state_builtins",
          "_builtin_call_in_scope": "call_in_scope", "_builtin_calln_in_scope": "call_in_scope",
          "_builtin_subquery": "subquery", "_builtin_subquery_in_scope": "subquery"}


def violation_class(info, name=None):
    """Narrow class = exception type + innermost problog frame (+ the builtin family it was reached through)."""
    exc, inner, near, msg = info
    inner = inner or "?"
    if inner.startswith("logic.<lambda>"):
        inner = "logic.compute_function"
    if exc == "AssertionError" and inner == "eval_nodes.__setitem__":
        return "false-result-to-cycle-parent-assertion"
    mod, _, fn = inner.rpartition(".")
    if mod == "engine_builtin":
        inner = FAMILY.get(fn, fn)
        near = None
    k = "internal-%s-at-%s" % (exc, inner)
    if near:
        k += "-via-" + FAMILY.get(near, near)
    return k


# ------------------------------------------------------------------------------------------------ tie (a): registrations
def compare_registrations(ctx, table):
    from problog.engine import DefaultEngine
    eng = DefaultEngine()
    live = {}
    kinds = {"BooleanBuiltIn": "KBool", "SimpleBuiltIn": "KDet", "SimpleProbabilisticBuiltIn": "KProb"}
    for sig, idx in eng.get_builtins().items():
        f = eng.get_builtin(idx)
        base = getattr(f, "base_function", None)
        if base is None:
            live[sig] = ("KRaw", getattr(f, "__name__", "?"))
        else:
            live[sig] = (kinds.get(type(f).__name__, type(f).__name__), getattr(base, "__name__", "?"))
    trans = {}
    for (n, a, k, f) in table["registrations"]:
        trans["%s/%d" % (n, a)] = (k, f)      # later registrations overwrite, as in add_builtin
    ctx.cov["registered_builtins_live"] = len(live)
    ctx.cov["registered_builtins_translated"] = len(trans)
    bad = []
    for sig in sorted(set(live) | set(trans)):
        if live.get(sig) != trans.get(sig):
            bad.append("%s: live=%r translated=%r" % (sig, live.get(sig), trans.get(sig)))
    for b in bad[:6]:
        ctx.broken.append("correspondence:registration table " + b)
    ctx.count("registrations_compared", len(live))
    return live


# ------------------------------------------------------------------------------------------------ streams
SIMPLE_ARGS = ["a", "1", "X", "[]", "f(a)", "0.5", '"s"', "_"]


def shrink_calls(found):
    """found: {klass: (name, args, variant)}.  Two parallel rounds of one-argument simplifications (and the plain
    program context), keeping a candidate only when the same class of internal exception persists."""
    found = dict(found)
    for _round in range(2):
        items, metas = [], []
        for klass, (name, args, variant) in found.items():
            cands = []
            if variant != 0:
                cands.append((args, 0))
            for i in range(len(args)):
                for sarg in SIMPLE_ARGS:
                    if args[i] != sarg and len(sarg) < len(args[i]):
                        cands.append((args[:i] + [sarg] + args[i + 1:], variant))
            for (a, v) in cands:
                items.append({"src": program_for(call_text(name, a), v), "record": False, "timeout": 5})
                metas.append((klass, name, a, v))
        if not items:
            break
        results = pl.pmap(run_program, items, chunksize=4)
        improved = False
        for (klass, name, a, v), r in zip(metas, results):
            if r["info"] is not None and violation_class(r["info"]) == klass:
                cur = found[klass]
                if (len(call_text(name, a)), v) < (len(call_text(cur[0], cur[1])), cur[2]):
                    found[klass] = (name, a, v)
                    improved = True
        if not improved:
            break
    return found


def malformed_stream(ctx, table, live):
    per = ctx.n(8, 110)
    items, metas = [], []
    sigs = sorted(live)
    for sig in sigs:
        name, ar = sig.rsplit("/", 1)
        ar = int(ar)
        modes = [m for i in table["builtin_sites"].get(sig, []) for m in table["sites"][i]["modes"]]
        n = per if ar > 0 else 1
        if sig in MODELLED_SIGS:
            n = per * 3
        if name in ("debugprint", "write", "writenl", "writeln", "error", "call", "call_nc", "try_call", "call_in_scope") and ar > 3:
            n = max(2, per // 4)
        for k in range(n):
            args = g_call(ctx.rng, name, ar, modes)
            variant = 0 if ctx.rng.random() < 0.72 else ctx.rng.choice([1, 2, 3, 4, 5, 6])
            items.append({"src": program_for(call_text(name, args), variant), "record": True, "timeout": 6})
            metas.append((sig, name, args, variant))
    ctx.log("malformed stream: %d programs over %d builtins" % (len(items), len(sigs)))
    results = pl.pmap(run_program, items, chunksize=8)
    ctx.log("malformed stream evaluated")
    seen_classes = {}
    for (sig, name, args, variant), r in zip(metas, results):
        out = r["out"]
        key = out[1] if out[0] == "err" else "ok"
        ctx.count("malformed:" + key)
        ctx.case(("mal", sig, tuple(args), variant), nontrivial=True,
                 sample={"call": call_text(name, args), "outcome": key} if ctx.rng.random() < 0.002 else None)
        if r["info"] is not None:
            klass = violation_class(r["info"])
            seen_classes.setdefault(klass, []).append((sig, name, args, variant, r["info"]))
    for klass in seen_classes:
        seen_classes[klass].sort(key=lambda x: (len(call_text(x[1], x[2])), x[0]))
    ctx.log("shrinking %d classes" % len(seen_classes))
    small = shrink_calls({k: (v[0][1], v[0][2], v[0][3]) for k, v in seen_classes.items()})
    for klass in sorted(seen_classes):
        lst = seen_classes[klass]
        info = lst[0][4]
        name, sargs, svariant = small[klass]
        src = program_for(call_text(name, sargs), svariant)
        ctx.violation("%s raised instead of a ProbLogError on `%s` (%d programs of this class; builtins: %s): %s"
                      % (info[0], call_text(name, sargs), len(lst), ",".join(sorted(set(x[0] for x in lst))[:8]), info[3]),
                      {"program": src, "class": klass, "exception": info[0], "frame": info[1], "builtin_frame": info[2]},
                      klass=klass)
    return results, metas


TOKENS = ["(", ")", ",", ".", ":-", "::", ";", "\\+", "[", "]", "|", "0.5", "1", "-", "+", "X", "Y", "_", "a", "f(", "query(",
          "evidence(", "0.3::", "is", "=", "'", '"', "1.5::", "<-", ":", "{", "}", "%", "/*", "*/", "\n", " ", "=..", "\\", "0'", "1e", "..",
          "-1::", "2::", "a::", "query", "P::", "not", "true", "fail", "findall(", "between(1,3,", "call("]


def mutate(rng, src):
    import re
    toks = re.findall(r"[A-Za-z_][A-Za-z0-9_]*|\d+\.\d+|\d+|:-|::|=\.\.|\\\+|\\==|\\=|==|=<|>=|<-|'[^'\n]*'|\"[^\"\n]*\"|%[^\n]*|\s+|.", src)
    if not toks:
        return src
    for _ in range(rng.choice([1, 1, 1, 2, 3])):
        i = rng.randrange(len(toks))
        k = rng.random()
        if k < 0.3:
            del toks[i]
            if not toks:
                toks = ["a"]
        elif k < 0.45:
            toks.insert(i, toks[i])
        elif k < 0.6:
            j = rng.randrange(len(toks))
            toks[i], toks[j] = toks[j], toks[i]
        elif k < 0.85:
            toks[i] = rng.choice(TOKENS)
        else:
            toks.insert(i, rng.choice(TOKENS))
    return "".join(toks)


GEN_PROGRAMS = [
    "0.1::f0. d3 :- f0, d3. d3 :- \\+f0, f0. query(d3).",
    "0.3::a. 0.4::b. c :- a, \\+b. c :- b. query(c). evidence(a).",
    "0.5::e(1,2). 0.5::e(2,3). 0.5::e(3,1). p(X,Y) :- e(X,Y). p(X,Y) :- e(X,Z), p(Z,Y). query(p(1,_)).",
    "0.2::a; 0.3::b; 0.5::c :- d. 0.6::d. query(a). query(b). evidence(c, false).",
    "0.4::h(X) :- between(1,3,X). s(N) :- findall(X, h(X), L), length(L, N). query(s(_)).",
    "P::f(P) :- member(P, [0.1, 0.2]). :- use_module(library(lists)). query(f(_)).",
    "t(0.5)::a. b :- a. query(b).",
    "0.5::a. b :- \\+ c. c :- \\+ b. query(b).",
    "a :- X is 1 + 2, X > 2. query(a).",
    "0.7::w(1). 0.2::w(2). m(X) :- w(X), \\+ (w(Y), Y > X). query(m(_)).",
]


def mutation_stream(ctx):
    nmut_gen = ctx.n(30, 450)
    nmut_file = ctx.n(3, 30)
    items, metas = [], []
    for k, p in enumerate(GEN_PROGRAMS):
        items.append({"src": p, "record": False, "timeout": 4})
        metas.append(("gen%d" % k, "orig"))
        for j in range(nmut_gen):
            items.append({"src": mutate(ctx.rng, p), "record": False, "timeout": 4})
            metas.append(("gen%d" % k, "mut"))
    files = sorted(glob.glob(os.path.join(vf.REPO, "test", "*.pl")))
    for fn in files:
        try:
            with open(fn) as f:
                text = f.read()
        except OSError:
            continue
        if len(text) > 6000:
            continue
        for j in range(nmut_file):
            items.append({"src": mutate(ctx.rng, text), "record": False, "timeout": 4})
            metas.append((os.path.basename(fn), "mut"))
    ctx.log("mutation stream: %d programs (%d test files)" % (len(items), len(files)))
    cwd = os.getcwd()
    try:
        os.chdir(os.path.join(vf.REPO, "test"))
        results = pl.pmap(run_program, items, chunksize=8)
    finally:
        os.chdir(cwd)
    seen = {}
    for (origin, kind), it, r in zip(metas, items, results):
        out = r["out"]
        key = out[1] if out[0] == "err" else "ok"
        ctx.count("mutation:" + key)
        ctx.case(("mut", it["src"]), nontrivial=(kind == "mut"), sample=None)
        if r["info"] is not None:
            seen.setdefault(violation_class(r["info"]), []).append((origin, it["src"], r["info"]))
    for klass in sorted(seen):
        lst = sorted(seen[klass], key=lambda x: (len(x[1]), x[1]))
        origin, src, info = lst[0]
        small = shrink_text(src, klass)
        ctx.violation("%s raised instead of a ProbLogError on a mutated program (%d programs of this class, e.g. from %s): %s"
                      % (info[0], len(lst), origin, info[3]),
                      {"program": small, "class": klass, "exception": info[0], "frame": info[1], "builtin_frame": info[2]},
                      klass=klass)


def shrink_text(src, klass, budget=120):
    """ddmin over lines, then over statements split at '.', keeping the same class."""
    def bad(s):
        r = run_program({"src": s, "record": False, "timeout": 4})
        return r["info"] is not None and violation_class(r["info"]) == klass
    tries = [0]

    def reduce(parts, sep):
        i = 0
        while i < len(parts) and tries[0] < budget:
            cand = parts[:i] + parts[i + 1:]
            tries[0] += 1
            if cand and bad(sep.join(cand)):
                parts = cand
            else:
                i += 1
        return parts
    cwd = os.getcwd()
    try:
        os.chdir(os.path.join(vf.REPO, "test"))
        lines = reduce(src.split("\n"), "\n")
        src2 = "\n".join(lines)
        if len(src2) < 1500:
            parts = reduce(src2.split(". "), ". ")
            src2 = ". ".join(parts)
    finally:
        os.chdir(cwd)
    return src2


# ------------------------------------------------------------------------------------------------ tie (b), (c): replay through Coq
def replay_modes(ctx, table, results):
    sites = {(s["func"], s["line"]): s for s in table["sites"]}
    cases, metas = [], []
    reached = set()
    seen = set()
    nskip = 0
    for r in results:
        nskip += r["rec"]["skipped"]
        for (func, line, accepted, args, out) in r["rec"]["modes"]:
            s = sites.get((func, line))
            if s is None or s["modes"] != accepted or len(s["argidx"]) != len(args):
                ctx.broken.append("correspondence:dynamic check_mode call %s:%d %r is not a translated site" % (func, line, accepted))
                continue
            reached.add((func, line))
            key = json.dumps([accepted, args, out], sort_keys=True)
            if key in seen:
                continue
            seen.add(key)
            try:
                a = vf.coq_list([coq_term(x) for x in args])
            except _Skip:
                nskip += 1
                continue
            if out == "CME":
                want = "CallModeError"
            elif isinstance(out, int):
                want = "(Accept %d)" % out
            else:
                want = "ModeStuck"
            cases.append("mres_eqb (check_mode %s %s) %s" % (a, vf.coq_list([vf.coq_string(m) for m in accepted]), want))
            metas.append((func, line, accepted, args, out))
            ctx.count("check_mode:" + ("CallModeError" if out == "CME" else "Accept" if isinstance(out, int) else str(out)))
    ctx.cov["check_mode_sites_translated"] = len(sites)
    ctx.cov["check_mode_sites_reached"] = len(reached)
    ctx.cov["check_mode_sites_unreached"] = sorted("%s:%d" % k for k in set(sites) - reached)
    ctx.cov["check_mode_dynamic_calls_replayed"] = len(cases)
    ctx.cov["records_skipped_unencodable"] = nskip
    if not cases:
        ctx.broken.append("correspondence:no dynamic check_mode call was observed")
    return cases, metas


def coq_outcome(out):
    if out[0] == "B":
        return "(OBool %s)" % vf.coq_bool(out[1])
    if out[0] == "R":
        return "(ORes %s)" % vf.coq_list([vf.coq_list([coq_term(x) for x in tup]) for tup in out[1]])
    if out[0] == "E":
        e = out[1]
        if e == "CallModeError":
            return "OCallModeError"
        if e in ("ArithmeticError", "InstantiationError"):
            return "OArithError"
        if e == "UnifyError":
            return "OUnifyError"
        if len(out) > 2 and out[2]:
            return "OOtherPLError"
        return "(OStuck %s)" % vf.coq_string(e)
    raise _Skip()


def replay_calls(ctx, results):
    cases, metas = [], []
    seen = set()
    for r in results:
        for (pyname, args, out) in r["rec"]["calls"]:
            key = json.dumps([pyname, args, out], sort_keys=True)
            if key in seen:
                continue
            seen.add(key)
            try:
                a = vf.coq_list([coq_term(x) for x in args])
                o = coq_outcome(out)
            except _Skip:
                continue
            body = MODELLED[pyname]
            if body == "body_cmp":
                body = "body_cmp %s" % vf.coq_string(pyname)
            cases.append("outcome_agrees (%s %s) %s" % (body, a, o))
            metas.append((pyname, args, out))
            ctx.count("modelled_call:" + pyname)
            ctx.count("modelled_outcome:" + (out[1] if out[0] == "E" else "returns"))
    ctx.cov["modelled_builtin_calls_replayed"] = len(cases)
    return cases, metas


def replay_all(ctx, table, results):
    mc, mm = replay_modes(ctx, table, results)
    bc, bm = replay_calls(ctx, results)
    cap = ctx.n(2500, 6000)        # vm_compute replay budget per kind (deterministic subsample beyond it)
    if len(mc) > cap:
        keep = sorted(ctx.rng.sample(range(len(mc)), cap))
        mc, mm = [mc[i] for i in keep], [mm[i] for i in keep]
    if len(bc) > cap:
        keep = sorted(ctx.rng.sample(range(len(bc)), cap))
        bc, bm = [bc[i] for i in keep], [bm[i] for i in keep]
    ctx.cov["replayed_through_coq"] = {"check_mode": len(mc), "builtin_calls": len(bc)}
    cases = mc + bc
    if not cases:
        return
    try:
        bad = ctx.coq_failing(HEADER, cases, name="replay", shard=500)
    except RuntimeError as e:
        ctx.broken.append("correspondence:Coq models do not evaluate on the recorded calls")
        ctx.notes.append(str(e))
        return
    bad_m = [i for i in bad if i < len(mc)]
    bad_b = [i - len(mc) for i in bad if i >= len(mc)]
    ctx.cov["check_mode_model_vs_impl_agree"] = len(mc) - len(bad_m)
    ctx.cov["modelled_builtin_model_vs_impl_agree"] = len(bc) - len(bad_b)
    for i in bad_m[:5]:
        ctx.broken.append("correspondence:check_mode model vs implementation on %r" % (mm[i],))
    for i in bad_b[:6]:
        ctx.broken.append("correspondence:builtin model vs implementation on %r" % (bm[i],))


# ------------------------------------------------------------------------------------------------ corpus
def corpus_replay(ctx):
    """Minimal witnesses of past findings, replayed first (with recorders, so the modelled ones are also compared with Coq)."""
    path = os.path.join(vf.CORPUS, "C27", "witnesses.json")
    try:
        with open(path) as f:
            ws = json.load(f)["witnesses"]
    except OSError:
        return []
    items = [{"src": w["program"], "record": True, "timeout": 10} for w in ws]
    results = pl.pmap(run_program, items, chunksize=2)
    still = 0
    for w, r in zip(ws, results):
        ctx.case(("corpus", w["program"]), True)
        ctx.count("corpus:" + (r["out"][1] if r["out"][0] == "err" else "ok"))
        if r["info"] is not None:
            still += 1
            klass = violation_class(r["info"])
            ctx.violation("%s raised instead of a ProbLogError on `%s`: %s" % (r["info"][0], w["program"], r["info"][3]),
                          {"program": w["program"], "class": klass, "exception": r["info"][0], "frame": r["info"][1],
                           "builtin_frame": r["info"][2]}, klass=klass)
    ctx.cov["corpus_witnesses"] = len(ws)
    ctx.cov["corpus_witnesses_still_crashing"] = still
    return results


# ------------------------------------------------------------------------------------------------ main
def run(ctx):
    ctx.cov["rule"] = ("malformed stream: for every builtin registered in the live DefaultEngine, N calls whose arguments are drawn from "
                       "shape classes (unbound/shared/anonymous variable, atoms incl. inf/nan/'<', ints incl. negative and 20-digit, floats, "
                       "strings, compounds incl. -(N), arithmetic expressions, goals, proper/partial/improper lists, nesting <= 3), 60% steered "
                       "by a declared mode string of the builtin, embedded in 7 program contexts; mutation stream: token-level delete/duplicate/"
                       "swap/replace/insert on 10 seed programs and every /repo/test/*.pl; every program runs parse+ground+compile+evaluate. "
                       "A case is non-trivial when it is a generated call or a mutated text; distinct = distinct program texts")
    ctx.assumptions += [
        "SEARCH, not proof: absence of internal exceptions outside the modelled builtins is only sampled",
        "hand models of builtin bodies are tied to the code by replaying every observed call and by the generated primitive inventory",
        "unify_value is treated as total (C14); struct_cmp/sorted as total on call-time terms (C15)",
        "Python None/int/Term/Constant/Object are the only argument kinds a builtin receives",
    ]
    if ctx.replay:
        rp = ctx.replay.get("replay", ctx.replay)
        r = run_program({"src": rp["program"], "record": False, "timeout": 20})
        ctx.case(("replay", rp["program"]), True, sample={"program": rp["program"], "outcome": r["out"]})
        if r["info"] is not None:
            ctx.violation("%s raised instead of a ProbLogError: %s" % (r["info"][0], r["info"][3]),
                          {"program": rp["program"], "class": violation_class(r["info"])}, klass=violation_class(r["info"]))
        return
    table = generate(ctx)
    ctx.cov["translator"] = {"check_mode_sites": len(table["sites"]), "check_mode_tokens": table["n_check_mode_tokens"],
                             "registrations": len(table["registrations"]), "mode_letters": "".join(table["mode_letters"])}
    ctx.prove("C27/Props.v")
    live = compare_registrations(ctx, table)
    corpus_results = corpus_replay(ctx)
    results, metas = malformed_stream(ctx, table, live)
    results = corpus_results + results
    ctx.log("replaying recorded check_mode / modelled builtin calls through the Coq models")
    replay_all(ctx, table, results)
    mutation_stream(ctx)
    if ctx.tier == "thorough":
        ctx.coqchk("PL.C27.Props")
    # Findings.v is outside the cone of Props.v: if it stops compiling the defect is gone (recorded, never a violation)
    if os.path.exists(os.path.join(vf.THEORIES, "C27", "Findings.v")):
        with vf.BuildLock():
            rc, out = vf.sh(["coqc"] + vf.COQFLAGS + ["-w", "none", "theories/C27/Findings.v"], cwd=vf.COQ, timeout=600)
        ctx.cov["findings_v_compiles"] = (rc == 0)
        if rc:
            ctx.notes.append("Findings.v no longer compiles (a refuted witness no longer reproduces): " + out[-600:])
