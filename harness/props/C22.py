"""C22 — sampling draws from the program's distribution (problog/tasks/sample.py)."""
import contextlib
import io
import itertools
import math
import random as _random
from fractions import Fraction

import pl
import vf

META = {
    "id": "C22",
    "level": "proof",
    "technique": "Coq theorems about a hand model of SampledFormula.add_atom (script semantics + finite-distribution "
                 "semantics of one `decide` function) + deterministic differential correspondence with the real sampler "
                 "under a scripted random.random + Hoeffding-bounded frequency test (support only)",
    "design_ref": "DESIGN.md §5 C22",
    "text": "Theorems (no bound on heads/facts/strategy): sequential AD sampling is categorical for every encounter order, "
            "facts are independent and drawn once, printed probability = probability of the sample for every adaptive "
            "encounter strategy, rejection = conditioning. Tie: real sample() with random.random replaced by a scripted "
            "sequence; every add_atom call (result, draws consumed, self.probability, self.groups) must equal the model's."
            " C22_printed_probability now holds without side condition: well-formed tables make every reachable sampler state `ok` (remaining-mass invariant)."
            " Convergence: WEAK law of large numbers proved for the model over Q, no axioms (ModelLLN.v/ProofsLLN.v): n independent samples = "
            "n-fold product `prodn` of the one-sample distribution (total mass 1, coordinate-wise events multiply); E[frequency] = P(q), "
            "Var = P(q)(1-P(q))/n; Chebyshev P(|frequency - P(q)| >= eps) <= P(q)(1-P(q))/(n eps^2) <= 1/(4 n eps^2) (C22_chebyshev); for every "
            "delta > 0 an explicit N = floor(1/(4 eps^2 delta)) + 1 with deviation probability < delta for all n >= N (C22_weak_lln, "
            "C22_weak_lln_explicit_N); instantiated with the accepted-sample distribution `cond d e` of the rejection loop for every adaptive "
            "strategy: the estimate of q from n accepted samples deviates from P(q|e) by >= eps with probability <= 1/(4 n eps^2) "
            "(C22_estimate_converges, C22_estimate_converges_delta; bounded number of attempts per sample: C22_bounded_attempts_product). "
            "Tie: a scripted run of the real estimate() must return exactly freq (model) of the accepted samples' query values.",
    "note": "PARTIAL: 'frequencies converge as the number of samples grows' is proved as a WEAK law (convergence in probability, with the "
            "explicit Chebyshev rate) for the MODEL: i.i.d. repetition of the one-sample distribution. Independence of the real sampler's "
            "attempts (fresh SampledFormula per attempt - checked by the tie: every attempt replays from `init` - and independent PRNG draws) "
            "is the modelling assumption. ALMOST-SURE convergence (strong law; needs a measure on infinite sequences) is NOT formalised, "
            "nor is the exponential Hoeffding bound 2 exp(-2 n eps^2) that the frequency TEST uses (fixed seed, false-alarm probability "
            "< 1e-9 per run, labelled as a test); the proved bound a test may use is C22_test_bound: false alarm <= delta whenever "
            "1 <= 4 n eps^2 delta. "
            "Continuous distributions (sample_value) and the engine's choice of which atoms to ask are out of the model: the "
            "encounter order is taken from the observed run and the theorems quantify over all orders/strategies. "
            "Trusted: Lebesgue measure of an interval = its length; CPython float arithmetic within 1e-9 of Q.",
}

HEADER = """From Coq Require Import QArith NArith List Bool.
From PL.C22 Require Import ModelSampler ModelLLN.
Import ListNotations.
Open Scope Q_scope.
"""

DYADIC = ["0.125", "0.25", "0.375", "0.5", "0.75"]
DECIMAL = ["0.1", "0.2", "0.3", "0.4", "0.6", "0.7", "0.05", "0.15", "0.35", "0.9"]


# ------------------------------------------------------------------ programs
def gen_program(rng, dyadic=False, with_evidence=True):
    pool = DYADIC if dyadic else DECIMAL
    nf = rng.randint(1, 4)
    facts = [("f%d" % i, rng.choice(pool)) for i in range(nf)]
    known = [f for f, _ in facts]
    items = []
    nitems = rng.randint(2, 5)
    nad = 0
    nd = 0
    for _ in range(nitems):
        def body(maxlen):
            n = rng.randint(0, maxlen)
            atoms = rng.sample(known, min(n, len(known)))
            return [(a, rng.random() < 0.7) for a in atoms]
        if rng.random() < 0.5 and nad < 3:
            k = rng.randint(1, 4)
            while True:
                ps = [rng.choice(pool) for _ in range(k)]
                tot = sum(Fraction(p) for p in ps)
                if tot <= 1:
                    break
            if rng.random() < 0.35 and tot < 1 and k < 4:
                rest = 1 - tot
                txt = str(float(rest))
                if Fraction(txt) == rest:
                    ps.append(txt)
            heads = [("a%d_%d" % (nad, j), p) for j, p in enumerate(ps)]
            order = list(range(len(heads)))
            rng.shuffle(order)            # textual order of the heads inside the AD
            items.append({"kind": "ad", "heads": heads, "text_order": order, "body": body(2)})
            known += [h for h, _ in heads]
            nad += 1
        else:
            nb = rng.randint(1, 2)
            bodies = []
            for _ in range(nb):
                b = body(3)
                if not b:
                    b = [(rng.choice(known), rng.random() < 0.7)]
                bodies.append(b)
            items.append({"kind": "rule", "head": "d%d" % nd, "bodies": bodies})
            known.append("d%d" % nd)
            nd += 1
    nq = rng.randint(1, 4)
    queries = rng.sample(known, min(nq, len(known)))
    evidence = []
    if with_evidence and rng.random() < 0.75:
        for a in rng.sample(known, min(rng.randint(1, 2), len(known))):
            evidence.append((a, rng.random() < 0.6))
    prog = {"facts": facts, "items": items, "queries": queries, "evidence": evidence, "dyadic": dyadic}
    lines = ["%s::%s." % (p, f) for f, p in facts]
    for it in items:
        if it["kind"] == "ad":
            hs = "; ".join("%s::%s" % (it["heads"][j][1], it["heads"][j][0]) for j in it["text_order"])
            lines.append(hs + (" :- " + lits(it["body"]) if it["body"] else "") + ".")
        else:
            for b in it["bodies"]:
                lines.append("%s :- %s." % (it["head"], lits(b)))
    rng.shuffle(lines)                    # clause order changes the engine's encounter order
    ql = ["query(%s)." % q for q in queries]
    rng.shuffle(ql)
    el = ["evidence(%s)." % (a if v else "\\+" + a) for a, v in evidence]
    prog["text"] = "\n".join(lines + el + ql) + "\n"
    return prog


def gen_exhaustive_ad(split, order, with_rules=False):
    """One AD with decimal probabilities i/100 that sum to exactly 1; `order` = order in which the heads are met
    (query order).  Every head can be the last one encountered."""
    heads = [("a0_%d" % j, "%.2f" % (Fraction(i, 100))) for j, i in enumerate(split)]
    assert sum(Fraction(p) for _, p in heads) == 1
    items = [{"kind": "ad", "heads": heads, "text_order": list(range(len(heads))), "body": []}]
    lines = ["; ".join("%s::%s" % (p, h) for h, p in heads) + "."]
    queries = [heads[j][0] for j in order]
    if with_rules:
        for n, j in enumerate(order):
            items.append({"kind": "rule", "head": "d%d" % n, "bodies": [[(heads[j][0], True)]]})
            lines.append("d%d :- %s." % (n, heads[j][0]))
        queries = ["d%d" % n for n in range(len(order))]
    prog = {"facts": [], "items": items, "queries": queries, "evidence": [], "dyadic": False, "exhaustive": True}
    prog["text"] = "\n".join(lines + ["query(%s)." % q for q in queries]) + "\n"
    return prog


def exhaustive_family(ctx):
    """All 99 two-head splits i/100 in both encounter orders, plus random three-head splits with every head last."""
    out = []
    for i in range(1, 100):
        for order in ([0, 1], [1, 0]):
            out.append(gen_exhaustive_ad([i, 100 - i], order, with_rules=(i % 7 == 0)))
    for _ in range(ctx.n(40, 400)):
        i = ctx.rng.randint(1, 97)
        j = ctx.rng.randint(1, 98 - i)
        order = [0, 1, 2]
        ctx.rng.shuffle(order)
        out.append(gen_exhaustive_ad([i, j, 100 - i - j], order, with_rules=ctx.rng.random() < 0.3))
    return out


HIGH = Fraction((1 << 24) - 1, 1 << 24)     # a draw above every threshold p/r < 1 - 6e-8: all earlier heads come out false


def lits(b):
    return ", ".join(a if pos else "\\+" + a for a, pos in b)


# ------------------------------------------------------------------ reference semantics (harness, Fractions)
def all_worlds(prog):
    """Yields (fact values dict, AD choices list (index or None), weight)."""
    facts = prog["facts"]
    ads = [it for it in prog["items"] if it["kind"] == "ad"]
    for fv in itertools.product([True, False], repeat=len(facts)):
        w0 = Fraction(1)
        for (f, p), v in zip(facts, fv):
            w0 *= Fraction(p) if v else 1 - Fraction(p)
        ranges = [list(range(len(a["heads"]))) + [None] for a in ads]
        for ch in itertools.product(*ranges):
            w = w0
            for a, c in zip(ads, ch):
                if c is None:
                    w *= 1 - sum(Fraction(p) for _, p in a["heads"])
                else:
                    w *= Fraction(a["heads"][c][1])
            yield dict(zip([f for f, _ in facts], fv)), list(ch), w


def eval_world(prog, fv, ch):
    val = dict(fv)
    k = 0
    for it in prog["items"]:
        if it["kind"] == "ad":
            b = all(val[a] == pos for a, pos in it["body"])
            for j, (h, _) in enumerate(it["heads"]):
                val[h] = b and ch[k] == j
            k += 1
        else:
            val[it["head"]] = any(all(val[a] == pos for a, pos in b) for b in it["bodies"])
    return val


def world_table(prog):
    return [(fv, ch, w, eval_world(prog, fv, ch)) for fv, ch, w in all_worlds(prog)]


def exact_conditional(prog, table=None):
    table = table or world_table(prog)
    pe = Fraction(0)
    pq = {q: Fraction(0) for q in prog["queries"]}
    for fv, ch, w, val in table:
        if all(val[a] == v for a, v in prog["evidence"]):
            pe += w
            for q in pq:
                if val[q]:
                    pq[q] += w
    return pe, ({q: pq[q] / pe for q in pq} if pe > 0 else None)


# ------------------------------------------------------------------ scripted sampler
class ScriptEnd(Exception):
    pass


class ScriptedRandom(object):
    """Stands in for the `random` module inside problog.tasks.sample: random() comes from the
    script; any other generator call is an error (none is expected in the modelled fragment)."""

    def __init__(self, us):
        self.us = list(us)
        self.pos = 0
        self.other = []

    def random(self):
        if self.pos >= len(self.us):
            raise ScriptEnd()
        u = self.us[self.pos]
        self.pos += 1
        return float(u)

    def __getattr__(self, name):
        real = getattr(_random, name)
        if not callable(real):
            return real

        def guard(*a, **k):
            self.other.append(name)
            raise RuntimeError("unscripted RNG call random.%s" % name)
        return guard


def scripted_attempts(src, us, n=2, propagate=False, with_facts=True):
    """Runs the real sample() with random.random scripted. Returns (attempts, error):
    attempt = {calls:[(ident, pstr, group, name, result, ndraws, prob_after, groups_after)], accepted, queries, inst}"""
    from problog.tasks import sample as S
    from problog.program import PrologString
    attempts = []
    rnd = ScriptedRandom(us)

    Base = S.SampledFormula

    class Logged(Base):
        def __init__(self, **kw):
            Base.__init__(self, **kw)
            self._att = {"calls": [], "accepted": None, "inst": self, "start": rnd.pos}
            attempts.append(self._att)

        def add_atom(self, identifier, probability, group=None, name=None, source=None, cr_extra=True, is_extra=False):
            before = rnd.pos
            r = Base.add_atom(self, identifier, probability, group, name, source, cr_extra, is_extra)
            self._att["calls"].append((identifier, None if probability is None else str(probability), group,
                                       name, r, rnd.pos - before, self.probability, dict(self.groups)))
            return r

    saved = (S.random, S.SampledFormula)
    S.random, S.SampledFormula = rnd, Logged
    err = None
    try:
        gen = S.sample(PrologString(src), n=n, format="str", propagate_evidence=propagate,
                       with_facts=with_facts, with_probability=True)
        for text in gen:
            att = attempts[-1]
            att["accepted"] = True
            att["text"] = text
            att["printed"] = att["inst"].probability
            att["queries"] = {str(k): (v is not None) for k, v in att["inst"].queries()}
    except ScriptEnd:
        if attempts and attempts[-1]["accepted"] is None:
            attempts.pop()              # the attempt that ran out of script is not an observation
    except Exception as e:  # noqa
        err = e
    finally:
        S.random, S.SampledFormula = saved
    for att in attempts:
        if att["accepted"] is None:
            att["accepted"] = False
            att["queries"] = {str(k): (v is not None) for k, v in att["inst"].queries()}
            att["prob_before"] = att["inst"].probability
            att["inst"].compute_probability()       # our own logged instance, after the run
            att["printed"] = att["inst"].probability
        else:
            att["prob_before"] = att["calls"][-1][6] if att["calls"] else 1.0
        att["draws"] = None
    # the draws each attempt consumed
    pos = 0
    for att in attempts:
        k = sum(c[5] for c in att["calls"])
        att["draws"] = us[att["start"]:att["start"] + k]
    return attempts, err, rnd.other


def scripted_estimate(src, us, n=3):
    """Runs the real estimate() with random.random scripted.  Returns (estimates, samples, error): samples = per accepted
    attempt (in order) the dict query -> bool read from that attempt's own SampledFormula; None when the script ran out."""
    from problog.tasks import sample as S
    from problog.program import PrologString
    rnd = ScriptedRandom(us)
    Base = S.SampledFormula
    insts = []

    class Logged(Base):
        def __init__(self, **kw):
            Base.__init__(self, **kw)
            self._accepted = None
            insts.append(self)

    orig_verify = S.verify_evidence

    def verify(engine, db, ev_target, target):
        r = orig_verify(engine, db, ev_target, target)
        target._accepted = bool(r)
        return r

    saved = (S.random, S.SampledFormula, S.verify_evidence)
    S.random, S.SampledFormula, S.verify_evidence = rnd, Logged, verify
    est, err = None, None
    try:
        with contextlib.redirect_stdout(io.StringIO()):
            est = S.estimate(PrologString(src), n=n)
    except ScriptEnd:
        return None, None, None, rnd.other
    except Exception as e:  # noqa
        err = e
    finally:
        S.random, S.SampledFormula, S.verify_evidence = saved
    samples = [{str(k): (v == 0) for k, v in i.queries()} for i in insts if i._accepted]
    return (None if est is None else {str(k): v for k, v in est.items()}), samples, err, rnd.other


def run_estimate_tie(ctx, jobs, cases, metas):
    """estimate() = empirical frequency (ModelLLN.freq) of the query among the accepted samples."""
    for prog, us in jobs:
        n = 3
        try:
            est, samples, err, other = pl.with_timeout(scripted_estimate, 60, prog["text"], us, n)
        except BaseException as e:  # noqa
            if isinstance(e, (KeyboardInterrupt, SystemExit)):
                raise
            est, samples, err, other = None, None, e, []
        if other:
            ctx.broken.append("correspondence:sample.py estimate() used random.%s (not modelled) on %r" % (other[0], prog["text"]))
        if err is not None:
            ctx.violation("estimate() raised %r" % (err,), {"program": prog["text"], "script": [str(u) for u in us],
                                                            "mode": "estimate"}, klass=None)
            continue
        if est is None:
            ctx.count("estimate_script_exhausted")
            continue
        ctx.count("estimate_runs")
        if len(samples) != n:
            ctx.violation("estimate(n=%d) used %d accepted samples on %r" % (n, len(samples), prog["text"]),
                          {"program": prog["text"], "script": [str(u) for u in us], "mode": "estimate"}, klass=None)
            continue
        for q in prog["queries"]:
            vals = [bool(smp.get(q, False)) for smp in samples]
            obs = est.get(q, 0.0)
            ctx.case(("estimate", prog["text"], tuple(str(u) for u in us), q), 0 < sum(vals) < n, sample=None)
            if abs(Fraction(sum(vals), n) - Fraction(obs)) > Fraction(1, 10 ** 12):
                ctx.violation("estimate() returns %r for %s, the frequency among its %d accepted samples is %d/%d: %r"
                              % (obs, q, n, sum(vals), n, prog["text"]),
                              {"program": prog["text"], "script": [str(u) for u in us], "mode": "estimate", "query": q},
                              klass=None)
            cases.append("close (freq (fun b : bool => b) %s) %s (1 # 1000000000)"
                         % (vf.coq_list([vf.coq_bool(v) for v in vals]), coq_Q(fq(obs))))
            metas.append(("ModelLLN.freq vs estimate() for %s" % q, prog["text"], [str(u) for u in us]))


def gen_script(rng, prog, length=24):
    us = []
    for _ in range(length):
        if prog["dyadic"] and rng.random() < 0.35:
            us.append(rng.choice([Fraction(0), Fraction(1, 8), Fraction(1, 4), Fraction(3, 8), Fraction(1, 2),
                                  Fraction(3, 4), Fraction(7, 8)]))
        else:
            us.append(Fraction(2 * rng.randrange(1 << 23) + 1, 1 << 24))
    return us


# ------------------------------------------------------------------ Coq encoding
def coq_Q(x):
    x = Fraction(x)
    if x.numerator < 0:
        return "((%d) # %d)" % (x.numerator, x.denominator)
    return "(%d # %d)" % (x.numerator, x.denominator)


def fq(x):
    """float -> rational on a 1e-12 grid (keeps the Coq literals small; tolerance of the comparison is 1e-9)"""
    return Fraction(int(round(float(x) * 10 ** 12)), 10 ** 12)


def encode_attempt(att):
    ids, grps = {}, {}

    def iid(x):
        return ids.setdefault(repr(x), len(ids) + 1)

    def gid(x):
        return grps.setdefault(repr(x), len(grps) + 1)
    calls = []
    for ident, pstr, group, name, r, nd, pa, ga in att["calls"]:
        calls.append("mkCall %s %s %s" % (vf.coq_N(iid(ident)),
                                          vf.coq_option(None if group is None else vf.coq_N(gid(group))),
                                          vf.coq_option(None if pstr is None else coq_Q(Fraction(pstr)))))
    results = [vf.coq_bool(c[4] == 0) for c in att["calls"]]
    groups = att["calls"][-1][7] if att["calls"] else {}
    og = ["(%s, %s)" % (vf.coq_N(gid(g)), vf.coq_option(None if r is None else coq_Q(fq(r))))
          for g, r in groups.items()]
    return "check_run %s %s %s %s %s %s" % (vf.coq_list(calls), vf.coq_list([coq_Q(u) for u in att["draws"]]),
                                           vf.coq_list(results), coq_Q(fq(att["prob_before"])),
                                           coq_Q(fq(att["printed"])), vf.coq_list(og))


# ------------------------------------------------------------------ judge (property-level, independent of the Coq model)
def judge_attempt(prog, table, att):
    """Returns a list of complaint strings (empty = the sample satisfies the property)."""
    out = []
    fact_p = dict(prog["facts"])
    ads = [it for it in prog["items"] if it["kind"] == "ad"]
    head_of = {}
    for k, a in enumerate(ads):
        for j, (h, p) in enumerate(a["heads"]):
            head_of[h] = (k, j, p)
    fmemo, hmemo = {}, {}
    replay = not att.get("forced")          # exact-rational replay of the documented sampling rule
    draws = list(att.get("draws") or [])
    dpos = 0
    seen_ids = set()
    g_rem, g_closed = {}, set()             # exact remaining mass / closed flag per AD (by group repr)
    CUT = Fraction(1, 10 ** 8)
    NEAR = Fraction(1, 10 ** 9)
    for (ident, pstr, group, name, r, nd, pa, ga) in att["calls"]:
        if pstr is None:
            continue
        v = (r == 0)
        if replay:
            first = repr(ident) not in seen_ids
            seen_ids.add(repr(ident))
            u = None
            if nd == 1 and dpos < len(draws):
                u = draws[dpos]
            dpos += nd
            pq = Fraction(pstr)
            if not first:
                if nd:
                    out.append("%s was already sampled but consumed another draw" % name)
            elif group is None:
                if nd != 1:
                    out.append("fact %s was decided without exactly one draw" % name)
                elif u is not None and abs(u - pq) > NEAR and v != (u < pq):
                    out.append("fact %s: draw %s against p=%s gave %s" % (name, float(u), pstr, v))
            else:
                gk = repr(group)
                rem = g_rem.get(gk, Fraction(1))
                if gk in g_closed:
                    if nd or v:
                        out.append("head %s sampled although another head of its AD was already chosen" % name)
                elif nd == 0:
                    # the code may skip the draw only below its documented cut-off (remaining mass < 1e-8)
                    if rem >= 2 * CUT and pq > 0:
                        out.append("head %s (p=%s) was declared %s WITHOUT a draw although the exact remaining mass of its AD is %s "
                                   "(documented cut-off 1e-8)" % (name, pstr, v, float(rem)))
                elif rem > 0 and u is not None:
                    q = pq / rem
                    if abs(u - q) > NEAR and v != (u <= q):
                        out.append("head %s: draw %s against p/r=%s gave %s" % (name, float(u), float(q), v))
                if v:
                    g_closed.add(gk)
                else:
                    g_rem[gk] = rem - pq
        if group is None and str(name) in head_of:      # single-head AD without body = plain fact
            nm = str(name)
            if hmemo.setdefault(nm, v) != v:
                out.append("head %s sampled twice with different values" % nm)
        elif group is None:
            nm = str(name)
            if nm not in fact_p:
                out.append("add_atom on unknown fact %s" % nm)
                continue
            if fmemo.setdefault(nm, v) != v:
                out.append("fact %s sampled twice with different values" % nm)
        else:
            nm = str(name.args[2]) if (getattr(name, 'functor', None) == 'choice' and len(name.args) >= 3) else str(name)
            if nm not in head_of:
                out.append("add_atom on unknown AD head %s" % nm)
                continue
            if hmemo.setdefault(nm, v) != v:
                out.append("head %s sampled twice with different values" % nm)
    chosen = {}
    for h, v in hmemo.items():
        if v:
            k = head_of[h][0]
            if k in chosen:
                out.append("two heads of one AD chosen: %s and %s" % (ads[k]["heads"][chosen[k]][0], h))
            chosen[k] = head_of[h][1]
    # product of the choices made
    prod = Fraction(1)
    forced = att.get("forced", {})
    for f, v in fmemo.items():
        if f in forced:
            continue
        prod *= Fraction(fact_p[f]) if v else 1 - Fraction(fact_p[f])
    for k, a in enumerate(ads):
        touched = [h for h, _ in a["heads"] if h in hmemo]
        if not touched:
            continue
        if k in chosen:
            if a["heads"][chosen[k]][0] not in forced:
                prod *= Fraction(a["heads"][chosen[k]][1])
        else:
            prod *= 1 - sum(Fraction(p) for h, p in a["heads"] if h in hmemo and h not in forced)
    if not forced:
        if att["printed"] <= 0:
            out.append("printed probability %r is not positive" % att["printed"])
        for k, a in enumerate(ads):
            if sum(Fraction(p) for _, p in a["heads"]) == 1 and k not in chosen and \
                    all(h in hmemo for h, _ in a["heads"]):
                out.append("AD %s sums to 1 but every head was sampled false (a world of probability 0)"
                           % "; ".join("%s::%s" % (p, h) for h, p in a["heads"]))
        if prod <= 0:
            out.append("the sampled choices have probability 0 under the program")
    if abs(Fraction(att["printed"]) - prod) > Fraction(1, 10 ** 9):
        out.append("printed probability %r is not the product of the choices made %s" % (att["printed"], float(prod)))
    # completions of the partial world
    cons = []
    for fv, ch, w, val in table:
        if any(fv[f] != v for f, v in fmemo.items()):
            continue
        ok = True
        for k, a in enumerate(ads):
            for j, (h, _) in enumerate(a["heads"]):
                if h in hmemo and (ch[k] == j) != hmemo[h]:
                    ok = False
        if ok:
            cons.append((w, val))
    if not cons:
        out.append("sampled choices are not a partial world of the program")
        return out
    if not forced:
        marg = sum(w for w, _ in cons)
        if abs(marg - prod) > Fraction(1, 10 ** 12):
            out.append("product of choices %s differs from the marginal of the partial world %s" % (prod, marg))
    pos = [c for c in cons if c[0] > 0] or cons
    for q in prog["queries"]:
        vals = set(val[q] for _, val in pos)
        if len(vals) > 1:
            out.append("query %s is not determined by the sampled choices" % q)
        elif att["queries"].get(q, False) != vals.pop():
            out.append("query %s reported %s but the sampled world says otherwise" % (q, att["queries"].get(q, False)))
    evs = []
    for a, v in prog["evidence"]:
        vals = set(val[a] == v for _, val in pos)
        evs.append(vals)
    att["_ev"] = evs
    if att["accepted"]:
        if any(False in vs for vs in evs):
            out.append("accepted sample is not consistent with the evidence")
    else:
        if all(vs == {True} for vs in evs):
            out.append("sample consistent with the evidence was rejected")
    return out


def run_scripted(ctx):
    nprog = ctx.n(80, 2500)
    cases, metas = [], []
    jobs = []
    for k in range(nprog):
        dyadic = ctx.rng.random() < 0.5
        prog = gen_program(ctx.rng, dyadic=dyadic)
        jobs.append((prog, gen_script(ctx.rng, prog), 2))
    # ADs whose decimal probabilities sum to exactly 1, every head last, all earlier heads false: the last head must
    # be chosen (float 1 - p1 - ... may land one ulp off p_k)
    for prog in exhaustive_family(ctx):
        jobs.append((prog, [HIGH] * 8, 1))
        ctx.count("exhaustive_ad_programs")
    for prog, us, nsam in jobs:
        try:
            attempts, err, other = pl.with_timeout(scripted_attempts, 60, prog["text"], us, nsam, False)
        except BaseException as e:  # noqa
            if isinstance(e, (KeyboardInterrupt, SystemExit)):
                raise
            attempts, err, other = [], e, []
        if other:
            ctx.broken.append("correspondence:sample.py used random.%s (not modelled) on %r" % (other[0], prog["text"]))
        if err is not None:
            ctx.violation("sample() raised %r" % (err,), {"program": prog["text"], "script": [str(u) for u in us]},
                          klass=None)
            continue
        table = world_table(prog)
        for att in attempts[:4]:
            nontriv = any(c[5] for c in att["calls"]) and any(c[2] is not None for c in att["calls"])
            key = (prog["text"], tuple(str(u) for u in att["draws"]))
            ctx.case(key, nontriv, sample={"program": prog["text"], "draws": [str(u) for u in att["draws"]],
                                           "accepted": att["accepted"], "printed": att["printed"],
                                           "calls": [(str(c[3]), c[1], c[4] == 0, c[5]) for c in att["calls"]]})
            ctx.count("attempt_accepted" if att["accepted"] else "attempt_rejected")
            ctx.count("draws", len(att["draws"]))
            ctx.count("ad_calls", sum(1 for c in att["calls"] if c[2] is not None))
            ctx.count("memo_hits", sum(1 for c in att["calls"] if c[1] is not None and c[5] == 0))
            ctx.count("boundary_draws", sum(1 for u in att["draws"] if u.denominator <= 8))
            bad = judge_attempt(prog, table, att)
            if bad:
                ctx.violation("sample violates the property: %s; program %r draws %r" % ("; ".join(bad), prog["text"],
                                                                                           [str(u) for u in att["draws"]]),
                              {"program": prog["text"], "draws": [str(u) for u in att["draws"]], "complaints": bad},
                              klass=None)
            cases.append(encode_attempt(att))
            metas.append(("ModelSampler.run vs SampledFormula.add_atom", prog["text"], [str(u) for u in att["draws"]]))
    nattempts = len(cases)
    est_jobs = [(prog, us * 6) for prog, us, nsam in jobs[:ctx.n(30, 400)] if nsam == 2 and prog["queries"]]
    run_estimate_tie(ctx, est_jobs, cases, metas)
    ctx.cov["estimate_tie_cases"] = len(cases) - nattempts
    ctx.log("scripted runs done: %d attempts, %d estimate comparisons" % (nattempts, len(cases) - nattempts))
    try:
        bad = ctx.coq_failing(HEADER, cases, name="sampler", shard=100)
    except RuntimeError as e:
        ctx.broken.append("correspondence:sampler model does not evaluate")
        ctx.notes.append(str(e))
        return
    ctx.cov["scripted_attempts"] = nattempts
    ctx.cov["scripted_model_vs_impl_agree"] = len(cases) - len(bad)
    for i in bad[:5]:
        ctx.broken.append("correspondence:%s on program %r draws %r" % metas[i])


# ------------------------------------------------------------------ cut-off probe (documented deviation, not a violation)
def run_cutoff_probe(ctx):
    src = "0.999999995::a; 0.000000005::b.\nquery(a). query(b).\n"
    us = [Fraction(2 ** 53 - 1, 2 ** 53), Fraction(0)]
    attempts, err, _ = scripted_attempts(src, us, 1, False)
    if err is None and attempts:
        att = attempts[0]
        ctx.cov["cutoff_probe"] = {"program": src, "draws": [str(u) for u in att["draws"]],
                                   "queries": att["queries"], "printed": att["printed"],
                                   "meaning": "remaining mass 5e-9 < 1e-8: head b is never drawn (modelled; theorems guarded; Findings.v)"}
        case = encode_attempt(att)
        try:
            if ctx.coq_failing(HEADER, [case], name="cutoff"):
                ctx.broken.append("correspondence:cut-off branch of add_atom (r < 1e-8) on %r" % src)
        except RuntimeError as e:
            ctx.broken.append("correspondence:cut-off probe does not evaluate")
            ctx.notes.append(str(e))


# ------------------------------------------------------------------ statistical support (a TEST, not a proof)
def stat_worker(item):
    src, n, mode, seed = item
    from problog.tasks import sample as S
    from problog.program import PrologString
    import random
    random.seed(seed)

    def go():
        if mode == "estimate":
            buf = io.StringIO()
            with contextlib.redirect_stdout(buf):
                est = S.estimate(PrologString(src), n=n)
            return {str(k): v for k, v in est.items()}
        cnt = {}
        for d in S.sample(PrologString(src), n=n, format="dict", propagate_evidence=(mode == "propagate")):
            for k, v in d.items():
                if v:
                    cnt[str(k)] = cnt.get(str(k), 0) + 1
        return {k: v / float(n) for k, v in cnt.items()}
    try:
        return ("ok", pl.with_timeout(go, 600))
    except BaseException as e:  # noqa
        if isinstance(e, (KeyboardInterrupt, SystemExit)):
            raise
        return ("err", pl.err_class(e))


def propagation_features(src):
    """What init_db(propagate_evidence=True) fixes in advance (read through the real API)."""
    from problog.tasks import sample as S
    from problog.program import PrologString
    eng = S.init_engine()
    db, evf, evt = S.init_db(eng, PrologString(src), True)
    false_heads = [f for f in evf if len(f) > 2 and f[2] is not None and f[1] == 0.0]
    inner = [f for f in evf if len(f) == 2 and isinstance(f[0], tuple)]
    return {"false_ad_heads": len(false_heads), "inner_nodes": len(inner), "forced": len(evf)}


def negated_conjunction_evidence(prog):
    """some atom whose definition is a conjunction (rule body of >= 2 literals, or an AD head with a body =
    choice AND body) occurs negated in the evidence or in a body: verify_evidence never assigns a weight to the
    negation of a conjunction node"""
    conj = set()
    for it in prog["items"]:
        if it["kind"] == "rule" and any(len(b) >= 2 for b in it["bodies"]):
            conj.add(it["head"])
        if it["kind"] == "ad" and it["body"]:
            conj.update(h for h, _ in it["heads"])
    neg = set(a for a, v in prog["evidence"] if not v)
    for it in prog["items"]:
        for b in ([it["body"]] if it["kind"] == "ad" else it["bodies"]):
            neg.update(a for a, pos in b if not pos)
    return bool(conj & neg)


def probe_propagate(ctx, prog):
    """Scripted, finite probes of sample(propagate_evidence=True). Returns True when the statistical run is safe
    (terminates)."""
    us = [Fraction(2 * ctx.rng.randrange(1 << 23) + 1, 1 << 24) for _ in range(300)]
    try:
        feat = propagation_features(prog["text"])
    except Exception as e:  # noqa
        ctx.violation("init_db(propagate_evidence=True) raised %r on %r" % (e, prog["text"]),
                      {"program": prog["text"], "mode": "propagate"}, klass=None)
        return False
    ctx.count("propagate_probe")
    for wf in (True, False):
        try:
            attempts, err, _ = pl.with_timeout(scripted_attempts, 120, prog["text"], us, 4, True, wf)
        except BaseException as e:  # noqa
            if isinstance(e, (KeyboardInterrupt, SystemExit)):
                raise
            attempts, err = [], e
        if err is None:
            break
        klass = None
        if wf and isinstance(err, ValueError) and "unpack" in str(err) and feat["inner_nodes"]:
            klass = "propagate-evidence-inner-node-as-fact-crashes-with-facts"
        ctx.violation("sample(propagate_evidence=True, with_facts=%s) raised %r on %r" % (wf, err, prog["text"]),
                      {"program": prog["text"], "mode": "propagate", "with_facts": wf}, klass=klass)
        if klass is None:
            return False
    if err is not None:
        return False
    table = world_table(prog)
    acc = [a for a in attempts if a["accepted"]]
    if len(attempts) >= 8 and not acc:
        wrong = 0
        for a in attempts:
            a["forced"] = {"*": 1}
            wrong += any("was rejected" in c for c in judge_attempt(prog, table, a))
        if wrong:
            ctx.violation("sample(propagate_evidence=True) rejects every sample although %d of %d were consistent with the "
                          "evidence (never terminates): %r" % (wrong, len(attempts), prog["text"]),
                          {"program": prog["text"], "mode": "propagate", "attempts": len(attempts)},
                          klass="propagate-evidence-negated-conjunction-always-rejected"
                          if negated_conjunction_evidence(prog) else None)
        return False
    # accepted although the evidence is not determined by what was sampled (never definitely false)?
    undet = 0
    for a in acc:
        a["forced"] = {"*": 1}
        judge_attempt(prog, table, a)
        evs = a.get("_ev", [])
        if evs and any(len(vs) > 1 for vs in evs) and not any(vs == {False} for vs in evs):
            undet += 1
    if undet:
        prog["undetermined_accepted"] = True
        ctx.violation("sample(propagate_evidence=True) accepts %d of %d samples whose choices do not determine the evidence "
                      "(the facts the evidence depends on were never sampled): %r" % (undet, len(acc), prog["text"]),
                      {"program": prog["text"], "mode": "propagate"},
                      klass="propagate-evidence-undetermined-evidence-accepted")
    return len(acc) >= 1


def run_statistics(ctx):
    nprog = ctx.n(6, 60)
    nsamp = ctx.n(800, 20000)
    nprop = ctx.n(6, 40)
    progs = []
    tries = 0
    while len(progs) < nprog + nprop and tries < 5000:
        tries += 1
        prog = gen_program(ctx.rng, dyadic=ctx.rng.random() < 0.3)
        table = world_table(prog)
        pe, cond = exact_conditional(prog, table)
        if pe < Fraction(1, 4):
            continue
        if len(progs) >= nprog and not prog["evidence"]:
            continue
        prog["cond"] = cond
        progs.append(prog)
    items = []
    extra = []
    for n in range(ctx.n(3, 12)):
        i = ctx.rng.randint(5, 95)
        prog = gen_exhaustive_ad([i, 100 - i], [n % 2, 1 - n % 2])
        prog["cond"] = exact_conditional(prog)[1]
        extra.append(prog)
        items.append((prog["text"], nsamp, "sample", 4000 + n))
    for i, prog in enumerate(progs[:nprog]):
        items.append((prog["text"], nsamp, "sample", 1000 + i))
        if i % 2 == 0:
            items.append((prog["text"], nsamp, "estimate", 2000 + i))
    for i, prog in enumerate(progs[nprog:]):
        if probe_propagate(ctx, prog):
            items.append((prog["text"], nsamp, "propagate", 3000 + i))
    ctx.log("propagate probes done; %d statistical jobs" % len(items))
    results = pl.pmap(stat_worker, items, jobs=10, chunksize=1)
    lookup = {p["text"]: p for p in progs + extra}
    ncmp = sum(len(lookup[it[0]]["queries"]) for it in items)
    delta = 1e-9 / max(1, ncmp)
    t = math.sqrt(math.log(2.0 / delta) / (2.0 * nsamp))
    ctx.cov["statistical_test"] = {"label": "TEST (support only, not proof)", "samples_per_program": nsamp,
                                   "comparisons": ncmp, "hoeffding_t": t, "false_alarm_per_run": "< 1e-9",
                                   "proved_chebyshev_false_alarm_per_comparison_at_t": min(1.0, 1.0 / (4.0 * nsamp * t * t)),
                                   "proved_bound": "C22_test_bound: P(|frequency - p| >= eps) <= delta whenever 1 <= 4 n eps^2 delta "
                                                   "(Hoeffding, used for the threshold, is classical but not formalised)",
                                   "jobs": len(items)}
    for item, res in zip(items, results):
        src, n, mode, seed = item
        prog = lookup[src]
        ctx.count("stat_" + mode)
        if res[0] == "err" and res[1] == "Timeout":
            ctx.count("stat_timeout_skipped")          # a slow machine is not a property violation
            ctx.notes.append("statistical job timed out (skipped): mode=%s program=%r" % (mode, src))
            continue
        if res[0] == "err":
            ctx.violation("%s raised %s on %r" % (mode, res[1], src), {"program": src, "mode": mode, "seed": seed},
                          klass=None)
            continue
        for q, p in prog["cond"].items():
            f = res[1].get(q, 0.0)
            ctx.case(("stat", src, mode, q), 0 < p < 1, sample=None)
            zero = (f == 0.0 and p > 0 and n * math.log(1.0 - float(p)) < math.log(delta)) if p < 1 else (f == 0.0)
            if abs(f - float(p)) > t or zero:
                klass = None
                if mode == "propagate":
                    try:
                        feat = propagation_features(src)
                    except Exception:  # noqa
                        feat = {"false_ad_heads": 0}
                    if feat["false_ad_heads"]:
                        klass = "propagate-evidence-false-ad-head-not-renormalised"
                    elif prog.get("undetermined_accepted"):
                        klass = "propagate-evidence-undetermined-evidence-accepted"
                ctx.violation("%s frequency of %s is %.4f over %d samples, exact conditional probability %.4f (Hoeffding bound %.4f): %r"
                              % (mode, q, f, n, float(p), t, src),
                              {"program": src, "mode": mode, "seed": seed, "n": n, "query": q, "frequency": f,
                               "expected": str(p)}, klass=klass)


def run(ctx):
    ctx.cov["rule"] = ("random propositional programs (1-4 facts, up to 3 ADs with 1-5 heads in shuffled textual order and optional "
                       "bodies, rules with negation, shuffled clause order, 0-2 evidence atoms); scripts of draws k/2^24 (k odd) and, "
                       "for dyadic programs, exact boundary values (u = p/r, u = 0); a case = one sampling attempt of the real "
                       "sample() loop; non-trivial = consumes at least one draw and touches an AD; distinct = (program, draws)")
    ctx.assumptions += ["the engine's choice of which atoms it asks (encounter strategy) is not modelled: taken from the observed run; "
                        "the theorems quantify over all strategies",
                        "float arithmetic of CPython stays within 1e-9 of the exact rationals on the generated programs",
                        "weak law of large numbers proved for the model (i.i.d. product of the one-sample distribution, Chebyshev rate); "
                        "independence of the real PRNG's draws across attempts is assumed; almost-sure convergence and the Hoeffding bound of "
                        "the frequency test are not formalised (the test stays a TEST, fixed seed)",
                        "Lebesgue measure of an interval of [0,1) equals its length"]
    ctx.prove("C22/Props.v")
    if ctx.replay:
        rp = ctx.replay.get("replay", {})
        if "draws" in rp:
            us = [Fraction(u) for u in rp["draws"]]
            attempts, err, _ = scripted_attempts(rp["program"], us, 3, rp.get("mode") == "propagate")
            ctx.log("replay: %d attempts, err=%r" % (len(attempts), err))
            for a in attempts:
                ctx.log("  accepted=%s printed=%r queries=%r" % (a["accepted"], a["printed"], a["queries"]))
        elif "program" in rp:
            ctx.log("replay:", stat_worker((rp["program"], rp.get("n", 3000), rp.get("mode", "sample"), rp.get("seed", 1))))
        return
    run_scripted(ctx)
    ctx.log("scripted tie done")
    run_cutoff_probe(ctx)
    ctx.log("cut-off probe done")
    run_statistics(ctx)
    ctx.log("statistics done")
