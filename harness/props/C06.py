"""C06 — inference options do not change the answer.

Coq (coq/theories/C06): hand model of LogicFormula.propagate (unit propagation over the and-or
graph, schedule-parametric), of add_atom's weight folding and of the four evidence spellings;
theorems: soundness of every derived value / of a reported inconsistency in every model
satisfying the evidence, invariance of P(q|e) under replacing propagated nodes by constants,
invariance of every WMC under folding weight-1/0 atoms, equivalence of the spellings.

Check:
  (1) option sweep: generated programs (harness/gen_program.py, some with weight-0/1 facts) and the
      /repo/test corpus x sampled option vectors over {propagate_evidence, propagate_weights,
      label_all, avoid_name_clash, keep_order, keep_all, keep_duplicates, hide_builtins} x
      {log, normal space} x evidence spellings, through LogicFormula.create_from + evaluate and
      (a few) the probability command line; every run is compared with the default run and, for
      generated programs, with the Coq-extracted possible-world oracle;
  (2) model tie: the real LogicFormula.propagate on (a) the real ground formula of generated programs
      with evidence and (b) random (cyclic) and-or graphs with random evidence, with the pop order of
      its Python set recorded, must equal ModelPropagate.propagate_m under that schedule
      (vm_compute inside coqc); (b) is also judged by brute force against the stable-model
      semantics (the specification the theorems are about).
"""
import glob
import os
import re
import sys

sys.path.insert(0, os.path.join(os.path.dirname(os.path.dirname(os.path.dirname(os.path.abspath(__file__)))), "gen"))
import vf
import pl
import gen_program as gp
import sem_oracle as so
import c01_common as cc

META = {
    "id": "C06",
    "level": "proof",
    "technique": "hand model of LogicFormula.propagate / add_atom weight folding / evidence spellings in Gallina with unbounded "
                 "soundness and WMC-invariance theorems; differential correspondence (recorded pop schedule) of the real "
                 "propagate with the model; option sweep of the real pipeline against the default run and the Coq-extracted "
                 "possible-world oracle",
    "design_ref": "DESIGN.md §5 C06",
    "text": "C06_propagate_sound / C06_propagate_inconsistent (every schedule, every stable model), C06_condition_invariant, "
            "C06_fold_weights(_cond), C06_evidence_syntax; builder options are covered by the sweep (and by C11's builder theorems).",
    "note": "Trusted: Coq kernel; the encoders of formulas into model inputs; the engine-side use of lookup_evidence while "
            "grounding and ConstraintAD's own propagation are tied by the option sweep only.",
}

OPTS = ["propagate_evidence", "propagate_weights", "label_all", "avoid_name_clash", "keep_order", "keep_all",
        "keep_duplicates", "hide_builtins"]
JOBS = 8
CPU_LIMIT = 10


# ================================================================== running the implementation
def _kwargs(opts, sr):
    fk = {}
    for o in opts:
        fk[o] = sr if o == "propagate_weights" else True
    return fk


def run_one(item):
    """item = (kind, payload, opts, space); kind 'text' (program source) | 'file' (path under the repo)."""
    kind, payload, opts, space = item

    def go():
        from problog.formula import LogicFormula
        from problog.program import PrologString, PrologFile
        from problog import get_evaluatable
        from problog.evaluator import SemiringLogProbability, SemiringProbability
        sr = SemiringLogProbability() if space == "log" else SemiringProbability()
        model = PrologString(payload) if kind == "text" else PrologFile(payload)
        lf = LogicFormula.create_from(model, **_kwargs(opts, sr))
        kc = get_evaluatable().create_from(lf)
        return {str(k): v for k, v in kc.evaluate(semiring=sr).items()}
    return cc.evaluate(payload, fn=go, cpu_timeout=CPU_LIMIT)


CLI_FLAGS = {
    "cli-default": [],
    "cli-dont-propagate-evidence": ["--dont-propagate-evidence"],
    "cli-propagate-weights": ["--propagate-weights"],
    "cli-nologspace": ["--nologspace"],
    "cli-nologspace-propagate-weights": ["--nologspace", "--propagate-weights"],
}


def run_cli(item):
    """probability task of the command line tool with the given flags (its default propagates evidence)."""
    text, flagset = item
    import subprocess
    import tempfile
    with tempfile.NamedTemporaryFile("w", suffix=".pl", delete=False) as f:
        f.write(text)
        path = f.name
    try:
        env = dict(os.environ)
        env["PYTHONPATH"] = vf.REPO
        try:
            p = subprocess.run([sys.executable, "-W", "ignore", os.path.join(vf.REPO, "problog-cli.py"), path] + CLI_FLAGS[flagset],
                               stdout=subprocess.PIPE, stderr=subprocess.STDOUT, text=True, timeout=900, env=env)
        except subprocess.TimeoutExpired:
            return ("err", "Timeout")
        res = {}
        for line in p.stdout.split("\n"):
            if not line.strip():
                continue
            m = re.match(r"^\s*(.*?):\s+([-+0-9.eE]+)\s*$", line.rstrip())
            if not m:
                return ("err", cc.cli_err_class(p.stdout))
            res[m.group(1).replace(" ", "")] = float(m.group(2))
        return ("ok", res)
    finally:
        os.unlink(path)


# ================================================================== programs
def respell(prog, mode, rng=None):
    """Program text with the evidence statements written as evidence(a)/evidence(\\+a) ('1'),
    evidence(a,true)/evidence(a,false) ('2', what Prog.text() prints) or a per-statement mix."""
    out = []
    for s in prog.stmts:
        if s[0] == "evid":
            one = mode == "1" or (mode == "mix" and rng.random() < 0.5)
            a = gp.atom_text(s[1])
            if one:
                out.append("evidence(%s)." % a if s[2] else "evidence(\\+%s)." % a)
            else:
                out.append("evidence(%s,%s)." % (a, "true" if s[2] else "false"))
        else:
            out.append(gp.stmt_text(s))
    return "\n".join(out) + "\n"


def extreme_weights(prog, rng):
    """Copy of prog in which one or two probabilities are 0 or 1 (what add_atom folds when a semiring is given)."""
    stmts = list(prog.stmts)
    idx = [i for i, s in enumerate(stmts) if s[0] == "ad"]
    rng.shuffle(idx)
    changed = 0
    for i in idx[:rng.choice([1, 1, 2])]:
        s = stmts[i]
        heads = list(s[1])
        if len(heads) == 1:
            heads[0] = (rng.choice(["0.0", "1.0", "1.0", "0", "1"]), heads[0][1])
        else:
            j = rng.randrange(len(heads))
            heads[j] = ("0.0", heads[j][1])
        stmts[i] = ("ad", heads, s[2])
        changed += 1
    p = prog.with_stmts(stmts)
    p.meta = dict(prog.meta)
    p.meta["extreme_weights"] = changed
    return p


WITNESSES = [
    # minimal witness of keep_all + propagate_weights -> TypeError (float(None)) in add_atom
    "n(a). 0.5::p(X) :- n(X). query(p(a)).",
    # evidence on derived atoms, AD summing to one (ConstraintAD's own propagation with a semiring)
    "0.5::a; 0.5::b. c :- a. c :- b, d. 0.3::d. query(a). query(d). evidence(c,true). evidence(b,false).",
    "0.3::a. 0.4::b. c :- a, b. d :- c. d :- \\+a. query(a). query(b). evidence(d,true). evidence(c,false).",
    "1.0::a. 0.0::b. 0.4::c. d :- a, c. d :- b. query(d). query(a). query(b). evidence(c,true).",
    "n(a). n(b). 0.5::p(X) :- n(X). q :- p(a), p(b). r :- \\+q. query(p(a)). evidence(r,false).",
    "0.2::a. 0.3::b. c :- a. c :- b. query(a). evidence(c,true). evidence(a,false).",
    "0.2::a. b :- a. query(b). evidence(a,true). evidence(b,false).",
    "n(a). n(b). e(a,b). e(b,a). 0.5::pe(X,Y) :- e(X,Y). path(X,Y) :- pe(X,Y). path(X,Y) :- pe(X,Z), path(Z,Y). "
    "query(path(a,a)). query(pe(a,b)). evidence(path(a,b),true).",
    # the two C01 defects of the pinned tree (DESIGN §7): options that change the grounding order / node reuse change the outcome
    "0.3::d0. d1 :- d0. 0.1::a; 0.2::d1 :- d1, \\+d0, d0. query(a). query(d1).",
    "0.1::f0. d3 :- f0, d3. d3 :- \\+f0, f0. query(d3).",
    "d2 :- d3, \\+f0. d3 :- f0, f0. d1 :- f0, \\+f0, \\+f0. d0 :- \\+d1. d1 :- f0, f0, d2. d2 :- \\+f0, d1. d3 :- \\+f0, d3. "
    "d0 :- f0, \\+d1. 0.25::f0. d2 :- d2. d1 :- f0. d0 :- \\+f0. query(d0).",
]


def source_features(text):
    """builtin features of a corpus program (used only to name violation classes narrowly)"""
    t = re.sub(r"%.*", "", text)
    f = []
    if re.search(r"library\(cut\)|\bcut\(", t):
        f.append("cut-library")
    if re.search(r"\bclause\(", t):
        f.append("clause")
    if re.search(r"load_external|call_external|\bextern\b|use_module\('[^']*\.py'\)", t):
        f.append("extern")
    if re.search(r"library\(scope\)", t):
        f.append("scope-library")
    if re.search(r"\b(all|findall|all_or_none)\(", t):
        f.append("findall-all")
    if re.search(r"\bsubquery\(", t):
        f.append("subquery")
    try:
        from problog.program import PrologString
        from problog.logic import Clause, AnnotatedDisjunction, Term
        rec = set()
        for st in PrologString(text):
            if isinstance(st, Clause):
                if _mentions(st.body, st.head.signature):
                    rec.add(st.head.signature)
            elif isinstance(st, Term) and not isinstance(st, AnnotatedDisjunction):
                if st.probability is None and not st.is_ground() and st.functor not in ("query", "evidence", ":-", "_directive"):
                    f.append("nonground-fact")
        if rec:
            f.append("recursion")
    except Exception:
        pass
    return f


def _mentions(body, sig):
    from problog.logic import Term
    todo = [body]
    while todo:
        t = todo.pop()
        if isinstance(t, Term):
            if t.signature == sig:
                return True
            todo.extend(a for a in t.args if isinstance(a, Term))
    return False


def prog_features(prog):
    f = []
    feats = prog.features()
    if any(s[0] == "rule" and not s[2] for s in prog.stmts):
        f.append("deterministic-fact")
    if feats["recursion"]:
        f.append("recursion")
    return f


# ================================================================== comparing
def _strip_loc(o):
    if o[0] == "err":
        return ("err", o[1].split("@")[0])
    return o


def agree(a, b):
    return pl.same_result(_strip_loc(a), _strip_loc(b))


def symptom(base, r):
    if r[0] == "err":
        e = r[1]
        return e[len("INTERNAL:"):] if e.startswith("INTERNAL:") else e
    if base[0] == "err":
        return "answers-where-default-raises-" + base[1].split("@")[0].replace("INTERNAL:", "")
    extra = [k for k in r[1] if k not in base[1] and abs(r[1][k]) > 1e-12]
    missing = [k for k in base[1] if k not in r[1] and abs(base[1][k]) > 1e-12]
    if extra:
        return "extra-answer"
    if missing:
        return "missing-answer"
    return "wrong-probability"


def minimal_options(kind, payload, opts, space, base, r):
    """smallest subset of opts (size 1, then 2) that still disagrees with the default in the same way"""
    want = symptom(base, r)
    cands = [(o,) for o in opts] + [(a, b) for i, a in enumerate(opts) for b in opts[i + 1:]]
    if len(opts) <= 1:
        return tuple(opts)
    for c in cands:
        if len(c) >= len(opts):
            break
        rr = run_one((kind, payload, c, space))
        if not agree(rr, base) and symptom(base, rr) == want:
            return c
    return tuple(opts)


# ================================================================== the real propagate, recorded
def real_propagate(case):
    """case = (nodes, ev) with nodes = [("atom", id) | ("conj", children) | ("disj", children)].
    Runs the real LogicFormula.propagate on a formula with exactly these nodes, recording the order in which
    its `queue` set is popped.  Returns (outcome, pops): outcome = dict key -> bool | "Inconsistent" | "ERR:<name>"."""
    nodes, ev = case
    import problog.formula as F
    from problog.errors import InconsistentEvidenceError
    lf = F.LogicFormula()
    for kind, x in nodes:
        if kind == "atom":
            lf._nodes.append(F.atom(x, 0.5, None, None, None, False))
        elif kind == "conj":
            lf._nodes.append(F.conj(tuple(x), None))
        else:
            lf._nodes.append(F.disj(tuple(x), None))
    return _recorded(lf, list(ev))


def _recorded(lf, ev):
    import problog.formula as F
    from problog.errors import InconsistentEvidenceError
    pops = []

    class RecSet(set):
        def pop(self):
            x = set.pop(self)
            pops.append(x)
            return x
    F.set = RecSet     # module-global shadowing the builtin inside problog.formula only, for this call
    try:
        try:
            cur = lf.propagate(ev, {})
            out = {int(k): (v == lf.TRUE) for k, v in cur.items()}
        except InconsistentEvidenceError:
            out = "Inconsistent"
        except Exception as e:  # noqa
            out = "ERR:" + type(e).__name__
    finally:
        del F.set
    return out, pops


def formula_of_program(text):
    """Ground the program as engine.ground_all(propagate_evidence=True) does up to the propagate call;
    returns (nodes, ev_nodes) of the real ground formula, or None when there is nothing to propagate."""
    def go():
        from problog.program import PrologString
        from problog.engine import DefaultEngine
        from problog.formula import LogicFormula
        from problog.logic import Term
        eng = DefaultEngine()
        db = eng.prepare(PrologString(text))
        evidence = eng.query(db, Term("evidence", None, None)) + eng.query(db, Term("evidence", None))
        target = LogicFormula()
        eng.ground_evidence(db, target, evidence)
        ev_nodes = [node for name, node in target.evidence() if node != 0 and node is not None]
        nodes = []
        for i, n, t in target:
            if t == "atom":
                nodes.append(("atom", i))
            else:
                nodes.append((t, [int(c) for c in n.children]))
        return {"nodes": nodes, "ev": [int(e) for e in ev_nodes]}
    r = cc.evaluate(text, fn=go, cpu_timeout=CPU_LIMIT)
    if r[0] != "ok" or not r[1]["ev"]:
        return None
    return (r[1]["nodes"], r[1]["ev"])


def program_propagate(text):
    f = formula_of_program(text)
    if f is None:
        return None
    return f, real_propagate(f)


# ------------------------------------------------------------------ random graphs
def gen_graph(rng):
    na = rng.randint(1, 4)
    ni = rng.randint(1, 6)
    cyclic = rng.random() < 0.4
    nodes = [("atom", i + 1) for i in range(na)]
    n = na + ni
    for k in range(na + 1, n + 1):
        kind = rng.choice(["conj", "disj"])
        cs = []
        for _ in range(rng.choice([1, 2, 2, 3])):
            if cyclic and rng.random() < 0.35:
                c = rng.randint(1, n)          # may point forwards or to itself: positive only
                if c >= k:
                    cs.append(c)
                    continue
            c = rng.randint(1, k - 1)
            cs.append(-c if rng.random() < 0.3 else c)
        if rng.random() < 0.85:
            seen = []
            for c in cs:
                if c not in seen:
                    seen.append(c)
            cs = seen
        nodes.append((kind, cs))
    # evidence: either arbitrary literals, or literals true in one random world (so deep propagation happens)
    if rng.random() < 0.5:
        ev = [rng.choice([1, -1]) * rng.randint(1, n) for _ in range(rng.choice([1, 1, 2, 3]))]
    else:
        asg = {i + 1: rng.random() < 0.5 for i in range(na)}
        ms = stable_models(nodes, asg)
        if ms:
            s = rng.choice(ms)
            ks = rng.sample(range(1, n + 1), min(n, rng.choice([1, 2, 2, 3])))
            ev = [k if s[k] else -k for k in ks]
        else:
            ev = [rng.randint(1, n)]
    return nodes, ev


def _lfp_reduct(nodes, asg, s):
    n = len(nodes)
    v = {k: False for k in range(1, n + 1)}
    for _ in range(n + 1):
        nv = {}
        for k, (kind, x) in enumerate(nodes, 1):
            if kind == "atom":
                nv[k] = asg[x]
            else:
                vals = [(v[c] if c > 0 else (not s[-c])) for c in x]
                nv[k] = all(vals) if kind == "conj" else any(vals)
        if nv == v:
            break
        v = nv
    return v


def stable_models(nodes, asg):
    """all valuations s with s = lfp of the reduct of the graph w.r.t. s (BoolGraph.is_model), by enumeration"""
    n = len(nodes)
    internal = [k for k, (kind, _) in enumerate(nodes, 1) if kind != "atom"]
    out = []
    import itertools
    for bits in itertools.product([False, True], repeat=len(internal)):
        s = {k: asg[x] for k, (kind, x) in enumerate(nodes, 1) if kind == "atom"}
        s.update(dict(zip(internal, bits)))
        if _lfp_reduct(nodes, asg, s) == s:
            out.append(s)
    return out


def judge_propagate(nodes, ev, outcome):
    """Specification judge: None when `outcome` is sound w.r.t. every stable model satisfying ev, else a description."""
    import itertools
    atoms = [x for kind, x in nodes if kind == "atom"]
    for bits in itertools.product([False, True], repeat=len(atoms)):
        asg = dict(zip(atoms, bits))
        for s in stable_models(nodes, asg):
            if all((s[e] if e > 0 else not s[-e]) for e in ev):
                if outcome == "Inconsistent":
                    return "reports inconsistency but assignment %r satisfies the evidence" % (asg,)
                for k, b in outcome.items():
                    if s[k] != b:
                        return "derives node %d = %s, false in the model of %r (which satisfies the evidence)" % (k, b, asg)
    return None


# ------------------------------------------------------------------ Coq side
COQ_HEADER = """From Coq Require Import ZArith NArith List Bool.
From PL.C09 Require Import BoolGraph.
From PL.C06 Require Import ModelPropagate ProofsTermination.
Import ListNotations.
Open Scope Z_scope.
Fixpoint nat_list_eqb (x y : list nat) : bool :=
  match x, y with
  | nil, nil => true
  | a :: x', b :: y' => Nat.eqb a b && nat_list_eqb x' y'
  | _, _ => false
  end.
Definition chkf (fuel : nat) (g : graph) (ev sched : list Z) (incons : bool) (expected : list nat) : bool :=
  match propagate_m g ev nil sched fuel with
  | Done c => negb incons && nat_list_eqb (cur_table c (length g)) expected
  | Inconsistent => incons
  | _ => false
  end.
Definition chk (g : graph) (ev sched : list Z) (incons : bool) (expected : list nat) : bool :=
  chkf (S (S (length sched))) g ev sched incons expected.
(* small formulas: also with the proved fuel bound (C06_propagate_terminates), and the real run must have
   made fewer pops than the bound *)
Definition chkb (g : graph) (ev sched : list Z) (incons : bool) (expected : list nat) : bool :=
  chk g ev sched incons expected && Nat.ltb (length sched) (fuel_bound g ev) &&
  chkf (fuel_bound g ev) g ev sched incons expected.
"""


def fuel_bound(nodes, ev):
    """ProofsTermination.fuel_bound (C06_fuel_bound_explicit): (|g|+1) * (|ev| + 2*#children + 2*|g| + 1)."""
    n = len(nodes)
    nch = sum(len(x) for kind, x in nodes if kind != "atom")
    return (n + 1) * (len(ev) + 2 * nch + 2 * n + 1)



def coq_graph(nodes):
    out = []
    for kind, x in nodes:
        if kind == "atom":
            out.append("NAtom %d%%N" % x)
        else:
            out.append("%s [%s]" % ("NAnd" if kind == "conj" else "NOr", "; ".join("(%d)" % c for c in x)))
    return "[" + "; ".join(out) + "]"


def coq_case(nodes, ev, outcome, pops):
    n = len(nodes)
    if outcome == "Inconsistent":
        table, inc = [], True
    else:
        table = [(0 if k not in outcome else (1 if outcome[k] else 2)) for k in range(1, n + 1)]
        inc = False
    return "%s %s [%s] [%s] %s [%s]" % ("chkb" if len(nodes) <= 40 else "chk", coq_graph(nodes), "; ".join("(%d)" % e for e in ev),
                                         "; ".join("(%d)" % p for p in pops), "true" if inc else "false",
                                         "; ".join("%d%%nat" % t for t in table))


# ================================================================== the check
def option_vectors(rng, k_random):
    vecs = [((), "log"), ((), "normal")]
    vecs += [((o,), "log") for o in OPTS]
    vecs.append((("propagate_evidence", "propagate_weights"), rng.choice(["log", "normal"])))
    vecs.append((("propagate_weights",), "normal"))
    for _ in range(k_random):
        v = tuple(o for o in OPTS if rng.random() < 0.5)
        vecs.append((v, rng.choice(["log", "normal"])))
    seen, out = set(), []
    for v in vecs:
        if v not in seen:
            seen.add(v)
            out.append(v)
    return out


class Judge:
    def __init__(self, ctx):
        self.ctx = ctx
        self.per_class = {}

    def report(self, what, replay, klass):
        self.ctx.violation(what, replay, klass=klass)

    def run(self, name, kind, payload, feats, base, ref, r, opts, space, variant, prog=None):
        """One option run `r` against the default run `base` (and the oracle outcome `ref`, or None)."""
        ctx = self.ctx
        if agree(r, base):
            ctx.count("agree-with-default")
            return
        if r[0] == "err" and r[1] == "Timeout" and base[0] == "err" and base[1] == "Timeout":
            return
        base_ok = ref is None or so.same(_strip_loc(base), ref) is None
        run_ok = ref is not None and so.same(_strip_loc(r), ref) is None
        if not base_ok:
            # the default run itself disagrees with the semantics: a C01/C27 matter; here only the consequence
            # "the option changes the (wrong) outcome" is visible
            c1 = cc.classify(prog, base, ref) if prog is not None else None
            klass = "baseline-defect:%s" % (c1 or "unclassified")
            what = ("options %s (%s space%s) give %s where the default run gives %s; the semantics say %s: the default run is "
                    "already wrong (C01 class %s)" % ("+".join(opts) or "none", space, variant, _short(r), _short(base),
                                                       _short(cc.ref_json(ref)), c1))
            self.report(what, self._replay(name, kind, payload, opts, space, variant, base, r, ref), klass)
            return
        n = self.per_class.get("min", 0)
        mo = tuple(opts)
        if kind is not None and len(opts) > 1 and n < 25 and not variant:
            self.per_class["min"] = n + 1
            mo = minimal_options(kind, payload, list(opts), space, base, r)
        sym = symptom(base, r)
        feat = feats[0] if feats else "none"
        if sym == "TypeError@evaluator.py:value":
            # add_atom evaluates semiring.value(None) on a deterministic node that keep_all keeps: any program triggers it
            feat = "deterministic-node"
        who = "+".join(mo) if mo else ("normal-space" if space == "normal" and not variant else "default-options")
        if variant:
            who = (who + "+" if mo else "") + variant.strip(" ,()").replace(" ", "-")
        klass = "%s:%s:%s" % (who, sym, feat)
        what = ("%s: options %s (%s space%s) give %s, the default run %s%s" %
                (name, "+".join(opts) or "none", space, variant, _short(r), _short(base),
                 "" if ref is None else ("; semantics: %s (%s)" % (_short(cc.ref_json(ref)), "option run agrees" if run_ok else "option run disagrees"))))
        self.report(what, self._replay(name, kind, payload, opts, space, variant, base, r, ref, mo), klass)

    @staticmethod
    def _replay(name, kind, payload, opts, space, variant, base, r, ref, mo=None):
        d = {"name": name, "kind": kind, "program": payload, "options": list(opts), "space": space, "variant": variant,
             "default_run": base, "observed": r}
        if ref is not None:
            d["semantics"] = cc.ref_json(ref)
        if mo is not None:
            d["minimal_options"] = list(mo)
        return d


def _short(o):
    return str(o)[:260]


def corpus_files():
    return sorted(glob.glob(os.path.join(vf.REPO, "test", "*.pl")))


def run(ctx):
    ctx.cov["rule"] = ("(1) generated C01-fragment programs (some with weight 0/1 facts) + fixed witnesses + every /repo/test/*.pl, each "
                       "under the default options and under sampled option vectors x log/normal space x evidence spellings; a case "
                       "= (program, option vector, space, spelling); non-trivial when the option vector is not the default and the "
                       "program has a rule body; (2) propagate tie: ground formulas of generated programs with evidence and random "
                       "cyclic and-or graphs (<= 4 atoms, <= 6 internal nodes) with random / satisfiable evidence")
    ctx.assumptions += [
        "the pop order of the Python set `queue` in LogicFormula.propagate is treated as unspecified: theorems hold for every "
        "schedule, the tie replays the observed one",
        "weight folding is proved exactly for weights 1 / 0 and with explicit perturbation bounds (<= k*delta on any WMC, 2k*delta/(P(e)-k*delta) on conditionals) for the code's approximate thresholds (C06/PropsExtra.v)"
        "or p < 1e-9 (log semiring): generated programs use the exact values",
        "the engine's use of lookup_evidence while grounding queries and ConstraintAD.add's own evidence/weight propagation are "
        "not modelled in Coq; they are covered by the option sweep against the oracle only",
        "probabilities compared at 1e-9 absolute; probability-0 answers are the same observation as unreported ones; errors by class",
    ]
    ctx.prove("C06/Props.v")
    ctx.prove("C06/PropsExtra.v")
    rng = ctx.rng
    judge = Judge(ctx)

    if ctx.replay:
        rp = ctx.replay["replay"]
        kind, payload = rp.get("kind") or "text", rp["program"]
        base = run_one((kind, payload, (), "log"))
        r = run_one((kind, payload, tuple(rp["options"]), rp["space"]))
        ctx.case((payload, tuple(rp["options"]), rp["space"]), True, sample={"program": payload[:400], "observed": str(r)[:300]})
        judge.run(rp.get("name", "replay"), kind, payload, source_features(payload), base, None, r, tuple(rp["options"]),
                  rp["space"], "")
        return

    # ---------------------------------------------------------------- (2) propagate: model tie + specification judge
    tie_cases, tie_meta = [], []
    ngraphs = ctx.n(400, 12000)
    graphs = [gen_graph(rng) for _ in range(ngraphs)]
    ctx.log("real propagate on %d random graphs" % ngraphs)
    outs = pl.pmap(real_propagate, graphs, jobs=JOBS, chunksize=50)
    for (nodes, ev), (outcome, pops) in zip(graphs, outs):
        nontrivial = outcome == "Inconsistent" or (isinstance(outcome, dict) and len(outcome) > len(set(abs(e) for e in ev)))
        ctx.case(("graph", repr(nodes), repr(ev)), nontrivial)
        ctx.count("propagate-graph:%s" % ("inconsistent" if outcome == "Inconsistent" else
                                          ("error" if isinstance(outcome, str) else
                                           ("derives-more" if nontrivial else "evidence-only"))))
        if isinstance(outcome, str) and outcome != "Inconsistent":
            ctx.violation("LogicFormula.propagate raises %s on nodes=%r evidence=%r" % (outcome, nodes, ev),
                          {"nodes": nodes, "evidence": ev, "observed": outcome}, klass="propagate:%s" % outcome)
            continue
        bad = judge_propagate(nodes, ev, outcome)
        if bad:
            ctx.violation("LogicFormula.propagate is unsound: %s; nodes=%r evidence=%r result=%r" % (bad, nodes, ev, outcome),
                          {"nodes": nodes, "evidence": ev, "observed": outcome, "pops": pops}, klass=None)
        tie_cases.append(coq_case(nodes, ev, outcome, pops))
        tie_meta.append(("graph", nodes, ev, outcome, pops))

    # ---------------------------------------------------------------- programs
    nprog = ctx.n(20, 400)
    progs = [gp.parse_simple(w) for w in WITNESSES]
    while len(progs) < nprog + len(WITNESSES):
        p = gp.gen_program(rng)
        if rng.random() < 0.35:
            p = extreme_weights(p, rng)
        progs.append(p)
    # extra programs with evidence for the propagate tie (formula only, cheap)
    tie_progs = [p for p in progs if p.evidence()]
    extra = ctx.n(50, 800)
    tries = 0
    while extra > 0 and tries < 20000:
        tries += 1
        p = gp.gen_program(rng)
        if p.evidence():
            tie_progs.append(p)
            extra -= 1
    ctx.log("real propagate on the ground formulas of %d programs with evidence" % len(tie_progs))
    pouts = pl.pmap(program_propagate, [p.text() for p in tie_progs], jobs=JOBS, chunksize=4)
    for p, po in zip(tie_progs, pouts):
        if po is None:
            ctx.count("propagate-program:nothing-to-propagate")
            continue
        (nodes, ev), (outcome, pops) = po
        if isinstance(outcome, str) and outcome != "Inconsistent":
            ctx.violation("LogicFormula.propagate raises %s on the ground formula of %s" % (outcome, p.text().replace("\n", " ")),
                          {"program": p.text(), "observed": outcome}, klass="propagate:%s" % outcome)
            continue
        nontrivial = outcome == "Inconsistent" or len(outcome) > len(set(abs(e) for e in ev))
        ctx.case(("progformula", p.text()), nontrivial, sample={"program": p.text(), "evidence_nodes": ev, "propagated": str(outcome)[:200]})
        ctx.count("propagate-program:%s" % ("inconsistent" if outcome == "Inconsistent" else
                                            ("derives-more" if nontrivial else "evidence-only")))
        if len(nodes) <= 400:
            tie_cases.append(coq_case(nodes, ev, outcome, pops))
            tie_meta.append(("program", p.text(), ev, outcome, pops, nodes))
    ctx.log("model tie: %d propagate runs through ModelPropagate.propagate_m (vm_compute)" % len(tie_cases))
    ctx.cov["propagate_tie_cases"] = len(tie_cases)
    # the real loop never makes more iterations than the proved bound (C06_propagate_terminates)
    worst = 0.0
    for m in tie_meta:
        nodes_m = m[1] if m[0] == "graph" else m[5]
        b = fuel_bound(nodes_m, m[2])
        worst = max(worst, len(m[4]) / float(b))
        if len(m[4]) >= b:
            ctx.broken.append("correspondence:LogicFormula.propagate made %d iterations, more than the proved bound %d, on %r evidence %r"
                              % (len(m[4]), b, nodes_m, m[2]))
    ctx.cov["propagate_max_iterations_over_bound"] = round(worst, 4)
    try:
        failing = ctx.coq_failing(COQ_HEADER, tie_cases, name="c06tie", shard=300, jobs=JOBS)
    except RuntimeError as e:
        failing = []
        ctx.broken.append("correspondence:model evaluation failed (coqc)")
        ctx.notes.append(str(e)[-2000:])
    ctx.cov["propagate_tie_disagree"] = len(failing)
    for i in failing[:5]:
        m = tie_meta[i]
        ctx.broken.append("correspondence:propagate_m differs from LogicFormula.propagate on %s %r evidence %r (real: %r, pops %r)"
                          % (m[0], m[1] if m[0] == "graph" else m[1].replace("\n", " "), m[2], m[3], m[4]))

    # ---------------------------------------------------------------- (1) option sweep on generated programs
    ctx.log("oracle on %d programs" % len(progs))
    try:
        refs = so.oracle_eval(ctx, progs, "fast", jobs=JOBS)
    except Exception as e:  # noqa
        ctx.broken.append("oracle:extraction/build or evaluation failed")
        ctx.notes.append(str(e)[-2000:])
        refs = [None] * len(progs)
    items, meta = [], []
    krand = ctx.n(2, 10)
    for pi, p in enumerate(progs):
        text = p.text()
        for (v, sp) in option_vectors(rng, krand):
            items.append(("text", text, v, sp))
            meta.append((pi, v, sp, ""))
        if p.evidence():
            for mode in ("1", "mix"):
                t2 = respell(p, mode, rng)
                for v in ((), ("propagate_evidence",)):
                    items.append(("text", t2, v, "log"))
                    meta.append((pi, v, "log", " , evidence spelling %s" % mode))
    ctx.log("option sweep: %d runs on %d generated programs" % (len(items), len(progs)))
    res = pl.pmap(run_one, items, jobs=JOBS, chunksize=2)
    base = {}
    for (pi, v, sp, var), r in zip(meta, res):
        if v == () and sp == "log" and not var:
            base[pi] = r
    for (pi, v, sp, var), r, it in zip(meta, res, items):
        p = progs[pi]
        ref = refs[pi]
        if ref is not None and ref[0] == "err" and ref[1] not in ("InconsistentEvidence",):
            if v == () and sp == "log" and not var:
                ctx.broken.append("oracle:%s on a generated program (%s)" % (ref[1], p.text().replace("\n", " ")[:200]))
            ref = None
        default = v == () and sp == "log" and not var
        nontrivial = (not default) and any(s[0] in ("rule", "ad") and s[2] for s in p.stmts)
        ctx.case((it[1], v, sp), nontrivial, sample={"program": it[1], "options": list(v), "space": sp, "result": str(r)[:200]})
        ctx.count("options:%d" % len(v))
        for o in v:
            ctx.count("opt:" + o)
        ctx.count("space:" + sp)
        if var:
            ctx.count("spelling-variant")
        if p.meta.get("extreme_weights"):
            ctx.count("program-with-weight-0-or-1")
        ctx.count("outcome:%s" % (r[0] if r[0] == "ok" else r[1].split("@")[0]))
        if default:
            if ref is not None and so.same(_strip_loc(r), ref) is not None:
                ctx.count("default-run-disagrees-with-semantics(C01):%s" % (cc.classify(p, r, ref) or "unclassified"))
            continue
        judge.run("generated program", "text", it[1], prog_features(p), base[pi], ref, r, v, sp, var, prog=p)

    # ---------------------------------------------------------------- command line (its default propagates evidence)
    ncli = ctx.n(3, 40)
    cli_idx = list(range(min(2, len(WITNESSES)))) + [i for i in range(len(WITNESSES), len(progs)) if progs[i].evidence()][:ncli]
    citems = [(progs[i].text(), f) for i in cli_idx for f in CLI_FLAGS]
    ctx.log("command line: %d runs" % len(citems))
    cres = pl.pmap(run_cli, citems, jobs=JOBS, chunksize=1)
    for (text, f), r in zip(citems, cres):
        pi = [i for i in cli_idx if progs[i].text() == text][0]
        ctx.case((text, f), True)
        ctx.count("cli:" + f)
        b = base[pi]
        # the command line prints 8 decimals
        rr = r
        if r[0] == "ok" and b[0] == "ok":
            if all(abs(r[1].get(k, 0.0) - b[1].get(k, 0.0)) <= cc.CLI_TOL for k in set(r[1]) | set(b[1])):
                continue
        elif r[0] == "err" and b[0] == "err" and r[1].split("@")[0] == b[1].split("@")[0]:
            continue
        ref = refs[pi]
        if ref is not None and ref[0] == "err" and ref[1] != "InconsistentEvidence":
            ref = None
        judge.run("generated program", None, text, prog_features(progs[pi]), b, ref, rr, (f,), "log", "", prog=progs[pi])

    # ---------------------------------------------------------------- option sweep on the /repo/test corpus
    files = corpus_files()
    fitems, fmeta = [], []
    allbut = tuple(o for o in OPTS if o != "keep_all")
    for path in files:
        vecs = [((), "log"), (("keep_all",), "log"), (allbut, "log")]
        if ctx.tier == "thorough":
            vecs += [((o,), "log") for o in OPTS if o != "keep_all"] + [((), "normal"), (tuple(OPTS), "log"),
                                                                      (("propagate_weights",), "normal")]
            vecs.append((tuple(o for o in OPTS if rng.random() < 0.5), rng.choice(["log", "normal"])))
        seen = set()
        for v in vecs:
            if v not in seen:
                seen.add(v)
                fitems.append(("file", path, v[0], v[1]))
                fmeta.append((path, v[0], v[1]))
    ctx.log("option sweep: %d runs on %d corpus files" % (len(fitems), len(files)))
    fres = pl.pmap(run_one, fitems, jobs=JOBS, chunksize=2)
    fbase = {}
    for (path, v, sp), r in zip(fmeta, fres):
        if v == () and sp == "log":
            fbase[path] = r
    ftext = {}
    for (path, v, sp), r in zip(fmeta, fres):
        name = os.path.basename(path)
        default = v == () and sp == "log"
        ctx.case((name, v, sp), not default)
        ctx.count("corpus-outcome:%s" % (r[0] if r[0] == "ok" else r[1].split("@")[0]))
        if default:
            continue
        if fbase[path][0] == "err" and fbase[path][1] == "Timeout":
            continue
        if path not in ftext:
            with open(path) as f:
                ftext[path] = f.read()
        if agree(r, fbase[path]):
            ctx.count("agree-with-default")
            continue
        judge.run("test/" + name, "file", path, source_features(ftext[path]), fbase[path], None, r, v, sp, "")
