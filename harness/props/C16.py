"""C16 — arithmetic and term-inspection builtins match Yap/SWI (ISO) semantics."""
import os
import sys
from fractions import Fraction

import vf

sys.path.insert(0, os.path.join(vf.VERIF, "gen"))
import c16_arith  # noqa: E402

META = {
    "id": "C16",
    "level": "proof",
    "technique": "fail-closed ast translator (logic.py _arithmetic_functions, compute_function handlers -> Gallina over Z/Q) "
                 "+ Coq theorems forall a b : Z per integer operator against an ISO/SWI reference defined in Coq "
                 "+ hand models of between/succ/plus/length/functor/arg/=../type tests with relational specs "
                 "+ differential tie through the real engine (X is Expr, comparisons, every call mode)",
    "design_ref": "DESIGN.md §5 C16",
    "text": "GenArithTable.v is regenerated from the source on every run; per-operator theorems compare it with IsoArith.v for all "
            "integers; the tie evaluates bounded-exhaustive grids and random expression trees through DefaultEngine().query and "
            "compares with the model (vm_compute) and with the ISO reference.",
    "note": "SWI/YAP not installed: IsoArith.v is the reference (DESIGN §6.4). Floats are modelled by exact rationals "
            "(compared exactly when representable, else 1e-15 abs + 2^-50 rel); libm functions are named opaque entries.",
}

HEADER = """From Coq Require Import ZArith QArith String List Bool.
From PL.C16 Require Import PyNum GenArithTable ModelEval IsoArith.
Import ListNotations.
Open Scope Z_scope.
"""

EXTRACT_V = """Require Import PL.C16.PyNum PL.C16.GenArithTable PL.C16.ModelEval PL.C16.IsoArith.
From Coq Require Import ZArith QArith String.
Require Extraction.
Require ExtrOcamlBasic.
Extraction "oracle.ml" is_m out_matches out_matches_exact spec_eval spec_agrees cmp_m outb_matches Z.add Z.mul Z.opp.
"""

# Unverified glue: parses one request per line (whitespace separated prefix notation) into the
# extracted datatypes and prints 1/0.
#   expr ::= i <int> | f <num> <den> | v | a0 <name> | a1 <name> expr | a2 <name> expr expr
#   obs  ::= oi <int> | of <num> <den> | on | oa | or <T|O|Z|V> | oc | oo
#   line ::= m expr obs | x expr obs | s expr obs | c <op> expr expr (t | f | e obs)
DRIVER_ML = r"""
open Oracle
let ten = Zpos (XO (XI (XO XH)))
let digit c = match c with
  | '0' -> Z0 | '1' -> Zpos XH | '2' -> Zpos (XO XH) | '3' -> Zpos (XI XH) | '4' -> Zpos (XO (XO XH))
  | '5' -> Zpos (XI (XO XH)) | '6' -> Zpos (XO (XI XH)) | '7' -> Zpos (XI (XI XH)) | '8' -> Zpos (XO (XO (XO XH)))
  | '9' -> Zpos (XI (XO (XO XH))) | _ -> failwith "digit"
let z_of_string (s : Stdlib.String.t) : z =
  let neg = Stdlib.String.length s > 0 && s.[0] = '-' in
  let acc = ref Z0 in
  Stdlib.String.iteri (fun i c -> if i = 0 && c = '-' then () else acc := Z.add (Z.mul !acc ten) (digit c)) s;
  if neg then Z.opp !acc else !acc
let pos_of_string s = match z_of_string s with Zpos p -> p | _ -> failwith "positive expected"
let ascii_of_char c =
  let n = Char.code c in
  let b i = (n lsr i) land 1 = 1 in
  Ascii (b 0, b 1, b 2, b 3, b 4, b 5, b 6, b 7)
let coq_string (s : Stdlib.String.t) : Oracle.string =
  let r = ref EmptyString in
  for i = Stdlib.String.length s - 1 downto 0 do r := String (ascii_of_char s.[i], !r) done; !r
let toks = ref []
let next () = match !toks with t :: r -> toks := r; t | [] -> failwith "eol"
let rec expr () = match next () with
  | "i" -> ENum (VInt (z_of_string (next ())))
  | "f" -> let n = z_of_string (next ()) in let d = pos_of_string (next ()) in ENum (VFlt { qnum = n; qden = d })
  | "v" -> EVar
  | "a0" -> EApp0 (coq_string (next ()))
  | "a1" -> let f = coq_string (next ()) in let a = expr () in EApp1 (f, a)
  | "a2" -> let f = coq_string (next ()) in let a = expr () in let b = expr () in EApp2 (f, a, b)
  | t -> failwith ("expr " ^ t)
let obs () = match next () with
  | "oi" -> ObInt (z_of_string (next ()))
  | "of" -> let n = z_of_string (next ()) in let d = pos_of_string (next ()) in ObFlt { qnum = n; qden = d }
  | "on" -> ObNonFinite | "oa" -> ObArithErr | "oc" -> ObCallMode | "oo" -> ObOther
  | "or" -> ObRaw (match next () with "T" -> PyTypeError | "O" -> PyOverflowError | "Z" -> PyZeroDivisionError
                                    | "V" -> PyValueError | t -> failwith ("exc " ^ t))
  | t -> failwith ("obs " ^ t)
let cmpop () = match next () with
  | "lt" -> CLt | "gt" -> CGt | "le" -> CLe | "ge" -> CGe | "eq" -> CEq | "ne" -> CNe | t -> failwith ("op " ^ t)
let () =
  try
    while true do
      let line = input_line stdin in
      toks := List.filter (fun t -> t <> "") (Stdlib.String.split_on_char ' ' line);
      let r = match next () with
        | "m" -> let e = expr () in out_matches (is_m e) (obs ())
        | "x" -> let e = expr () in out_matches_exact (is_m e) (obs ())
        | "s" -> let e = expr () in spec_agrees (spec_eval true e) (obs ())
        | "c" -> let op = cmpop () in let a = expr () in let b = expr () in
                 let o = (match next () with "t" -> ObTrue | "f" -> ObFalse | "e" -> ObBErr (obs ()) | t -> failwith ("obsb " ^ t)) in
                 outb_matches (cmp_m op a b) o
        | t -> failwith ("mode " ^ t) in
      print_string (if r then "1\n" else "0\n")
    done
  with End_of_file -> ()
"""

INT_ONLY = {"/\\", "\\/", "xor", "#", "><", "<<", ">>", "\\"}
CMP = {"<": "CLt", ">": "CGt", "=<": "CLe", ">=": "CGe", "=:=": "CEq", "=\\=": "CNe"}


# ------------------------------------------------------------------ expressions
def I(n):
    return ("int", n)


def F(x):
    return ("flt", float(x))


def A(f, *args):
    return ("app", f, tuple(args))


VAR = ("var",)


def to_term(e):
    from problog.logic import Term, Constant
    if e[0] == "int":
        return Constant(e[1])
    if e[0] == "flt":
        return Constant(e[1])
    if e[0] == "str":
        return Constant(e[1])
    if e[0] == "var":
        return None
    return Term(e[1], *[to_term(a) for a in e[2]])


def coq_q(x):
    num, den = x.as_integer_ratio()
    return "((%d) # %d)%%Q" % (num, den)


def to_coq(e):
    if e[0] == "int":
        return "(ENum (VInt %s))" % vf.coq_Z(e[1])
    if e[0] == "flt":
        from problog.logic import Constant
        return "(ENum (VFlt %s))" % coq_q(Constant(e[1]).functor)
    if e[0] == "var":
        return "EVar"
    n = len(e[2])
    if n > 2 or e[0] != "app":
        raise ValueError("expression outside the model: %r" % (e,))
    return "(EApp%d %s%s)" % (n, vf.coq_string(e[1]), "".join(" " + to_coq(a) for a in e[2]))


def to_tok(e):
    if e[0] == "int":
        return "i %d" % e[1]
    if e[0] == "flt":
        from problog.logic import Constant
        n, d = Constant(e[1]).functor.as_integer_ratio()
        return "f %d %d" % (n, d)
    if e[0] == "var":
        return "v"
    n = len(e[2])
    if n > 2 or e[0] != "app" or " " in e[1] or not e[1]:
        raise ValueError("expression outside the model: %r" % (e,))
    return "a%d %s%s" % (n, e[1], "".join(" " + to_tok(a) for a in e[2]))


def obs_tok(o):
    if o[0] == "int":
        return "oi %d" % o[1]
    if o[0] == "flt":
        return "of %d %d" % (o[1], o[2])
    if o[0] == "raw":
        return "or " + {"TypeError": "T", "OverflowError": "O", "ZeroDivisionError": "Z", "ValueError": "V"}[o[1]]
    return {"nonfinite": "on", "arith": "oa", "callmode": "oc"}.get(o[0], "oo")


def obsb_tok(o):
    return {"true": "t", "false": "f"}.get(o[0]) or "e " + obs_tok(o[1])


CMP_TOK = {"<": "lt", ">": "gt", "=<": "le", ">=": "ge", "=:=": "eq", "=\\=": "ne"}


def ask(ctx, lines):
    """Indices of the request lines the extracted model answers 0 to."""
    if not lines:
        return []
    exe = ctx.ocaml_oracle("c16", EXTRACT_V, DRIVER_ML)
    out = ctx.oracle(exe, lines)
    return [i for i, r in enumerate(out) if r.strip() != "1"]


def show(e):
    if e[0] in ("int", "flt"):
        return repr(e[1])
    if e[0] == "str":
        return '"%s"' % e[1]
    if e[0] == "var":
        return "_"
    if not e[2]:
        return e[1]
    return "'%s'(%s)" % (e[1], ",".join(show(a) for a in e[2]))


def depth(e):
    return 0 if e[0] != "app" or not e[2] else 1 + max(depth(a) for a in e[2])


def subterms(e):
    """post-order"""
    if e[0] == "app":
        for a in e[2]:
            for s in subterms(a):
                yield s
    yield e


# ------------------------------------------------------------------ the implementation
_ENG = [None, None]


def engine():
    from problog.engine import DefaultEngine
    from problog.program import PrologString
    if _ENG[1] is None:
        _ENG[1] = DefaultEngine().prepare(PrologString("c16_dummy."))
    if _ENG[0] is None:
        _ENG[0] = DefaultEngine()
    return _ENG[0], _ENG[1]


def query(term):
    """Run one goal on the real engine. Returns ("ok", [tuple of result terms...]) or ("exc", exception)."""
    eng, db = engine()
    try:
        return ("ok", eng.query(db, term))
    except BaseException as e:  # noqa
        if isinstance(e, (KeyboardInterrupt, SystemExit)):
            raise
        _ENG[0] = None      # the engine's stack is left dirty by an exception
        return ("exc", e)


def obs_of_exc(e):
    from problog.logic import ArithmeticError as PLArith
    from problog.engine_builtin import CallModeError
    from problog.errors import ProbLogError
    if isinstance(e, PLArith):
        return ("arith",)
    if isinstance(e, CallModeError):
        return ("callmode",)
    if isinstance(e, ProbLogError):
        return ("other", "ProbLogError:" + type(e).__name__)
    if type(e).__name__ in ("TypeError", "OverflowError", "ZeroDivisionError", "ValueError"):
        return ("raw", type(e).__name__)
    return ("other", "INTERNAL:" + type(e).__name__)


def obs_of_value(t):
    from problog.logic import Constant
    if isinstance(t, Constant):
        v = t.functor
        if type(v) is int:
            return ("int", v)
        if type(v) is float:
            if v != v or v in (float("inf"), float("-inf")):
                return ("nonfinite",)
            n, d = v.as_integer_ratio()
            return ("flt", n, d)
        return ("other", "value:" + type(v).__name__)
    return ("other", "term:" + type(t).__name__)


HISTORY = []     # every arithmetic goal evaluated in this process, in order


def observe_is(e):
    from problog.logic import Term
    HISTORY.append(("is", e))
    st, r = query(Term("is", None, to_term(e)))
    if st == "exc":
        return obs_of_exc(r)
    if len(r) != 1:
        return ("other", "answers:%d" % len(r))
    return obs_of_value(r[0][0])


def observe_cmp(op, a, b):
    from problog.logic import Term
    HISTORY.append(("cmp", op, a, b))
    st, r = query(Term(op, to_term(a), to_term(b)))
    if st == "exc":
        return ("err", obs_of_exc(r))
    return ("true",) if len(r) == 1 else ("false",) if not r else ("err", ("other", "answers:%d" % len(r)))


def obs_coq(o):
    if o[0] == "int":
        return "(ObInt %s)" % vf.coq_Z(o[1])
    if o[0] == "flt":
        return "(ObFlt ((%d) # %d)%%Q)" % (o[1], o[2])
    if o[0] == "nonfinite":
        return "ObNonFinite"
    if o[0] == "arith":
        return "ObArithErr"
    if o[0] == "callmode":
        return "ObCallMode"
    if o[0] == "raw":
        return "(ObRaw Py%s)" % o[1]
    return "ObOther"


def obsb_coq(o):
    return {"true": "ObTrue", "false": "ObFalse"}.get(o[0]) or "(ObBErr %s)" % obs_coq(o[1])


# ------------------------------------------------------------------ generators
SMALL = list(range(-8, 9))
LARGE = [2 ** 31, -(2 ** 31) - 1, 2 ** 63 - 1, -(2 ** 63), 2 ** 64 + 3, -(2 ** 100) - 7, 10 ** 30 + 1]
FLOATS = [0.0, 0.5, -0.5, 1.5, -1.5, 2.5, -2.5, 3.5, -3.5, 2.25, -2.75, 3.0, -4.0, 7.75, 0.125, 100.5]


def table_info(ctx):
    return ctx._c16_info


def grid_cases(ctx, info):
    keys = info["keys"]
    cases = []
    for (name, ar) in keys:
        if ar == 0:
            cases.append((A(name), "const"))
        elif ar == 1:
            for a in SMALL + LARGE:
                cases.append((A(name, I(a)), "int1"))
            for x in FLOATS:
                cases.append((A(name, F(x)), "flt1"))
        else:
            for a in SMALL:
                for b in SMALL:
                    cases.append((A(name, I(a), I(b)), "int2"))
            # large operands: only where no float can be produced / needed
            if (name, ar) not in info["opaque"] and name not in ("/", "**", "^", "<<", ">>"):
                for a in LARGE:
                    for b in [-3, -1, 1, 2, 7, 2 ** 31, -(2 ** 63)]:
                        cases.append((A(name, I(a), I(b)), "large2"))
                        cases.append((A(name, I(b), I(a)), "large2"))
            if name in ("<<", ">>", "^", "**"):
                for a in [-5, -1, 0, 1, 3, 2 ** 40 + 1]:
                    for b in [0, 1, 31, 32, 63, 64, 100]:
                        cases.append((A(name, I(a), I(b)), "shiftpow"))
            fl = [0.0, 0.5, -1.5, 2.5, -2.75, 3.0]
            for x in fl:
                for y in fl:
                    cases.append((A(name, F(x), F(y)), "flt2"))
                for b in [-3, -1, 0, 1, 2]:
                    cases.append((A(name, F(x), I(b)), "mixed2"))
                    cases.append((A(name, I(b), F(x)), "mixed2"))
    # unknown functions, arities, unbound variables
    cases += [(A("cot", I(1)), "unknown"), (A("foo"), "unknown"), (A("gcd", I(4), I(6)), "unknown"),
              (A("msb", I(4)), "unknown"), (A("+", I(1), A("foo")), "unknown"), (A("foo", A("//", I(1), I(0))), "unknown"),
              (A("+", I(1), VAR), "unbound"), (VAR, "unbound"), (A("-", VAR), "unbound"),
              (A("//", A("//", I(1), I(0)), VAR), "unbound"),
              (A("+", A("//", I(1), I(0)), A("/\\", F(1.5), I(1))), "errorder"),
              (A("+", A("/\\", F(1.5), I(1)), A("//", I(1), I(0))), "errorder"),
              (I(5), "const"), (F(2.5), "const"), (A("'+'", I(1), I(2)), "quoted"), (A("'mod'", I(-7), I(2)), "quoted")]
    return cases


BIN_INT = ["+", "-", "*", "//", "mod", "rem", "div", "min", "max", "/\\", "\\/", "xor", "#", "><", "<<", ">>", "^", "**"]
UN_INT = ["-", "+", "\\", "abs", "sign", "integer", "truncate", "floor", "ceiling", "round"]
# exact on dyadic operands (results stay representable for the leaf ranges used below)
BIN_EXACT = ["+", "-", "*", "//", "mod", "rem", "div", "min", "max"]
UN_EXACT = ["-", "+", "abs", "sign", "float", "integer", "floor", "ceiling", "round", "truncate",
            "float_integer_part", "float_fractional_part"]
BIN_CONT = ["/", "+", "-", "*", "**", "^", "exp", "atan", "atan2"]
UN_CONT = ["sqrt", "exp", "log", "sin", "cos", "atan", "float", "-", "sinh", "erf", "lgamma"]
RFLOATS = [0.0, 0.5, -0.5, 1.5, -1.5, 2.5, -2.5, 3.5, 2.25, -2.75, 3.0, -4.0]


def rand_int_expr(rng, d):
    if d == 0 or rng.random() < 0.25:
        if rng.random() < 0.1:
            return I(rng.choice(LARGE) + rng.randrange(-2, 3))
        return I(rng.randrange(-12, 13))
    if rng.random() < 0.8:
        f = rng.choice(BIN_INT)
        a = rand_int_expr(rng, d - 1)
        b = rand_int_expr(rng, d - 1)
        if f in ("<<", ">>", "^", "**"):
            b = I(rng.randrange(0, 6))     # modest sizes; negative counts / exponents are in the grid
        return A(f, a, b)
    return A(rng.choice(UN_INT), rand_int_expr(rng, d - 1))


def rand_exact_expr(rng, d):
    """ints -6..6 and dyadic floats, operators whose float results are exact: depth <= 3."""
    if d == 0 or rng.random() < 0.25:
        return I(rng.randrange(-6, 7)) if rng.random() < 0.55 else F(rng.choice(RFLOATS))
    if rng.random() < 0.7:
        return A(rng.choice(BIN_EXACT), rand_exact_expr(rng, d - 1), rand_exact_expr(rng, d - 1))
    return A(rng.choice(UN_EXACT), rand_exact_expr(rng, d - 1))


def rand_cont_expr(rng):
    """one inexact (rounded / libm) operation on top of exact operands"""
    if rng.random() < 0.7:
        return A(rng.choice(BIN_CONT), rand_exact_expr(rng, rng.choice([0, 1])), rand_exact_expr(rng, rng.choice([0, 1])))
    return A(rng.choice(UN_CONT), rand_exact_expr(rng, rng.choice([0, 1])))


def rand_expr(rng, d, ints_only):
    return rand_int_expr(rng, d) if ints_only else rand_exact_expr(rng, min(d, 3))


def small_leaves(e):
    return all(s[0] != "int" or abs(s[1]) < 2 ** 40 for s in subterms(e))


def coq_safe(e):
    """Coq computes 2^count literally: keep shift counts / exponents (as the implementation
    evaluates them) small, and every intermediate integer below 2^8192."""
    for s in subterms(e):
        if s[0] == "int" and abs(s[1]) >= 2 ** 8192:
            return False
        if s[0] == "app" and len(s[2]) == 2 and s[1].strip("'") in ("<<", ">>", "^", "**", "exp"):
            b = s[2][1]
            o = ("int", b[1]) if b[0] == "int" else ("flt",) if b[0] == "flt" else observe_is(b)
            if o[0] == "int" and abs(o[1]) > 128:
                return False
        if s[0] == "app" and s[2]:
            o = observe_is(s)
            if o[0] == "int" and abs(o[1]) >= 2 ** 8192:
                return False
    return True


# ------------------------------------------------------------------ shrinking / classification
def shrink_candidates(e, observe=observe_is):
    """Sub-expressions whose arguments are replaced by the constants the implementation
    computes for them (post-order: smallest first)."""
    out = []
    for s in subterms(e):
        if s[0] != "app" or not s[2]:
            continue
        args = []
        ok = True
        for a in s[2]:
            if a[0] in ("int", "flt"):
                args.append(a)
                continue
            o = observe(a)
            if o[0] == "int":
                args.append(I(o[1]))
            elif o[0] == "flt":
                args.append(F(Fraction(o[1], o[2])))
            else:
                ok = False
                break
        if ok:
            out.append(A(s[1], *args))
    out.append(e)
    return out


def classify_spec(w, o):
    """Narrow class of a spec violation with minimal witness w (observed o)."""
    if w[0] == "app" and w[1].strip("'") == "//" and len(w[2]) == 2 and w[2][0][0] == "int" and w[2][1][0] == "int":
        a, b = w[2][0][1], w[2][1][1]
        if b != 0 and a % b != 0 and (a < 0) != (b < 0) and o == ("int", a // b):
            return "intdiv-floors-instead-of-truncating"
    return None


def classify_raw(w, o):
    if w[0] != "app":
        return None
    f = w[1].strip("'")
    kinds = [a[0] for a in w[2]]
    if o == ("raw", "TypeError") and ((f in INT_ONLY and "flt" in kinds) or "str" in kinds):
        return "arith-ill-typed-operand-raises-python-TypeError"
    if o == ("raw", "OverflowError"):
        return "arith-overflow-raises-python-OverflowError"
    if o == ("other", "value:complex") and f in ("**", "^"):
        return "pow-negative-base-fractional-exponent-returns-complex"
    return None


def spec_expected(e):
    """Human-readable ISO expectation for the replay file (integer fragment only)."""
    if e[0] == "app" and e[1].strip("'") == "//" and all(a[0] == "int" for a in e[2]):
        a, b = e[2][0][1], e[2][1][1]
        if b:
            q = abs(a) // abs(b)
            return q if (a < 0) == (b < 0) else -q
    return "see coq/theories/C16/IsoArith.v spec_eval"


# ------------------------------------------------------------------ ISO reference with result TYPES (Python side)
def py_ref(e):
    """Value AND type ISO / SWI / YAP agree on: ("int", n) | ("flt", Fraction) | ("err",) | None (not judged).
    Integer fragment as IsoArith.spec_eval (documented rem := mod); + - * unary- unary+ abs min max on
    mixed operands (float as soon as one operand is a float); float/1, floor, ceiling, truncate of floats."""
    if e[0] == "int":
        return e
    if e[0] == "flt":
        from problog.logic import Constant
        return ("flt", Fraction(Constant(e[1]).functor))
    if e[0] != "app" or not e[2]:
        return None
    f = e[1].strip("'")
    args = [py_ref(a) for a in e[2]]
    if any(a is None for a in args):
        return None
    if any(a == ("err",) for a in args):
        return ("err",)
    allint = all(a[0] == "int" for a in args)

    def num(v):
        return ("int", v) if allint else ("flt", Fraction(v))
    if len(args) == 2:
        (tx, x), (ty, y) = args
        if f == "+":
            return num(x + y)
        if f == "-":
            return num(x - y)
        if f == "*":
            return num(x * y)
        if f in ("min", "max"):
            if x == y and tx != ty:
                return None          # min(1, 1.0): SWI and YAP differ
            return args[0] if ((x <= y) == (f == "min")) else args[1]
        if not allint:
            return None
        if f in ("//", "mod", "rem", "div"):
            if y == 0:
                return ("err",)
            if f == "//":
                q = abs(x) // abs(y)
                return ("int", q if (x < 0) == (y < 0) else -q)
            if f == "div":
                return ("int", x // y)
            return ("int", x % y)
        if f == "/\\":
            return ("int", x & y)
        if f == "\\/":
            return ("int", x | y)
        if f in ("xor", "#", "><"):
            return ("int", x ^ y)
        if f in ("<<", ">>", "^") and 0 <= y <= 4096:
            return ("int", x << y if f == "<<" else x >> y if f == ">>" else x ** y)
        return None
    (tx, x), = args
    if f == "-":
        return (tx, -x)
    if f == "+":
        return (tx, x)
    if f == "abs":
        return (tx, abs(x))
    if f == "float":
        return ("flt", Fraction(x))
    if tx == "int":
        if f == "\\":
            return ("int", ~x)
        if f == "sign":
            return ("int", (x > 0) - (x < 0))
        return None
    if f == "floor":
        return ("int", x.numerator // x.denominator)
    if f == "ceiling":
        return ("int", -((-x.numerator) // x.denominator))
    if f == "truncate":
        return ("int", int(x))
    return None


def ref_agrees(exp, o):
    if exp is None:
        return True
    if exp[0] == "err":
        return o == ("arith",)
    if exp[0] == "int":
        return o == ("int", exp[1])
    if o[0] != "flt":
        return False
    v = exp[1]
    return abs(Fraction(o[1], o[2]) - v) <= Fraction(1, 10 ** 15) + abs(v) / 2 ** 50


def show_ref(exp):
    if exp is None:
        return "?"
    if exp[0] == "err":
        return "an evaluation error"
    return "%s %s" % ("integer" if exp[0] == "int" else "float", exp[1] if exp[0] == "int" else float(exp[1]))


def show_obs(o):
    if o[0] == "int":
        return "integer %d" % o[1]
    if o[0] == "flt":
        return "float %r" % (o[1] / o[2])
    return " ".join(str(x) for x in o)


def show_goal(g):
    return "X is " + show(g[1]) if g[0] == "is" else "%s %s %s" % (show(g[2]), g[1], show(g[3]))


# ------------------------------------------------------------------ history dependence
def tup(x):
    return tuple(tup(y) for y in x) if isinstance(x, list) else x


FRESH_SRC = r"""
import sys, json, importlib
sys.path.insert(0, %r)
sys.path.insert(0, %r)
C = importlib.import_module("props.C16")
out = []
for g in json.load(sys.stdin):
    g = C.tup(g)
    out.append(list(C.observe_is(g[1])) if g[0] == "is" else list(C.observe_cmp(g[1], g[2], g[3])))
json.dump(out, sys.stdout)
"""


def fresh_eval(goals, timeout=600):
    """Evaluate a goal sequence in a NEW Python process (empty caches); list of observations."""
    import json
    import subprocess
    env = dict(os.environ, PYTHONPATH=vf.REPO, PYTHONHASHSEED="0")
    src = FRESH_SRC % (os.path.join(vf.VERIF, "harness"), os.path.join(vf.VERIF, "gen"))
    p = subprocess.run([sys.executable, "-W", "ignore", "-c", src], input=json.dumps(goals), env=env,
                       stdout=subprocess.PIPE, stderr=subprocess.PIPE, text=True, timeout=timeout)
    if p.returncode:
        raise RuntimeError("fresh process failed: " + p.stderr[-1500:])
    return [tup(o) for o in json.loads(p.stdout)]


def shrink_history(prefix, g, alone):
    """Smallest goal sequence [h..., g] (run in fresh processes) on which g's result differs from
    its result when evaluated alone.  Binary search for the shortest prefix, then try the last
    goal of that prefix on its own."""
    lo, hi = 0, len(prefix)          # invariant: prefix[:hi] + [g] reproduces
    while lo < hi:
        mid = (lo + hi) // 2
        if fresh_eval(prefix[:mid] + [g])[-1] != alone:
            hi = mid
        else:
            lo = mid + 1
    if hi == 0:
        return [g]
    h = prefix[hi - 1]
    if fresh_eval([h, g])[-1] != alone:
        return [h, g]
    # several goals are needed: greedy removal inside the minimal prefix (bounded effort)
    seq = list(prefix[:hi])
    i, budget = 0, 40
    while i < len(seq) and budget > 0:
        cand = seq[:i] + seq[i + 1:]
        budget -= 1
        if fresh_eval(cand + [g])[-1] != alone:
            seq = cand
        else:
            i += 1
    return seq + [g]


def report_history(ctx, prefix, g, got, why):
    """`g` gave `got` after the goals of `prefix` in this process.  Decide, with fresh processes,
    whether that depends on the history; report a shrunk goal sequence.  Returns True when handled."""
    st = ctx._c16_hist
    st["suspects"] += 1
    ctx.count("history:suspect goals")
    if st["confirmed"] >= 2 or st["checked"] >= 6:
        return st["confirmed"] > 0     # enough replays written; the rest is counted
    st["checked"] += 1
    alone = fresh_eval([g])[-1]
    if alone == got:
        return False                   # not history dependent: a plain violation, handled by the caller
    seq = shrink_history(list(prefix), g, alone)
    res = fresh_eval(seq)
    st["confirmed"] += 1
    exp = py_ref(g[1]) if g[0] == "is" else None
    what = ("is/2 is not a function of its argument: in one process, after %s, the goal `%s` gives %s; evaluated alone it gives %s"
            % ("; ".join("`%s`" % show_goal(h) for h in seq[:-1]), show_goal(g), show_obs(res[-1]), show_obs(alone)))
    if exp is not None:
        what += " (ISO/SWI/YAP: %s)" % show_ref(exp)
    ctx.violation(what, {"goals": [show_goal(h) for h in seq], "goal_terms": seq, "observed_sequence": [list(r) for r in res],
                         "observed_alone": list(alone), "expected": show_ref(exp), "found_by": why,
                         "how": "evaluate the goals in this order with one DefaultEngine / one Python process"},
                  klass=None)
    return True


def twin_values():
    out = []
    for n in (-3, -1, 0, 1, 2, 3, 5, 12):
        out.append((I(n), F(float(n))))
    return out


def run_history(ctx):
    """Interleaved numerically-equal int/float operand tuples, both orders, one process/engine:
    the result (value and TYPE) of a goal must not depend on what was evaluated before."""
    ctx._c16_hist = {"suspects": 0, "checked": 0, "confirmed": 0}
    tw = twin_values()
    seq = []
    for f in ["*", "+", "-", "min", "max", "mod", "//", "**", "/"]:
        for (xi, xf) in tw:
            for (yi, yf) in tw[2:6]:
                seq += [("is", A(f, xf, yi)), ("is", A(f, xi, yi)), ("is", A(f, xi, yf)), ("is", A(f, xf, yf))]
    for f in ["-", "+", "abs", "sign", "float", "integer", "truncate", "floor", "ceiling", "round", "sqrt", "exp"]:
        for (xi, xf) in tw:
            seq += [("is", A(f, xf)), ("is", A(f, xi))]
    seq += [("is", A("*", I(12), I(5))), ("is", A("*", I(12), F(5.0))), ("is", A("+", A("*", F(2.0), I(3)), I(1))),
            ("is", A("+", A("*", I(2), I(3)), I(1))), ("cmp", "=:=", A("*", I(2), I(3)), F(6.0)), ("cmp", "<", A("*", F(2.0), I(3)), I(7))]
    # this process (caches as left by nothing: run_history is the first thing evaluated), forward order
    fwd = []
    for g in seq:
        fwd.append(observe_is(g[1]) if g[0] == "is" else observe_cmp(g[1], g[2], g[3]))
        ctx.case(("history", g), True, sample={"goal": show_goal(g), "observed": list(fwd[-1])})
        ctx.count("history:goals")
    try:
        rev = fresh_eval(list(reversed(seq)))[::-1]
    except (RuntimeError, OSError, ValueError) as ex:
        ctx.broken.append("harness:fresh-process evaluation failed (history test)")
        ctx.notes.append(str(ex))
        return
    ndiff = 0
    for i, g in enumerate(seq):
        exp = py_ref(g[1]) if g[0] == "is" else None
        if fwd[i] != rev[i]:
            ndiff += 1
            ctx.count("history:result differs between evaluation orders")
            # which of the two orders is the history-dependent one is decided by the alone-run inside
            if not report_history(ctx, seq[:i], g, fwd[i], "forward/reverse order comparison"):
                report_history(ctx, list(reversed(seq[i + 1:])), g, rev[i], "forward/reverse order comparison")
        elif exp is not None and not ref_agrees(exp, fwd[i]) and fwd[i][0] not in ("raw", "other"):
            judge_failure(ctx, seq[:i], g[1], fwd[i], exp)
    ctx.cov["history_goals"] = len(seq)
    ctx.cov["history_order_dependent_goals"] = ndiff


def judge_failure(ctx, prefix, e, o, exp):
    """A goal whose value or TYPE differs from the ISO reference."""
    g = ("is", e)
    try:
        if report_history(ctx, prefix, g, o, "ISO value/type reference"):
            return
    except (RuntimeError, OSError, ValueError) as ex:
        ctx.notes.append("fresh-process check failed: " + str(ex)[-500:])
    w, wo = e, o
    for c in shrink_candidates(e):
        co = observe_is(c)
        ce = py_ref(c)
        if ce is not None and not ref_agrees(ce, co):
            w, wo, exp = c, co, ce
            break
    report(ctx, ctx._c16_seen, classify_spec(w, wo),
           "X is %s gives %s; ISO/SWI/YAP give %s" % (show(w), show_obs(wo), show_ref(exp)),
           {"goal": "X is " + show(w), "expr": w, "observed": list(wo), "expected": show_ref(exp), "from": show(e)})


# ------------------------------------------------------------------ the arithmetic tie
def report(ctx, seen, klass, what, replay):
    """One violation per class (plus every unclassified one, up to a cap); the rest is counted."""
    ctx.count("violating:" + str(klass))
    n = seen.get(klass, 0)
    seen[klass] = n + 1
    if (klass is not None and n == 0) or (klass is None and n < 10):
        ctx.violation(what, replay, klass=klass)


def run_arith(ctx, info):
    rng = ctx.rng
    cases = grid_cases(ctx, info)
    n_rand = ctx.n(4000, 60000)
    for k in range(n_rand):
        r = rng.random()
        if r < 0.55:
            cases.append((rand_int_expr(rng, rng.choice([1, 2, 2, 3, 3, 4])), "rand_int"))
        elif r < 0.85:
            cases.append((rand_exact_expr(rng, rng.choice([1, 2, 2, 3])), "rand_exact"))
        else:
            cases.append((rand_cont_expr(rng), "rand_cont"))
    uniq, dedup = [], set()
    for e, fam in cases:
        if e not in dedup:
            dedup.add(e)
            uniq.append((e, fam))
    cases = uniq
    model_lines, spec_lines, metas = [], [], []
    pyjudge = []
    seen = ctx._c16_seen
    for e, fam in cases:
        if not coq_safe(e):
            ctx.count("skipped:shift count / exponent / intermediate too large for the model")
            continue
        o = observe_is(e)
        ctx.count("is:" + fam)
        ctx.count("obs:" + (o[0] if o[0] != "raw" else "raw:" + o[1]))
        nontrivial = e[0] == "app" and len(e[2]) > 0
        ctx.case(("is", e), nontrivial, sample={"goal": "X is " + show(e), "observed": list(o)})
        # property-level judge, part 1: errors must be ProbLog errors, results must be numbers
        if o[0] in ("raw", "other"):
            w, wo = e, o
            for c in shrink_candidates(e):
                co = observe_is(c)
                if co == o:
                    w, wo = c, co
                    break
            what = ("X is %s raises Python %s (not a ProbLogError)" % (show(w), wo[1]) if wo[0] == "raw"
                    else "X is %s gives %s" % (show(w), wo[1]))
            report(ctx, seen, classify_raw(w, wo), what,
                   {"goal": "X is " + show(w), "expr": w, "observed": list(wo), "from": show(e),
                    "expected": "a number or a ProbLogError (SWI: type_error / evaluation_error)"})
            if o[0] == "other":
                continue     # outside the model's observation type (reported above)
        exact = fam in ("int1", "flt1", "int2", "flt2", "mixed2", "rand_exact", "rand_int", "large2", "shiftpow") \
            and small_leaves(e) and not any(s[0] == "app" and s[1].strip("'") in ("/", "**", "^", "epsilon", "pi", "e") for s in subterms(e))
        exp = py_ref(e)
        if exp is not None and not ref_agrees(exp, o) and o[0] != "raw":
            pyjudge.append((len(HISTORY) - 1, e, o, exp))
        model_lines.append("%s %s %s" % ("x" if exact else "m", to_tok(e), obs_tok(o)))
        spec_lines.append("s %s %s" % (to_tok(e), obs_tok(o)))
        metas.append((e, o, fam))
    ctx.log("arith: %d goals observed; running the extracted model and ISO reference" % len(metas))
    # property-level judge (Python reference: value and result type); needs no Coq artefact
    ctx.cov["arith_python_reference_violating_goals"] = len(pyjudge)
    hist = list(HISTORY)
    for hi, e, o, exp in pyjudge[:200]:
        judge_failure(ctx, hist[:hi], e, o, exp)
    for hi, e, o, exp in pyjudge[200:]:
        ctx.count("violating:(not examined, after 200 judged failures)")
    try:
        bad_model = ask(ctx, model_lines)
        bad_spec = ask(ctx, spec_lines)
    except RuntimeError as ex:
        ctx.broken.append("correspondence:C16 extracted arithmetic model does not build / run")
        ctx.notes.append(str(ex))
        return
    already = set(e for _, e, _, _ in pyjudge)
    bad_spec = [i for i in bad_spec if metas[i][0] not in already]
    ctx.cov["arith_model_vs_engine_agree"] = len(metas) - len(bad_model)
    ctx.cov["arith_spec_checked"] = len(metas)
    for i in bad_model[:8]:
        e, o, fam = metas[i]
        ctx.broken.append("correspondence:GenArithTable/ModelEval vs engine on X is %s (observed %r)" % (show(e), o))
    if len(bad_model) > 8:
        ctx.broken.append("correspondence: ... and %d more arithmetic goals" % (len(bad_model) - 8))
    # property-level judge, part 2: the ISO reference
    shr_lines, shr_meta = [], []
    for i in bad_spec:
        e, o, fam = metas[i]
        for c in shrink_candidates(e):
            co = o if c == e else observe_is(c)
            if co[0] == "other":
                continue
            shr_lines.append("s %s %s" % (to_tok(c), obs_tok(co)))
            shr_meta.append((i, c, co))
    bad_shr = set(ask(ctx, shr_lines))
    first = {}
    for j, (i, c, co) in enumerate(shr_meta):
        if j in bad_shr and i not in first:
            first[i] = (c, co)
    done = set()
    for i in bad_spec:
        e, o, fam = metas[i]
        w, wo = first.get(i, (e, o))
        if (w, wo) in done:
            continue
        done.add((w, wo))
        report(ctx, seen, classify_spec(w, wo),
               "X is %s gives %s; ISO/SWI/YAP give %s" % (show(w), wo[1] if len(wo) > 1 else wo[0], spec_expected(w)),
               {"goal": "X is " + show(w), "expr": w, "observed": list(wo), "expected": spec_expected(w), "from": show(e)})
    ctx.cov["arith_spec_violating_goals"] = len(bad_spec)
    ctx.cov["arith_spec_distinct_minimal_witnesses"] = len(done)


def run_cmp(ctx):
    rng = ctx.rng
    seen = ctx._c16_seen
    vals = [I(a) for a in (-3, -1, 0, 1, 2, 2 ** 64)] + [F(x) for x in (-1.5, 0.0, 1.0, 2.0, 2.5)]
    cases = []
    for op in CMP:
        for a in vals:
            for b in vals:
                cases.append((op, a, b))
        cases += [(op, A("//", I(1), I(0)), I(1)), (op, I(1), A("foo")), (op, VAR, I(1)), (op, I(1), A("+", VAR, I(1))),
                  (op, A("/\\", F(1.5), I(1)), A("//", I(1), I(0))), (op, A("nan"), I(1)), (op, A("inf"), A("inf")),
                  (op, A("//", I(-7), I(2)), I(-3))]
    for k in range(ctx.n(1500, 15000)):
        io = rng.random() < 0.5
        cases.append((rng.choice(list(CMP)), rand_expr(rng, rng.choice([1, 2, 3]), io), rand_expr(rng, rng.choice([0, 1, 2]), io)))
    lines, metas = [], []
    for op, a, b in cases:
        if not (coq_safe(a) and coq_safe(b)):
            continue
        o = observe_cmp(op, a, b)
        ctx.count("cmp:" + op)
        ctx.case(("cmp", op, a, b), True, sample={"goal": "%s %s %s" % (show(a), op, show(b)), "observed": list(o)})
        if o[0] == "err" and o[1][0] in ("raw", "other"):
            kl = None
            for side in (a, b):
                so = observe_is(side)
                if so == o[1]:
                    for c in shrink_candidates(side):
                        if observe_is(c) == so:
                            kl = classify_raw(c, so)
                            break
                    break
            report(ctx, seen, kl, "%s %s %s raises Python %s (not a ProbLogError)" % (show(a), op, show(b), o[1][1]),
                   {"goal": "%s %s %s" % (show(a), op, show(b)), "observed": list(o[1])})
            if o[1][0] == "other":
                continue
        lines.append("c %s %s %s %s" % (CMP_TOK[op], to_tok(a), to_tok(b), obsb_tok(o)))
        metas.append((op, a, b, o))
    try:
        bad = ask(ctx, lines)
    except RuntimeError as ex:
        ctx.broken.append("correspondence:C16 extracted comparison model does not run")
        ctx.notes.append(str(ex))
        return
    ctx.cov["cmp_model_vs_engine_agree"] = len(metas) - len(bad)
    for i in bad[:5]:
        op, a, b, o = metas[i]
        ctx.broken.append("correspondence:cmp_m vs engine on %s %s %s (observed %r)" % (show(a), op, show(b), o))


def run_probes(ctx):
    """Targeted probes: canonical witnesses of the known deviation classes (reported first, so
    the replay of a class is its simplest input) and deviations the grids cannot express."""
    seen = ctx._c16_seen
    for e in [A("//", I(-7), I(2)), A("/\\", F(1.5), I(1)), A("exp", I(1000)), A("**", I(-8), F(0.5))]:
        o = observe_is(e)
        ctx.case(("probe", e), True)
        if o[0] in ("raw", "other"):
            report(ctx, seen, classify_raw(e, o), "X is %s %s" % (show(e), "raises Python %s (not a ProbLogError)" % o[1] if o[0] == "raw" else "gives " + o[1]),
                   {"goal": "X is " + show(e), "expr": e, "observed": list(o), "expected": "a number or a ProbLogError"})
        elif o[0] == "int" and spec_expected(e) != o[1] and isinstance(spec_expected(e), int):
            report(ctx, seen, classify_spec(e, o), "X is %s gives %s; ISO/SWI/YAP give %s" % (show(e), o[1], spec_expected(e)),
                   {"goal": "X is " + show(e), "expr": e, "observed": list(o), "expected": spec_expected(e)})
    # strings as operands
    for e in [A("+", ("str", "abc"), I(1)), A("*", F(1.5), ("str", "a")), A("-", ("str", "a"))]:
        o = observe_is(e)
        ctx.case(("probe", e), True)
        if o[0] in ("raw", "other"):
            report(ctx, seen, classify_raw(e, o), "X is %s raises Python %s (not a ProbLogError)" % (show(e), o[1]),
                   {"goal": "X is " + show(e), "observed": list(o)})
    # Constant() rounds every float result to 15 decimals
    for e, exact in [(A("epsilon"), Fraction(1, 2 ** 52)), (A("**", I(2), I(-60)), Fraction(1, 2 ** 60))]:
        o = observe_is(e)
        ctx.case(("probe", e), True)
        if o[0] == "flt" and Fraction(o[1], o[2]) == 0:
            report(ctx, seen, "is-float-result-rounded-to-15-decimals",
                   "X is %s gives 0.0 (exact value %s): is/2 results are rounded to 15 decimals by Constant()" % (show(e), float(exact)),
                   {"goal": "X is " + show(e), "observed": list(o), "expected": float(exact)})
    # recorded only (references disagree or the difference is the result type, DESIGN 6.4)
    rec = {}
    for e in [A("/", I(4), I(2)), A("**", I(2), I(3)), A("**", I(2), I(-1)), A("^", I(2), I(-1)), A("integer", F(2.5)),
              A("integer", F(2.7)), A("round", F(2.5)), A("round", F(-2.5)), A("sign", F(-2.5)), A("float_integer_part", F(-2.5)),
              A("min", I(1), F(1.0)), A("max", I(1), F(1.0)), A("<<", I(4), I(-1)), A("//", F(1.5), I(1)), A("mod", F(1.5), I(1)),
              A("truncate", I(3))]:
        rec["X is " + show(e)] = list(observe_is(e))
    ctx.cov["recorded_only"] = rec


def compile_findings(ctx):
    with vf.BuildLock():
        rc, out = vf.sh(["coqc"] + vf.COQFLAGS + ["-w", "none", "theories/C16/Findings.v"], cwd=vf.COQ, timeout=300)
    ctx.cov["findings_witnesses_compile"] = (rc == 0)
    if rc:
        ctx.notes.append("Findings.v no longer compiles (a known defect no longer reproduces in the model): " + out[-800:])


def generate(ctx):
    import c16_modes
    mtext, modes = c16_modes.translate(vf.REPO)
    ctx.generate("C16/GenModes.v", mtext)
    ctx.cov["mode_tables"] = modes
    text, info = c16_arith.translate(vf.REPO)
    ctx.generate("C16/GenArithTable.v", text)
    ctx._c16_info = info
    ctx.cov["translator"] = {"keys": len(info["keys"]), "opaque_libm": sorted("%s/%d" % k for k in info["opaque"]),
                             "duplicate_keys": sorted("%s/%d" % d[0] for d in info["duplicates"]),
                             "compute_function_catches": info["caught"]}
    return info


def run(ctx):
    ctx.cov["rule"] = ("X is Expr through DefaultEngine().query for: every key of the function table on all pairs of integers -8..8, "
                       "large integers (2^31..2^100), selected dyadic floats and mixed pairs; random expression trees of depth <=4 "
                       "(integer-only and mixed); the six comparisons on a value grid and random expressions; every call mode of "
                       "between/succ/plus/length/functor/arg/=../atom_number and the type tests on a term grid. "
                       "Non-trivial = a function application (not a bare constant); distinct = distinct goals.")
    ctx.assumptions += ["Python int = Z; Python float = the exact rational it denotes, operations exact (compared exactly when the result "
                        "is representable with few bits, else within 1e-15 abs + 2^-50 rel); -0.0, inf, nan arithmetic not modelled",
                        "libm functions (exp, log, sin, ..., atan2, pow) are named opaque entries: kinds of outcome checked, no value theorem",
                        "engine.functions (user-defined arithmetic functions) is empty, as in DefaultEngine()",
                        "reference = ISO 13211-1 integer semantics as written in IsoArith.v (SWI-Prolog / YAP not installed)"]
    # The judge below must run whatever happens to the translators / proofs: a code change the
    # translator does not understand is recorded as a broken obligation, and the real engine is
    # still judged against the ISO reference.
    ctx._c16_seen = {}
    try:
        run_history(ctx)               # first: nothing has been evaluated in this process yet
    except Exception as ex:            # noqa
        import traceback
        ctx.broken.append("harness:history test raised %s" % type(ex).__name__)
        ctx.notes.append(traceback.format_exc())
    info = None
    try:
        info = generate(ctx)
    except Exception as ex:            # noqa  (TranslationError of either translator, OSError, SyntaxError)
        ctx.broken.append("translator:%s: %s" % (type(ex).__name__, str(ex)[:300]))
        ctx.notes.append("translator failed; Gen*.v are stale, proofs NOT re-checked against the current source: " + str(ex)[:1500])
    if info is not None:
        ok = ctx.prove("C16/Props.v")
        if ok and ctx.tier == "thorough":
            ctx.coqchk("PL.C16.Props")
        compile_findings(ctx)
    else:
        # obligations exist but cannot be discharged for this source
        import re as _re
        with open(os.path.join(vf.THEORIES, "C16", "Props.v")) as fh:
            ctx.cov["obligations"] += len(_re.findall(r"(?m)^\s*Theorem\s", vf.strip_coq_comments(fh.read())))
        info = live_table_info()
        ctx.cov["translator"] = {"failed": True, "keys_from_live_table": len(info["keys"])}
    if ctx.replay:
        r = ctx.replay.get("replay", {})
        if "goal_terms" in r:
            seq = [tup(g) for g in r["goal_terms"]]
            ctx.log("replay (fresh process): %r" % (list(zip([show_goal(g) for g in seq], fresh_eval(seq))),))
        if "expr" in r:
            e = tup(r["expr"])
            ctx.log("replay: X is %s -> %r (recorded %r)" % (show(e), observe_is(e), r.get("observed")))
    for step in (lambda: run_probes(ctx), lambda: run_arith(ctx, info), lambda: run_cmp(ctx), lambda: run_builtin_part(ctx)):
        try:
            step()
        except Exception as ex:        # noqa: one failing part must not hide the others
            import traceback
            ctx.broken.append("harness:%s in a part of the C16 check" % type(ex).__name__)
            ctx.notes.append(traceback.format_exc())


def run_builtin_part(ctx):
    import importlib
    importlib.import_module("c16_builtins").run_builtins(ctx)


def live_table_info():
    """Fallback when the translator refuses the source: the keys of the live table."""
    import math
    from problog.logic import _arithmetic_functions
    keys = [k for k in _arithmetic_functions if isinstance(k, tuple) and len(k) == 2 and isinstance(k[0], str) and k[1] in (0, 1, 2)]
    opaque = [k for k in keys if getattr(_arithmetic_functions[k], "__module__", None) == "math"
              and _arithmetic_functions[k] not in (math.floor, math.ceil, math.trunc)]
    return {"keys": keys, "opaque": opaque, "duplicates": [], "caught": []}
