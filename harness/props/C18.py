"""C18 — term equality is an equivalence consistent with hashing (problog/logic.py).

Model: coq/theories/C18/ModelTermEq.v (hand model of Term.__eq__/__hash__, the overrides of
Var/Constant/AnnotatedDisjunction, python's reflected-operand rule, str() on the operator-free
fragment, unify_value on ground terms).  Tie:
  * generate(): fail-closed AST reading of the class table of problog/logic.py (which classes
    subclass Term, which override __eq__/__hash__, the exact bodies of the small overrides,
    whether class Not has the repaired __hash__) -> GenCfg.v;
  * differential correspondence on bounded-exhaustive + random + parser-built terms:
    `==` (both directions), str(), the tuple handed to hash() (captured by shadowing the name
    `hash` in the problog.logic module namespace of this process), unify_value on ground pairs,
    all compared with the model inside coqc (vm_compute);
  * the judge is the property itself (equivalence laws on pairs/triples, equal => equal hash,
    dict/set lookups, ground == <=> unifies), also through the engine builtins ==/2 and =/2.
"""
import ast
import builtins
import math
import os

import vf

META = {
    "id": "C18",
    "level": "proof",
    "technique": "Coq proofs (equivalence laws, equal => same hash key, ground == <=> unify-identical, all under "
                 "explicit guards) over a hand model of Term.__eq__/__hash__ and its overrides + fail-closed AST "
                 "reading of the class/override table + differential correspondence (==, str, hash-key tuples, unify)",
    "design_ref": "DESIGN.md §5 C18",
    "text": "Theorems for every pair/triple of constructor-domain terms (no size bound) about a Gallina model of "
            "problog.logic equality, hashing and printing; guards exclude exactly the classes of pairs on which the "
            "pinned code violates the property (witnesses in Findings.v); the model is tied to /repo on every run.",
    "note": "Trusted: Coq kernel + vm_compute; hand model of Term.__eq__/__hash__/__repr__ (correspondence is sampled); "
            "python's hash() is a function of the captured key; python's str() of ints/floats is injective "
            "(nan and -0.0 excluded); CPython's reflected-operand rule for rich comparisons.",
}

HEADER = """From Coq Require Import ZArith String List Bool.
From PL.C18 Require Import ModelTermEq GenCfg.
Import ListNotations.
Open Scope string_scope.
Definition NH := not_hash_ignores_functor.
Definition TA := typed_atoms.
"""

CLASSES = ("Term", "AggTerm", "Var", "Constant", "Clause", "Or", "And", "Not")
COQ_CLS = {"Term": "CTerm", "AggTerm": "CAgg", "Var": "CVar", "Constant": "CConst",
           "Clause": "CClause", "Or": "COr", "And": "CAnd", "Not": "CNot"}


# ====================================================================== generate (fail-closed)
def _src(fn_src):
    """ast.dump of the statements of a snippet (docstrings dropped)."""
    return [ast.dump(s) for s in ast.parse(fn_src).body]


def _body_dump(fn):
    body = list(fn.body)
    if body and isinstance(body[0], ast.Expr) and isinstance(getattr(body[0], "value", None), ast.Constant) \
            and isinstance(body[0].value.value, str):
        body = body[1:]
    return [ast.dump(s) for s in body]


EXPECTED_BODIES = {
    ("Var", "__eq__"): "return str(other) == str(self)",
    ("Var", "__hash__"): "return hash(self.name)",
    ("Constant", "__eq__"): "return str(self) == str(other)",
    ("Constant", "__hash__"): "return hash(self.functor)",
    ("Object", "__eq__"): "return id(self) == id(other)",
    ("Object", "__hash__"): "return hash(id(self.functor))",
    ("AnnotatedDisjunction", "__hash__"): "return super().__hash__()",
    ("AnnotatedDisjunction", "__eq__"):
        "return (type(self) == type(other) and self.heads == other.heads and self.body == other.body)",
}
NOT_HASH_REPAIRED = 'return hash(("\\\\+", self.child))'
# fixes/C18-constant-var-eq.patch
TYPED_BODIES = {
    ("Var", "__eq__"): """
if isinstance(other, Term):
    return isinstance(other, Var) and self.name == other.name
return str(other) == str(self)
""",
    ("Constant", "__eq__"): """
if isinstance(other, Term):
    return (isinstance(other, Constant) and type(self.functor) == type(other.functor)
            and self.functor == other.functor)
return str(self) == str(other)
""",
}


def read_class_table():
    path = os.path.join(vf.REPO, "problog", "logic.py")
    with open(path) as f:
        tree = ast.parse(f.read())
    classes = {c.name: c for c in tree.body if isinstance(c, ast.ClassDef)}
    if "Term" not in classes:
        raise RuntimeError("C18 translator: class Term not found in logic.py")
    family = {}
    for name, c in classes.items():
        bases = [b.id if isinstance(b, ast.Name) else ast.dump(b) for b in c.bases]
        if name == "Term":
            if bases != ["object"]:
                raise RuntimeError("C18 translator: unexpected bases of Term: %r" % bases)
            family[name] = bases
        elif any(b in ("Term", "AggTerm", "Var", "Constant", "Object", "Clause", "AnnotatedDisjunction",
                       "Or", "And", "Not") for b in bases):
            if bases != ["Term"]:
                raise RuntimeError("C18 translator: class %s has bases %r; the model assumes every class of the "
                                   "Term family is a direct subclass of Term" % (name, bases))
            family[name] = bases
    expect = {"Term", "AggTerm", "Var", "Constant", "Object", "Clause", "AnnotatedDisjunction", "Or", "And", "Not"}
    if set(family) != expect:
        raise RuntimeError("C18 translator: Term family is %r, the model knows %r" % (sorted(family), sorted(expect)))
    nh = False
    typed = set()
    for name in family:
        methods = {m.name: m for m in classes[name].body if isinstance(m, ast.FunctionDef)}
        for special in ("__eq__", "__hash__", "__ne__", "__str__", "__bool__", "__len__"):
            has = special in methods
            if name == "Term":
                if special in ("__eq__", "__hash__") and not has:
                    raise RuntimeError("C18 translator: Term.%s missing" % special)
                if special in ("__ne__", "__bool__", "__len__", "__str__") and has:
                    raise RuntimeError("C18 translator: Term.%s is defined; not modelled" % special)
                continue
            key = (name, special)
            if special == "__str__":
                # Constant/Object print str(self.functor); nothing else may override __str__
                if has != (name in ("Constant", "Object")):
                    raise RuntimeError("C18 translator: unexpected __str__ situation in %s" % name)
                if has and _body_dump(methods[special]) != _src("return str(self.functor)"):
                    raise RuntimeError("C18 translator: %s.__str__ changed" % name)
                continue
            if key in EXPECTED_BODIES:
                if not has:
                    raise RuntimeError("C18 translator: %s.%s disappeared; the model must be revised" % key)
                dump = _body_dump(methods[special])
                if key in TYPED_BODIES and dump == _src(TYPED_BODIES[key]):
                    typed.add(key)
                elif dump != _src(EXPECTED_BODIES[key]):
                    raise RuntimeError("C18 translator: body of %s.%s is not the modelled one: %s"
                                       % (name, special, ast.unparse(methods[special])))
            elif key == ("Not", "__hash__"):
                if has:
                    if _body_dump(methods[special]) != _src(NOT_HASH_REPAIRED):
                        raise RuntimeError("C18 translator: Not.__hash__ has an unknown body: %s"
                                           % ast.unparse(methods[special]))
                    nh = True
            elif has:
                raise RuntimeError("C18 translator: %s.%s is defined but not modelled" % key)
    # Not.__init__ must keep dropping op_spec (the printer model relies on nested Not printing generically)
    if typed and typed != set(TYPED_BODIES):
        raise RuntimeError("C18 translator: only one of Var.__eq__ / Constant.__eq__ is repaired (%r); the model "
                           "knows both-pinned and both-repaired" % sorted(typed))
    return {"nh": nh, "ta": bool(typed)}


def generate(ctx):
    cfg = read_class_table()
    text = ("(* GENERATED by harness/props/C18.py from the AST of problog/logic.py (class table of the Term family\n"
            "   checked against the model's dispatch table; bodies of the Var/Constant/Object/AnnotatedDisjunction\n"
            "   overrides checked verbatim). *)\n"
            "Definition not_hash_ignores_functor : bool := %s.\n"
            "Definition typed_atoms : bool := %s.\n"
            % ("true" if cfg["nh"] else "false", "true" if cfg["ta"] else "false"))
    ctx.generate("C18/GenCfg.v", text)
    ctx.cov["not_hash_repaired"] = cfg["nh"]
    ctx.cov["var_constant_eq_repaired"] = cfg["ta"]
    return cfg


# ====================================================================== blueprints <-> objects <-> Coq
class Skip(Exception):
    """term outside the modelled domain (not an error)"""


def N():
    return ("N",)


def I(z):
    return ("I", z)


def T(cls, val, *args):
    return ("T", cls, val, tuple(args))


def AD(heads, body):
    return ("AD", tuple(heads), body)


def s_(x):
    return ("s", x)


def atom(name):
    return T("Term", s_(name))


def K(v):
    if type(v) is str:
        return T("Constant", ("s", v))
    if type(v) is int:
        return T("Constant", ("i", v))
    return T("Constant", ("f", v))


def V(name):
    return T("Var", s_(name))


def F(name, *args):
    return T("Term", s_(name), *args)


def NOT(f, c):
    return T("Not", s_(f), c)


def AND(a, b):
    return T("And", s_(","), a, b)


def OR(a, b):
    return T("Or", s_(";"), a, b)


def CL(a, b):
    return T("Clause", s_(":-"), a, b)


def LIST(elems, tail=None):
    cur = atom("[]") if tail is None else tail
    for e in reversed(elems):
        cur = F(".", e, cur)
    return cur


def build(bp, probs=False):
    """blueprint -> object through the public constructors"""
    from problog.logic import Term, AggTerm, Var, Constant, Clause, Or, And, Not, AnnotatedDisjunction
    k = bp[0]
    if k == "N":
        return None
    if k == "I":
        return bp[1]
    if k == "AD":
        heads = [build(h) for h in bp[1]]
        if probs:
            heads = [h.with_probability(Constant(round(1.0 / (len(heads) + 1), 3))) for h in heads]
        return AnnotatedDisjunction(heads, build(bp[2]))
    _, cls, val, args = bp
    a = [build(x) for x in args]
    v = val[1]
    if cls == "Term":
        return Term(v, *a)
    if cls == "AggTerm":
        return AggTerm(v, *a)
    if cls == "Var":
        assert not a
        return Var(v)
    if cls == "Constant":
        assert not a
        return Constant(v)
    if cls == "Clause":
        return Clause(*a)
    if cls == "Or":
        return Or(*a)
    if cls == "And":
        return And(*a)
    if cls == "Not":
        return Not(v, *a)
    raise AssertionError(cls)


def decode_val(v):
    if type(v) is str:
        if not all(32 <= ord(c) < 127 for c in v):
            raise Skip("non-ascii functor")
        return ("s", v)
    if type(v) is int:
        return ("i", v)
    if type(v) is float:
        if math.isnan(v) or math.isinf(v) or (v == 0.0 and math.copysign(1.0, v) < 0):
            raise Skip("nan/inf/-0.0")
        return ("f", v)
    raise Skip("functor of type %s" % type(v).__name__)


def decode(obj, flags, top=True):
    """object -> blueprint (fail-closed on anything the model does not know); flags collects
    'ops' (operator spec present) and 'prob' (probability annotation present)."""
    from problog.logic import Term, AggTerm, Var, Constant, Clause, Or, And, Not, AnnotatedDisjunction
    if obj is None:
        return N()
    if type(obj) is int:
        return I(obj)
    names = {Term: "Term", AggTerm: "AggTerm", Var: "Var", Constant: "Constant", Clause: "Clause", Or: "Or",
             And: "And", Not: "Not"}
    if type(obj) is AnnotatedDisjunction:
        if not top:
            raise Skip("nested AD")
        if type(obj.args[0]) is not list or obj.args[0] is not obj.heads:
            raise Skip("AD heads")
        heads = [decode(h, flags, False) for h in obj.heads]
        body = decode(obj.body, flags, False)
        for h in heads + [body]:
            if h[0] == "I" or (h[0] == "T" and h[1] in ("Var", "Constant")):
                raise Skip("AD with Var/Constant/int element")
        if obj.probability is not None:
            flags.add("prob")
        return AD(heads, body)
    if type(obj) not in names:
        raise Skip("class %s" % type(obj).__name__)
    cls = names[type(obj)]
    val = decode_val(obj.functor)
    if cls != "Constant" and val[0] != "s":
        raise Skip("non-str functor")
    if cls in ("Var", "Constant") and obj.args:
        raise Skip("Var/Constant with args")
    if cls in ("Clause", "Or", "And") and (len(obj.args) != 2 or val[1] != {"Clause": ":-", "Or": ";", "And": ","}[cls]):
        raise Skip("malformed %s" % cls)
    if cls == "Not" and len(obj.args) != 1:
        raise Skip("malformed Not")
    if obj.op_spec is not None:
        flags.add("ops")
    if obj.probability is not None:
        flags.add("prob")
    if cls == "Clause" and isinstance(obj.args[0], Term) and obj.args[0].functor == "_directive":
        flags.add("ops")   # printed specially; keep it out of the repr fragment unless exactly modelled
    return T(cls, val, *[decode(a, flags, False) for a in obj.args])


def coq_str(s):
    return '"' + s.replace('"', '""') + '"'


def coq_val(val):
    if val[0] == "s":
        return "(VStr %s)" % coq_str(val[1])
    if val[0] == "i":
        return "(VInt (%d)%%Z)" % val[1]
    return "(VFloat %s)" % coq_str(repr(val[1]))


def coq_term(bp):
    k = bp[0]
    if k == "N":
        return "PNone"
    if k == "I":
        return "(PInt (%d)%%Z)" % bp[1]
    if k == "AD":
        return "(PAD [%s] %s)" % ("; ".join(coq_term(h) for h in bp[1]), coq_term(bp[2]))
    _, cls, val, args = bp
    return "(PNode %s %s [%s])" % (COQ_CLS[cls], coq_val(val), "; ".join(coq_term(a) for a in args))


def bp_size(bp):
    if bp[0] in ("N", "I"):
        return 1
    if bp[0] == "AD":
        return 1 + sum(bp_size(h) for h in bp[1]) + bp_size(bp[2])
    return 1 + sum(bp_size(a) for a in bp[3])


def top_cls(bp):
    return "AD" if bp[0] == "AD" else bp[1]


def strcls(bp):
    return bp[0] == "T" and bp[1] in ("Var", "Constant")


def is_ground_bp(bp):
    if bp[0] != "T":
        return False
    return bp[1] != "Var" and all(is_ground_bp(a) for a in bp[3])


def map_bp(bp, fn):
    """rebuild a blueprint bottom-up; fn(cls, val, args) -> (cls, val, args)"""
    if bp[0] in ("N", "I"):
        return bp
    if bp[0] == "AD":
        return AD([map_bp(h, fn) for h in bp[1]], map_bp(bp[2], fn))
    _, cls, val, args = bp
    cls, val, args = fn(cls, val, tuple(map_bp(a, fn) for a in args))
    return ("T", cls, val, tuple(args))


def norm_not(bp):
    return map_bp(bp, lambda c, v, a: (c, ("s", "\\+") if c == "Not" else v, a))


def norm_quotes(bp):
    def fn(c, v, a):
        if v[0] == "s" and c not in ("Clause", "Or", "And"):
            return c, ("s", v[1].strip("'")), a
        return c, v, a
    return map_bp(bp, fn)


def has_quotes(bp):
    if bp[0] != "T":
        return False
    v = bp[2]
    return (v[0] == "s" and v[1].strip("'") != v[1]) or any(has_quotes(a) for a in bp[3])


def shape(bp):
    if bp[0] != "T":
        return bp[0]
    return (bp[1], bp[2][0], tuple(shape(a) for a in bp[3]))


# ====================================================================== observing the implementation
class Spy(object):
    def __init__(self):
        self.rec = None

    def __call__(self, x):
        if self.rec is not None:
            self.rec.append(x)
        return builtins.hash(x)


_SPY = Spy()


def install_spy():
    import problog.logic as L
    L.hash = _SPY      # shadows the builtin for the code of problog/logic.py in this process only


def hash_key(obj):
    """the value obj.__hash__ hands to hash(), with Term elements replaced by their own keys"""
    from problog.logic import Term
    if isinstance(obj, Term):
        try:
            obj._Term__hash = None
        except AttributeError:
            pass
        _SPY.rec = []
        try:
            type(obj).__hash__(obj)
            rec = _SPY.rec
        finally:
            _SPY.rec = None
        if not rec:
            raise RuntimeError("hash() was not called by %s.__hash__" % type(obj).__name__)
        return canon_key(rec[0])
    return canon_key(obj)


def canon_key(x):
    from problog.logic import Term
    if isinstance(x, Term):
        return hash_key(x)
    if x is None:
        return ("n",)
    if type(x) is str:
        return ("s", x)
    if type(x) is int:
        return ("i", x)
    if type(x) is float:
        return ("f", repr(x))
    if type(x) is tuple:
        return ("t", tuple(canon_key(e) for e in x))
    raise Skip("hash key element of type %s" % type(x).__name__)


def coq_key(k):
    if k[0] == "n":
        return "HKnone"
    if k[0] == "s":
        return "(HKstr %s)" % coq_str(k[1])
    if k[0] == "i":
        return "(HKint (%d)%%Z)" % k[1]
    if k[0] == "f":
        return "(HKfloat %s)" % coq_str(k[1])
    return "(HKtuple [%s])" % "; ".join(coq_key(e) for e in k[1])


def unifies(a, b):
    from problog.engine_unify import unify_value, UnifyError
    try:
        unify_value(a, b, {})
        return True
    except UnifyError:
        return False


class Item(object):
    """one term under test: object + blueprint + unary observations"""
    __slots__ = ("obj", "bp", "flags", "src", "s", "key", "h", "idx")

    def __init__(self, obj, src):
        self.obj = obj
        self.src = src
        self.flags = set()
        self.bp = decode(obj, self.flags)
        if self.bp[0] not in ("T", "AD"):
            raise Skip("not a Term object")
        try:
            self.s = str(obj)
        except Exception as e:      # e.g. Clause(<int head>, ...): Clause.__repr__ needs head.functor; not a C18 matter
            raise Skip("str-raises:%s" % type(e).__name__)
        if not all(32 <= ord(c) < 127 for c in self.s):
            raise Skip("non-ascii str")
        self.key = hash_key(obj)
        self.h = hash(obj)
        self.idx = None

    def in_repr_fragment(self):
        return not self.flags and self.bp[0] == "T"


# ====================================================================== classification of violations
def classify_hash(a, b):
    if strcls(a.bp) != strcls(b.bp):
        k = a.bp if strcls(a.bp) else b.bp
        return "constant-vs-term-hash" if k[1] == "Constant" else "var-vs-term-hash"
    if strcls(a.bp):
        def ty(bp):
            return "s" if bp[1] == "Var" else bp[2][0]
        return "constant-value-type-hash" if ty(a.bp) != ty(b.bp) else None
    if norm_not(a.bp) != a.bp or norm_not(b.bp) != b.bp:
        try:
            x, y = build(norm_not(a.bp)), build(norm_not(b.bp))
            if x == y and hash(x) == hash(y):
                return "not-functor-hash"
        except Exception:
            return None
    return None


def classify_sym(a, b):
    """a == b differs from b == a"""
    for x, y in ((a, b), (b, a)):
        if strcls(x.bp) and not strcls(y.bp) and top_cls(y.bp) != "Term" and x.s == y.s:
            return "subclass-vs-constant-asymmetric"
    return None


def classify_trans(a, b, c):
    ks = [strcls(x.bp) for x in (a, b, c)]
    if len(set(ks)) > 1:
        return "constant-str-bridge-transitivity"
    return None


def classify_unify(a, b, eq, un):
    if un and not eq:
        if has_quotes(a.bp) or has_quotes(b.bp):
            try:
                if build(norm_quotes(a.bp)) == build(norm_quotes(b.bp)):
                    return "quoted-atom-eq-vs-unify"
            except Exception:
                pass
        if shape(norm_quotes(a.bp)) != shape(norm_quotes(b.bp)):
            return "class-tag-eq-vs-unify"
        return None
    if eq and not un:
        if strcls(a.bp) or strcls(b.bp):
            def ty(bp):
                return (bp[1], "s" if bp[1] == "Var" else bp[2][0])
            # narrow: the string comparison bridged two different classes / value types (Constant('f(a)') vs f(a),
            # Constant(1) vs Constant('1')); two Constants of the same python type that are == but do not unify
            # are NOT this class
            if top_cls(a.bp) != top_cls(b.bp) or ty(a.bp) != ty(b.bp):
                return "constant-str-eq-vs-unify"
            return None
        if norm_not(a.bp) != a.bp or norm_not(b.bp) != b.bp:
            if unifies(build(norm_not(a.bp)), build(norm_not(b.bp))):
                return "not-functor-eq-vs-unify"
        return None
    return None


class Findings(object):
    """smallest witness + count per (kind, class)"""

    def __init__(self):
        self.best = {}
        self.count = {}

    def add(self, kind, klass, size, what, replay):
        k = (kind, klass)
        self.count[k] = self.count.get(k, 0) + 1
        if k not in self.best or size < self.best[k][0]:
            self.best[k] = (size, what, replay)

    def report(self, ctx):
        for (kind, klass) in sorted(self.best, key=lambda k: (str(k[1]), k[0])):
            size, what, replay = self.best[(kind, klass)]
            replay = dict(replay)
            replay["occurrences_this_run"] = self.count[(kind, klass)]
            ctx.count("violation:%s:%s" % (kind, klass), self.count[(kind, klass)])
            ctx.violation(what, replay, klass=klass)


def desc(it):
    if it.bp[0] == "T" and it.bp[1] == "Constant":
        return "Constant(%r) printed %r [%s]" % (it.bp[2][1], it.s, it.src)
    return "%s %r [%s]" % (top_cls(it.bp), it.s, it.src)


# ====================================================================== pools
def exhaustive_pool():
    a, b, qa = atom("a"), atom("b"), atom("'a'")
    base = [a, qa, b, atom("X"), atom("1"), atom("[]"), atom("'[]'"),
            K(1), K("1"), K(1.0), K("1.0"), K(2), K("a"), K("'a'"), K('"a"'), K("X"), K(-1), K(0.5),
            V("X"), V("Y"), V("a"), V("1")]
    inner = [a, qa, K(1), K("1"), K("a"), V("X"), N(), I(0), I(-1)]
    pool = list(base)
    for x in inner:
        pool.append(F("f", x))
    for x in (a, K(1), V("X")):
        for y in (a, K(1), V("X"), I(0)):
            pool.append(F("f", x, y))
    for x in (a, b, K(1)):
        pool.append(NOT("\\+", x))
        pool.append(NOT("not", x))
        pool.append(F("f", NOT("\\+", x)))
        pool.append(F("f", NOT("not", x)))
    # float constants that differ only beyond the 15th decimal (Constant.FLOAT_PRECISION): arithmetic results vs literals
    for x, y in FLOAT_TWINS:
        pool += [K(x), K(y), F("f", K(x)), F("f", K(y)), LIST([K(x)]), LIST([K(y)])]
    pool += [K(0.25), K("0.3"), atom("0.3")]
    pool += [F("\\+", a), F("not", a), T("AggTerm", s_("f"), a), T("AggTerm", s_("a")),
             LIST([a]), LIST([qa]), LIST([K(1)]), LIST([a, b]), LIST([a], V("T")), LIST([a], K("[]")),
             AND(a, b), AND(a, qa), F(",", a, b), F("','", a, b), OR(a, b), F(";", a, b), CL(a, b), F(":-", a, b),
             AND(a, AND(b, a)), AND(OR(a, b), a), OR(a, AND(a, b)), NOT("\\+", AND(a, b)), NOT("not", OR(a, b)),
             CL(a, AND(NOT("\\+", b), a)), CL(a, AND(NOT("not", b), a)),
             NOT("\\+", NOT("not", a)), NOT("\\+", NOT("\\+", a)),
             K("f(a)"), K("f(1)"), K("f(X)"), K("\\+a"), K("not a"), K("a, b"), K("a; b"), K("[a]"), K("[a, b]"),
             K("a :- b"), K("f(\\+(a))"), K("f(a,A1)"), K("f(_)"), K("f(X1)"),
             F("f", LIST([a, b]), b), F("g", a, b, K(1), V("X"), a, b, K(2), V("Y"), a, b, a, b),
             F("g", a, b, K(1), V("X"), a, b, K(2), V("Y"), a, b, a, a),
             F("g", I(0), I(1), I(2), I(3), I(4), I(5), I(6), I(7), I(8), I(9), I(10), I(11)),
             F("g", I(0), I(1), I(2), I(3), I(4), I(5), I(6), I(7), I(8), I(9), I(10), I(12)),
             F("h", LIST([K(i) for i in range(8)]), LIST([a, b]), a),
             F("h", LIST([K(i) for i in range(8)]), LIST([a, b, a]), a),
             F("h", LIST([K(i) for i in range(8)]), LIST([a, b, a]), b),
             F("h", LIST([K(i) for i in range(11)]), a), F("h", LIST([K(i) for i in range(11)]), b),
             AD([a, b], atom("true")), AD([a, b], AND(a, b)), AD([a, qa], atom("true")), AD([a], atom("true")),
             AD([a, b], NOT("\\+", a)), AD([a, b], NOT("not", a)), AD([a, b], N()),
             AD([F("f", V("X")), b], F("g", V("X")))]
    return pool


FLOAT_TWINS = [(0.1 + 0.2, 0.3), (1.0 / 3.0, 0.333333333333333), (1.1 * 3, 3.3), (1 - 0.9, 0.1), (2.0 / 3.0, 0.666666666666667)]
FLOAT_TEXTS = ["0.30000000000000004", "0.3", "0.3333333333333333", "0.333333333333333", "3.3000000000000003", "3.3",
               "0.09999999999999998", "0.1", "0.6666666666666666", "0.666666666666667"]
# arithmetic evaluated by the engine (is/2); the answers are the Constant objects the engine built
ENGINE_ARITH = ["0.1+0.2", "1.0/3.0", "1.1*3", "1-0.9", "2.0/3.0", "0.3", "0.5+0.25", "1/4", "3.3"]

ATOMS = ["a", "b", "'a'", "c", "'hello world'", "[]", "X", "1", "f"]
FUNCTORS = ["f", "g", "'f'", ".", ",", "+", "'+'"]


def rand_bp(rng, depth, top=True):
    r = rng.random()
    if not top and r < 0.08:
        return N()
    if not top and r < 0.18:
        return I(rng.choice([0, 1, 2, -1, -3]))
    if depth <= 0 or r < 0.35:
        k = rng.random()
        if k < 0.4:
            return atom(rng.choice(ATOMS))
        if k < 0.6:
            return K(rng.choice([0, 1, 2, -1, 10, 1.0, 0.5, 2.5, 0.1 + 0.2, 0.3, 1.0 / 3.0, 1.1 * 3, "a", "1", "1.0", '"s"', "'a'", "f(a)"]))
        if k < 0.8:
            return V(rng.choice(["X", "Y", "_", "A1", "a"]))
        return T("AggTerm", s_(rng.choice(["a", "f"])))
    k = rng.random()
    sub = lambda: rand_bp(rng, depth - 1, False)
    if k < 0.4:
        return F(rng.choice(FUNCTORS), *[sub() for _ in range(rng.choice([1, 1, 2, 2, 3]))])
    if k < 0.55:
        return NOT(rng.choice(["\\+", "not"]), sub())
    if k < 0.65:
        return AND(sub(), sub())
    if k < 0.72:
        return OR(sub(), sub())
    if k < 0.78:
        return CL(sub(), sub())
    if k < 0.9:
        return LIST([sub() for _ in range(rng.choice([1, 2, 3, 9, 11]))],
                    rng.choice([None, None, V("T"), atom("t")]))
    if top:
        def plain(d):
            for _ in range(20):
                x = rand_bp(rng, d, False)
                if x[0] == "T" and x[1] not in ("Var", "Constant"):
                    return x
            return atom("a")
        return AD([plain(depth - 1) for _ in range(rng.choice([1, 2, 3]))], plain(depth - 1))
    return F("f", sub())


def mutate(rng, bp):
    """a near copy: most mutations are the ones the property is about"""
    if bp[0] in ("N", "I"):
        return bp if rng.random() < 0.7 else rng.choice([N(), I(0), I(-1)])
    if bp[0] == "AD":
        heads = [mutate(rng, h) if rng.random() < 0.3 else h for h in bp[1]]
        heads = [h if (h[0] == "T" and h[1] not in ("Var", "Constant")) else atom("a") for h in heads]
        body = mutate(rng, bp[2]) if rng.random() < 0.4 else bp[2]
        if not (body[0] == "T" and body[1] not in ("Var", "Constant")):
            body = atom("true")
        return AD(heads, body)
    _, cls, val, args = bp
    r = rng.random()
    if r < 0.55 and args:
        i = rng.randrange(len(args))
        new = list(args)
        new[i] = mutate(rng, args[i])
        return ("T", cls, val, tuple(new))
    if r < 0.62:
        return bp
    if cls == "Not":
        return ("T", cls, s_("not" if val[1] == "\\+" else "\\+"), args)
    if cls == "Term" and not args:
        k = rng.random()
        if k < 0.3:
            return atom(val[1].strip("'")) if val[1].startswith("'") else atom("'%s'" % val[1])
        if k < 0.55:
            return K(val[1])
        if k < 0.7:
            return V(val[1])
        if k < 0.8:
            return T("AggTerm", val)
        return atom(rng.choice(ATOMS))
    if cls == "Constant":
        v = val[1]
        k = rng.random()
        if k < 0.3:
            return atom(str(v))
        if k < 0.5:
            return K(str(v))
        if type(v) is float and k < 0.65:
            return K(math.nextafter(v, math.inf) if rng.random() < 0.5 else v * 3 / 3 + 1e-16)
        if k < 0.7 and type(v) is int:
            return K(float(v))
        if k < 0.8 and type(v) is float and v == int(v):
            return K(int(v))
        return K(rng.choice([1, 2, "a"]))
    if cls == "Var":
        return rng.choice([atom(val[1]), K(val[1]), V("Z")])
    if cls == "Term" and args:
        k = rng.random()
        if k < 0.3:
            f = val[1]
            return ("T", cls, s_(f.strip("'") if f.startswith("'") else "'%s'" % f), args)
        if k < 0.45 and len(args) == 2 and val[1] in (",", "','"):
            return AND(*args)
        if k < 0.6:
            return ("T", "AggTerm", val, args)
        if k < 0.8:
            return ("T", cls, val, args[:-1]) if len(args) > 1 else ("T", cls, val, args + (atom("a"),))
        return K(str_of(bp))
    if cls == "And":
        return F(rng.choice([",", "','"]), *args)
    if cls == "Or":
        return F(";", *args)
    if cls == "Clause":
        return F(":-", *args)
    return bp


def str_of(bp):
    try:
        return str(build(bp))
    except Exception:
        return "a"


PARSER_TEXTS = [
    "a", "'a'", "b", "f(a)", "f('a')", "'f'(a)", "f(a,b)", "f(X)", "f(_)", "f(X,Y,X)", "\\+a", "not a", "\\+ 'a'",
    "f(\\+a)", "f(not a)", "\\+(\\+a)", "\\+(a,b)", "1", "'1'", "1.0", "1.00", "2", "-1", "- 1", "-(1)", "-a", "-(a)",
    "0.5", "\"a\"", "\"1\"", "[]", "'[]'", "[a]", "[a|[]]", "'.'(a,[])", "[a,b]", "[a|T]", "[1,2,3]", "[a|b]",
    "(a,b)", "','(a,b)", "(a,b,c)", "(a;b)", "';'(a,b)", "a:-b", "a:-b,c", "a:-(b;c)", "a:-\\+b", "a:-not b",
    "':-'(a,b)", "a+b", "'+'(a,b)", "+(a,b)", "a+b*c", "(a+b)*c", "1+2", "X=Y", "a=b", "'='(a,b)", "a:b",
    "'hello world'", "hello_world", "f('A')", "f(A)", "0.5::a", "0.3::a", "0.5::f(X)", "0.5::a;0.5::b", "0.5::a;0.5::'a'",
    "0.5::a;0.5::b:-c", "0.5::a;0.5::b:-\\+c", "0.5::a;0.5::b:-not c", "f([a,b],c)", "f((a,b))", "f((a;b))",
    "g(a,b,c,d,e,f,g,h,i,j,k,l)", "g(a,b,c,d,e,f,g,h,i,j,k,m)", "g([1,2,3,4,5,6,7,8,9,10,11],a)",
    "g([1,2,3,4,5,6,7,8,9,10,11],b)", "a- -1", "a-(-1)", "f(- 1)", "1.0e10", "f(\"a b\")", "'\\\\+'(a)", "'not'(a)",
    "call(X)", "findall(X,p(X),L)",
] + FLOAT_TEXTS + ["f(%s)" % t for t in FLOAT_TEXTS[:4]] + ["[%s]" % t for t in FLOAT_TEXTS[:2]]
ENGINE_TEXTS = [
    "a", "'a'", "b", "f(a)", "f('a')", "'f'(a)", "f(a,b)", "1", "'1'", "1.0", "1.00", "2", "-1", "-(1)", "-(a)", "0.5",
    "\"a\"", "\"1\"", "[]", "'[]'", "[a]", "[a|[]]", "'.'(a,[])", "[a,b]", "[1,2]", "(a,b)", "','(a,b)", "(a;b)",
    "';'(a,b)", "a+b", "'+'(a,b)", "1+2", "a:b", "'hello world'", "f('A')", "f([a,b],c)", "f((a,b))", "f(f(a))",
    "f(f('a'))", "f(1)", "f('1')", "f(1.0)", "f(\"1\")", "g(a,b,c,d,e,f,g,h,i,j,k,l)", "g(a,b,c,d,e,f,g,h,i,j,k,m)",
    "\\+a", "not a", "f(\\+a)", "f(not a)", "\\+'a'",
] + FLOAT_TEXTS[:6] + ["f(0.30000000000000004)", "f(0.3)"]


def engine_arith_terms(ctx):
    """[(expr, Constant)]: the value the engine computes for `X is expr`"""
    from problog.engine import DefaultEngine
    from problog.program import PrologString
    from problog.logic import Term
    out = []
    try:
        eng = DefaultEngine()
        db = eng.prepare(PrologString("\n".join("r%d(X) :- X is %s." % (i, e) for i, e in enumerate(ENGINE_ARITH))))
        for i, e in enumerate(ENGINE_ARITH):
            for res in eng.query(db, Term("r%d" % i, None)):
                out.append((e, res[0]))
    except Exception as ex:
        ctx.notes.append("engine arithmetic terms unavailable: %r" % (ex,))
        ctx.count("engine_arith_failed")
    return out


def parse_term(text):
    from problog.logic import Term
    return Term.from_string(text)


# ====================================================================== the run
MODEL_OK = True


def coq_eval(ctx, items, cases, chunk=2500, jobs=8):
    """evaluate the boolean cases in coqc; every chunk gets a header that defines only the terms it mentions"""
    import re
    from concurrent.futures import ThreadPoolExecutor
    if not MODEL_OK:
        ctx.notes.append("model comparison skipped (%d cases): translator or proofs failed on this tree" % len(cases))
        return []
    chunks = [(i, cases[i:i + chunk]) for i in range(0, len(cases), chunk)]

    def one(arg):
        start, cs = arg
        used = sorted({int(m) for c in cs for m in re.findall(r"\bt(\d+)\b", c)})
        header = HEADER + "\n".join("Definition t%d : pyterm := %s.\nDefinition s%d : string := %s."
                                     % (k, coq_term(items[k].bp), k, coq_str(items[k].s)) for k in used) + "\n"
        return [start + i for i in ctx.coq_failing(header, cs, name="c18_%d" % start, shard=len(cs) + 1, jobs=1)]

    bad = []
    try:
        with ThreadPoolExecutor(max_workers=jobs) as ex:
            for r in ex.map(one, chunks):
                bad.extend(r)
    except RuntimeError as e:
        ctx.broken.append("correspondence:C18 model cases do not evaluate")
        ctx.notes.append(str(e))
    return sorted(bad)


def collect(ctx, items, obj, src):
    try:
        it = Item(obj, src)
    except Skip as e:
        ctx.count("skipped:" + str(e).split(" ")[0])
        return None
    it.idx = len(items)
    items.append(it)
    ctx.count("terms:" + src.split(":")[0])
    ctx.count("top_class:" + top_cls(it.bp))
    return it


def observe_pair(ctx, a, b, finds, cases, case_meta, seen_pairs):
    """judge the property on (a, b) and emit the model comparison cases"""
    x, y = a.obj, b.obj
    try:
        eq = x == y
        qe = y == x
        ne = x != y
    except Exception as e:
        finds.add("raise", None, bp_size(a.bp) + bp_size(b.bp),
                  "== raised %r on %s vs %s" % (e, desc(a), desc(b)), {"a": a.bp, "b": b.bp, "src": [a.src, b.src]})
        return None
    if type(eq) is not bool or type(qe) is not bool:
        finds.add("nonbool", None, 0, "== returned a non-bool on %s vs %s" % (desc(a), desc(b)), {"a": a.bp, "b": b.bp})
        return None
    size = bp_size(a.bp) + bp_size(b.bp)
    rep = {"a": a.bp, "b": b.bp, "src": [a.src, b.src], "str": [a.s, b.s]}
    if ne != (not eq):
        finds.add("ne", None, size, "`!=` is not the negation of `==` on %s vs %s" % (desc(a), desc(b)), rep)
    if eq != qe:
        finds.add("symmetry", classify_sym(a, b), size,
                  "== is not symmetric: (%s) == (%s) is %s, reversed %s" % (desc(a), desc(b), eq, qe), rep)
    if eq and a.h != b.h:
        finds.add("hash", classify_hash(a, b), size,
                  "equal terms with different hashes: %s == %s but hash %d != %d" % (desc(a), desc(b), a.h, b.h), rep)
    if eq:
        # interchangeable as dict / set keys
        ok = (y in {x: 1}) and (x in {y}) and ({x: 1}.get(y) == 1)
        if not ok and a.h == b.h:
            finds.add("lookup", None, size, "dict/set lookup misses an equal key: %s vs %s" % (desc(a), desc(b)), rep)
        ctx.count("lookup_consistent" if ok else "lookup_missed")
    un = None
    if is_ground_bp(a.bp) and is_ground_bp(b.bp):
        try:
            un = unifies(x, y)
        except Exception as e:
            finds.add("unify-raise", None, size, "unify_value raised %r on %s vs %s" % (e, desc(a), desc(b)), rep)
            un = None
        if un is not None and un != eq:
            finds.add("unify", classify_unify(a, b, eq, un), size,
                      "ground terms: (%s) == (%s) is %s but unification says %s" % (desc(a), desc(b), eq, un), rep)
    ctx.count("pairs_equal" if eq else "pairs_unequal")
    nontrivial = eq or (a.s == b.s) or (un is True) or norm_quotes(norm_not(a.bp)) == norm_quotes(norm_not(b.bp))
    ctx.case(("pair", a.bp, b.bp), nontrivial and a.bp != b.bp,
             sample={"a": a.s, "b": b.s, "classes": [top_cls(a.bp), top_cls(b.bp)], "eq": eq, "hash_eq": a.h == b.h,
                     "unify": un})
    # model comparison: every non-trivial pair, every pair of the thorough tier, a seeded sample of the rest
    emit = nontrivial or ctx.tier == "thorough" or a.idx == b.idx or ctx.rng.random() < 0.2
    if emit and (a.idx, b.idx) not in seen_pairs:
        seen_pairs.add((a.idx, b.idx))
        parts = ["Bool.eqb (eq_cfg_s TA (repr_m TA) s%d s%d t%d t%d) %s" % (a.idx, b.idx, a.idx, b.idx, vf.coq_bool(eq))]
        if un is not None:
            parts.append("Bool.eqb (unify_ident t%d t%d) %s" % (a.idx, b.idx, vf.coq_bool(un)))
        # hash keys agree in the model iff the captured keys agree
        parts.append("Bool.eqb (hkey_eqb (hk NH t%d) (hk NH t%d)) %s" % (a.idx, b.idx, vf.coq_bool(a.key == b.key)))
        cases.append(" && ".join("(%s)" % p for p in parts))
        case_meta.append(("pair", a, b))
    return eq


def run_pairs(ctx):
    install_spy()
    rng = ctx.rng
    items = []
    finds = Findings()
    cases, meta, seen = [], [], set()

    # ---- pools
    ex = []
    for bp in exhaustive_pool():
        it = collect(ctx, items, build(bp, probs=False), "ctor:exhaustive")
        if it is not None:
            if it.bp != bp:        # a constructor normalised its argument (Constant rounds floats to 15 decimals)
                ctx.count("ctor_normalised")
            ex.append(it)
    pa = []
    for txt in PARSER_TEXTS:
        try:
            obj = parse_term(txt)
        except Exception as e:
            ctx.count("parser_rejected")
            continue
        it = collect(ctx, items, obj, "parser:" + txt)
        if it is not None:
            pa.append(it)
    # floats produced by arithmetic inside the engine (`X is 0.1+0.2`): the answer objects join the parser pool
    for expr, obj in engine_arith_terms(ctx):
        it = collect(ctx, items, obj, "engine:is:" + expr)
        if it is not None:
            pa.append(it)
        from problog.logic import Term as _T
        it = collect(ctx, items, _T("f", obj), "engine:is:f(" + expr + ")")
        if it is not None:
            pa.append(it)
    # constructor twins of the parser terms (same blueprint through the public constructors)
    tw = []
    for it in pa:
        if not it.flags:
            t2 = collect(ctx, items, build(it.bp), "ctor:twin-of:" + it.src[7:])
            if t2 is not None:
                tw.append((it, t2))

    # ---- reflexivity on every object (same object and a structurally identical rebuilt one)
    def reflexive(it):
        try:
            if not (it.obj == it.obj) or (it.obj != it.obj):
                finds.add("reflexive", None, bp_size(it.bp), "== is not reflexive on %s" % desc(it), {"a": it.bp})
        except Exception as e:
            finds.add("raise", None, bp_size(it.bp), "== raised %r on %s" % (e, desc(it)), {"a": it.bp})

    # ---- all ordered pairs of the exhaustive pool, of the parser pool, and parser x twin
    for a in ex:
        for b in ex:
            observe_pair(ctx, a, b, finds, cases, meta, seen)
    for a in pa:
        for b in pa:
            observe_pair(ctx, a, b, finds, cases, meta, seen)
    for a, b in tw:
        observe_pair(ctx, a, b, finds, cases, meta, seen)
        observe_pair(ctx, b, a, finds, cases, meta, seen)
    cross = ctx.n(600, 6000)
    for _ in range(cross):
        a, b = rng.choice(pa), rng.choice(ex)
        observe_pair(ctx, a, b, finds, cases, meta, seen)
        observe_pair(ctx, b, a, finds, cases, meta, seen)

    # ---- random terms and near copies
    nrand = ctx.n(700, 8000)
    rnd = []
    for _ in range(nrand):
        bp = rand_bp(rng, rng.choice([1, 2, 2, 3]))
        m = bp
        for _ in range(rng.choice([1, 1, 2])):
            m = mutate(rng, m)
        try:
            oa, ob = build(bp), build(m)
        except Exception:
            ctx.count("constructor_rejected")
            continue
        # anything raised by str()/hash() of a constructed term propagates (reported as a broken check)
        a = collect(ctx, items, oa, "ctor:random")
        if a is None:
            continue
        b = collect(ctx, items, ob, "ctor:mutant")
        if b is None:
            continue
        c = collect(ctx, items, build(bp), "ctor:copy")   # structurally identical, distinct object
        observe_pair(ctx, a, b, finds, cases, meta, seen)
        observe_pair(ctx, b, a, finds, cases, meta, seen)
        if observe_pair(ctx, a, c, finds, cases, meta, seen) is False:
            finds.add("copy", None, bp_size(a.bp), "a structurally identical copy compares unequal: %s" % desc(a), {"a": a.bp})
        rnd.append((a, b, c))

    for it in items:
        reflexive(it)

    # ---- transitivity on triples (judge only; the model is tied on the pairs)
    def eqc(cache, a, b):
        k = (a.idx, b.idx)
        if k not in cache:
            try:
                cache[k] = bool(a.obj == b.obj)
            except Exception:
                cache[k] = False
        return cache[k]

    cache = {}
    ntri = 0
    for group in (ex, pa):
        n = len(group)
        for i in range(n):
            for j in range(n):
                if i == j or not eqc(cache, group[i], group[j]):
                    continue
                for k in range(n):
                    if k == j:
                        continue
                    if eqc(cache, group[j], group[k]):
                        ntri += 1
                        if not eqc(cache, group[i], group[k]):
                            a, b, c = group[i], group[j], group[k]
                            finds.add("transitivity", classify_trans(a, b, c), bp_size(a.bp) + bp_size(b.bp) + bp_size(c.bp),
                                      "== is not transitive: %s == %s == %s but the first differs from the third"
                                      % (desc(a), desc(b), desc(c)),
                                      {"a": a.bp, "b": b.bp, "c": c.bp, "str": [a.s, b.s, c.s]})
    for (a, b, c) in rnd:
        # a ~ c always; b is a mutant: a==b and c==b must agree, and so on around the triangle
        tri = [a, b, c]
        for (x, y, z) in ((0, 1, 2), (1, 0, 2), (0, 2, 1), (2, 0, 1), (1, 2, 0), (2, 1, 0)):
            p, q, r = tri[x], tri[y], tri[z]
            if eqc(cache, p, q) and eqc(cache, q, r):
                ntri += 1
                if not eqc(cache, p, r):
                    finds.add("transitivity", classify_trans(p, q, r), bp_size(p.bp) + bp_size(q.bp) + bp_size(r.bp),
                              "== is not transitive: %s == %s == %s but the first differs from the third"
                              % (desc(p), desc(q), desc(r)), {"a": p.bp, "b": q.bp, "c": r.bp})
    ctx.count("triples_with_both_premises", ntri)

    # ---- unary model comparisons: well-formedness, printer, hash key
    for it in items:
        parts = ["wf t%d" % it.idx,
                 "hkey_eqb (hk NH t%d) %s" % (it.idx, coq_key(it.key))]
        if it.in_repr_fragment():
            parts.append("String.eqb (repr_m TA t%d) s%d" % (it.idx, it.idx))
            ctx.count("repr_checked")
        cases.append(" && ".join("(%s)" % p for p in parts))
        meta.append(("term", it, None))

    ctx.log("terms=%d coq cases=%d" % (len(items), len(cases)))
    finds.report(ctx)
    bad = coq_eval(ctx, items, cases)
    ctx.cov["model_vs_impl_cases"] = len(cases)
    ctx.cov["model_vs_impl_agree"] = len(cases) - len(bad)
    ctx.cov["model_vs_impl_disagreements"] = len(bad)
    for i in bad[:12]:
        kind, a, b = meta[i]
        if kind == "term":
            ctx.broken.append("correspondence:ModelTermEq (wf / hash key / str) vs problog.logic on %s bp=%r key=%r"
                              % (desc(a), a.bp, a.key))
        else:
            ctx.broken.append("correspondence:ModelTermEq (== / unify / hash-key equality) vs problog.logic on %s vs %s"
                              % (desc(a), desc(b)))


# ---------------------------------------------------------------------- engine level
def run_engine(ctx):
    """X == Y and X = Y through the engine builtins on ground parser-built terms: the engine must
    agree with python `==` / unify_value on the very objects the parser built, and the property's
    third clause (ground == <=> unifies) is judged on the engine's answers."""
    import pl
    from problog.program import PrologString
    from problog.logic import Clause
    finds = Findings()
    texts = ENGINE_TEXTS
    pairs = [(x, y) for x in texts for y in texts]
    if ctx.tier != "thorough":
        ctx.rng.shuffle(pairs)
        keep = [(x, y) for (x, y) in pairs[:700]]
        diag = [(x, x) for x in texts]
        fl = FLOAT_TEXTS[:6] + ["f(0.30000000000000004)", "f(0.3)"]
        forced = [(x, y) for x in fl for y in fl if x != y]      # float twins are always judged through the engine
        pairs = diag + forced + [p for p in keep if p not in set(forced)]
    B = 60
    mism = 0
    for start in range(0, len(pairs), B):
        chunk = pairs[start:start + B]
        lines = []
        for i, (x, y) in enumerate(chunk):
            lines.append("e%d :- X = (%s), Y = (%s), X == Y." % (i, x, y))
            lines.append("u%d :- X = (%s), Y = (%s), X = Y." % (i, x, y))
            lines.append("d%d :- (%s) == (%s)." % (i, x, y))
        for i in range(len(chunk)):
            lines.append("query(e%d). query(u%d). query(d%d)." % (i, i, i))
        src = "\n".join(lines)
        res = pl.evaluate(src, timeout=120)
        if res[0] != "ok":
            ctx.broken.append("correspondence:engine batch failed with %s" % (res[1],))
            ctx.notes.append(src[:1500])
            return
        ans = res[1]
        # the objects the parser built for the direct form d_i :- (x) == (y)
        objs = {}
        for cl in PrologString(src):
            if isinstance(cl, Clause) and cl.head.functor.startswith("d"):
                objs[cl.head.functor] = cl.body
        for i, (x, y) in enumerate(chunk):
            e = ans.get("e%d" % i, 0.0) > 0.5
            u = ans.get("u%d" % i, 0.0) > 0.5
            d = ans.get("d%d" % i, 0.0) > 0.5
            body = objs.get("d%d" % i)
            ctx.count("engine_pairs")
            if body is None or len(body.args) != 2:
                ctx.count("engine_unparsed")
                continue
            ox, oy = body.args
            try:
                py_eq = bool(ox == oy)
                py_un = unifies(ox, oy)
            except Exception as ex:
                ctx.broken.append("correspondence:python == / unify raised %r on %s vs %s" % (ex, x, y))
                continue
            if not (e == d == py_eq) or u != py_un:
                mism += 1
                if mism <= 4:
                    ctx.broken.append("correspondence:engine ==/2, =/2 (%s,%s,%s) differ from python ==, unify_value (%s,%s) on %s vs %s"
                                      % (e, d, u, py_eq, py_un, x, y))
            ctx.case(("engine", x, y), e or u, sample={"x": x, "y": y, "X==Y": e, "X=Y": u})
            if e != u:
                try:
                    a, b = Item(ox, "parser:" + x), Item(oy, "parser:" + y)
                    klass = classify_unify(a, b, e, u)
                except Skip:
                    klass = None
                finds.add("engine-unify", klass, len(x) + len(y),
                          "through the engine, ground terms: `%s == %s` is %s but `%s = %s` is %s" % (x, y, e, x, y, u),
                          {"x": x, "y": y, "program": "q :- X = (%s), Y = (%s), X == Y.  vs  ... X = Y." % (x, y)})
    ctx.cov["engine_python_disagreements"] = mism
    finds.report(ctx)


# ---------------------------------------------------------------------- Findings.v witnesses on the real code
WITNESSES = [
    ("not-functor-hash", lambda: (NOT("\\+", atom("a")), NOT("not", atom("a"))), "eq-hash"),
    ("constant-vs-term-hash", lambda: (K("a"), atom("a")), "eq-hash"),
    ("var-vs-term-hash", lambda: (V("X"), atom("X")), "eq-hash"),
    ("constant-value-type-hash", lambda: (K(1), K("1")), "eq-hash"),
    ("subclass-vs-constant-asymmetric", lambda: (K("\\+a"), NOT("\\+", atom("a"))), "asym"),
    ("quoted-atom-eq-vs-unify", lambda: (atom("'a'"), atom("a")), "unify-not-eq"),
    ("not-functor-eq-vs-unify", lambda: (NOT("\\+", atom("a")), NOT("not", atom("a"))), "eq-not-unify"),
    ("class-tag-eq-vs-unify", lambda: (F("f", K("a")), F("f", atom("a"))), "unify-not-eq"),
    ("constant-str-eq-vs-unify", lambda: (K("f(a)"), F("f", atom("a"))), "eq-not-unify"),
]


def run_witnesses(ctx):
    out = {}
    for name, mk, kind in WITNESSES:
        a, b = [build(x) for x in mk()]
        if kind == "eq-hash":
            rep = (a == b) and hash(a) != hash(b)
        elif kind == "asym":
            rep = (a == b) != (b == a)
        elif kind == "unify-not-eq":
            rep = unifies(a, b) and not (a == b)
        else:
            rep = (a == b) and not unifies(a, b)
        out[name] = bool(rep)
    a, b, c = build(F("f", K(1))), build(K("f(1)")), build(F("f", K("1")))
    out["constant-str-bridge-transitivity"] = bool(a == b and b == c and not (a == c))
    ctx.cov["findings_witnesses_reproduce"] = out
    gone = [k for k, v in out.items() if not v]
    if gone:
        ctx.notes.append("known finding(s) no longer reproduce on this tree: " + ", ".join(gone))
    if not MODEL_OK:
        return
    rc, o = vf.sh(["coqc"] + vf.COQFLAGS + ["-w", "none", "theories/C18/Findings.v"], cwd=vf.COQ, timeout=300)
    ctx.cov["findings_v_compiles"] = (rc == 0)
    if rc:
        ctx.notes.append("Findings.v no longer compiles (recorded, not a violation): " + o[-500:])


def _tuplify(x):
    return tuple(_tuplify(e) for e in x) if isinstance(x, list) else x


def run_replay(ctx, rep):
    """re-run one recorded input: blueprints a, b (, c) through the public constructors, or an engine pair x, y"""
    install_spy()
    finds = Findings()
    if "x" in rep and "y" in rep:
        global ENGINE_TEXTS
        ENGINE_TEXTS = sorted({rep["x"], rep["y"]})
        run_engine(ctx)
        return
    items, cases, meta, seen = [], [], [], set()
    its = []
    for k in ("a", "b", "c"):
        if k in rep:
            it = collect(ctx, items, build(_tuplify(rep[k])), "ctor:replay")
            if it is None:
                ctx.broken.append("harness:replay input %s is outside the modelled domain" % k)
                return
            its.append(it)
    for a in its:
        for b in its:
            observe_pair(ctx, a, b, finds, cases, meta, seen)
    if len(its) == 3:
        a, b, c = its
        if a.obj == b.obj and b.obj == c.obj and not (a.obj == c.obj):
            finds.add("transitivity", classify_trans(a, b, c), 0,
                      "== is not transitive: %s == %s == %s but the first differs from the third" % (desc(a), desc(b), desc(c)),
                      {"a": a.bp, "b": b.bp, "c": c.bp})
    for it in items:
        cases.append("(wf t%d) && (hkey_eqb (hk NH t%d) %s)" % (it.idx, it.idx, coq_key(it.key)))
        meta.append(("term", it, None))
    bad = coq_eval(ctx, items, cases)
    for i in bad:
        ctx.broken.append("correspondence:ModelTermEq vs problog.logic on replayed input (case %d: %s)" % (i, cases[i][:200]))
    finds.report(ctx)


def run(ctx):
    ctx.cov["rule"] = ("ordered pairs of (i) a bounded-exhaustive pool of constructor-built terms (atoms, quoted atoms, "
                       "Constant int/float/str, Var, Not with \\+/not, And/Or/Clause/AggTerm/AD, lists, long argument "
                       "lists around the hash cut-off, string Constants that print like compound terms), (ii) a pool of "
                       "parser-built terms, (iii) parser terms vs their constructor twins, (iv) random terms vs "
                       "property-directed mutants (quote/unquote, Constant<->Term<->Var, \\+<->not, int<->float, "
                       "And<->','/2) and fresh copies; triples for transitivity; ground pairs additionally through "
                       "unify_value and through the engine builtins ==/2, =/2. A pair is non-trivial when the two terms "
                       "are not the same blueprint and are equal, print the same, unify, or agree up to quotes/Not functor; "
                       "distinct = distinct blueprint pairs")
    ctx.assumptions += [
        "hand-written Gallina model of Term.__eq__/__hash__/__repr__ corresponds to problog/logic.py only as far as the sampled pairs show",
        "the class table and the bodies of the Var/Constant/Object/AnnotatedDisjunction overrides are read from the AST on every run (fail-closed)",
        "hash() of a tuple/str/int/float is a function of the value: equal captured keys give equal hashes",
        "floats: nan, inf and -0.0 are outside the modelled domain; Object (wrapped python values) is not modelled",
        "terms with a python list among their arguments other than a top-level AnnotatedDisjunction are outside the domain "
        "(Term.__eq__ raises AttributeError on two distinct nested ADs)",
    ]
    # A failing translator or proof is recorded as a broken obligation, but the property-level judge on the real
    # objects still runs (it needs nothing from the model); only the model comparison is skipped, because the
    # model is then known not to describe this tree.
    global MODEL_OK
    MODEL_OK = True
    try:
        generate(ctx)
    except Exception as e:
        MODEL_OK = False
        ctx.broken.append("translator:C18 %s" % (str(e)[:300],))
        ctx.notes.append("translator failed (fail-closed): %s" % e)
    if MODEL_OK:
        try:
            proved = ctx.prove("C18/Props.v")
        except Exception as e:
            proved = False
            ctx.broken.append("proof-cone:C18/Props.v raised %s" % (str(e)[:200],))
        if not proved:
            MODEL_OK = False
        elif ctx.tier == "thorough" and not ctx.replay:
            ctx.coqchk("PL.C18.Props")
    ctx.cov["model_comparison_ran"] = MODEL_OK
    if ctx.replay:
        run_replay(ctx, ctx.replay.get("replay", {}))
        return
    for step in (run_witnesses, run_pairs, run_engine):
        try:
            step(ctx)
        except Exception:
            import traceback
            tb = traceback.format_exc()
            ctx.notes.append(tb)
            ctx.broken.append("harness:exception in %s (see notes): %s" % (step.__name__, tb.strip().split("\n")[-1][:200]))
