"""C25 — exported ground programs keep the original semantics."""
import itertools
import os
import sys
from fractions import Fraction

import vf
import pl

sys.path.insert(0, os.path.join(vf.VERIF, "gen"))
import c25_dimacs as cd  # noqa: E402

META = {
    "id": "C25",
    "level": "proof",
    "technique": "Coq round-trip proof for the DIMACS writer model (incl. decimal printing) tied to CNF.to_dimacs by a fail-closed Python-ast -> Gallina translation proved equal to the model, and by differential runs; to_prolog exports re-evaluated and compared (translation validation)",
    "design_ref": "DESIGN.md §5 C25",
    "text": "Theorem: for every CNF the writer can represent, a reference DIMACS reader applied to the model's output returns the atom count and exactly the stored clauses, hence the same models (unbounded; digits included). "
            "The model's token lines are compared with the real to_dimacs() output on CNFs of generated programs, and the real output is re-read by an independent reader and compared with the internal clause list. "
            "Exported ProbLog text (ground task, with and without cycle breaking) is re-parsed and re-evaluated and must give the original query probabilities.",
    "note": "Trusted: Coq kernel; to_dimacs/_contents default path TRANSLATED from the source on every run (gen/c25_dimacs.py, fail-closed; readings of the Python constructs in DimacsPrelude.v), proved equal to the hand model (C25_generated_is_model) and its string level proved to render the token lines (C25_generated_string_is_rendered_lines); both sampled against the real output; str.split of CPython (judge only); "
            "the to_prolog part is validation by re-evaluation with ProbLog itself and a harness world enumerator, not a proof about to_prolog.",
}

HEADER = """From Coq Require Import ZArith List Bool String.
From PL.C25 Require Import ModelDimacs.
Import ListNotations.
Open Scope Z_scope.
Fixpoint leq {A} (e : A -> A -> bool) (x y : list A) : bool :=
  match x, y with [], [] => true | a :: x', b :: y' => e a b && leq e x' y' | _, _ => false end.
"""


HEADER_GEN = HEADER + """From PL.C25 Require Import DimacsPrelude GenDimacs.
"""


def generate(ctx):
    """Regenerate coq/theories/C25/GenDimacs.v from vf.REPO (fail-closed translator).  On a translator
    failure a stub without definitions is written first, so that the theorems about the generated model
    cannot be discharged against a stale file; then the error is re-raised."""
    try:
        text = cd.translate(vf.REPO)
    except Exception as e:
        ctx.generate("C25/GenDimacs.v", cd.stub("%s: %s" % (type(e).__name__, e)))
        raise
    ctx.generate("C25/GenDimacs.v", text)


def gen_program(rng):
    nf = rng.randint(1, 5)
    lines = ["0.%d::f%d." % (rng.randint(1, 9), i) for i in range(nf)]
    if rng.random() < 0.4:
        lines.append("0.%d::g0; 0.%d::g1 :- f0." % (rng.randint(1, 4), rng.randint(1, 4)))
        atoms = ["f%d" % i for i in range(nf)] + ["g0", "g1"]
    else:
        atoms = ["f%d" % i for i in range(nf)]
    nd = rng.randint(1, 4)
    cyclic = rng.random() < 0.4
    for d in range(nd):
        for _ in range(rng.randint(1, 3)):
            pool = atoms + ["d%d" % j for j in range(nd if cyclic else d) if j != d or cyclic]
            body = rng.sample(pool, min(len(pool), rng.randint(1, 3)))
            lits = []
            for b in body:
                # negation only on facts or strictly lower derived atoms (stratified)
                can_neg = b.startswith(("f", "g")) or (b.startswith("d") and int(b[1:]) < d and not cyclic)
                lits.append(("\\+" + b) if can_neg and rng.random() < 0.25 else b)
            lines.append("d%d :- %s." % (d, ", ".join(lits)))
    # textually identical probabilistic statements are independent choices (0.3::a. 0.3::a. gives 0.51):
    # an exporter that merges equal lines changes the semantics
    if rng.random() < 0.35:
        prob_lines = [l for l in lines if "::" in l]
        if prob_lines:
            dup = rng.choice(prob_lines)
            lines.insert(rng.randrange(len(lines) + 1), dup)
    if rng.random() < 0.25:
        k = rng.randint(1, 9)
        lines.append("0.%d::h0 :- f0." % k)
        lines.append("0.%d::h0 :- f0." % k)
        lines.append("d0 :- h0.")
    for d in range(nd):
        if rng.random() < 0.7:
            lines.append("query(d%d)." % d)
    if not any(l.startswith("query") for l in lines):
        lines.append("query(d0).")
    if rng.random() < 0.3:
        lines.append("evidence(f0, %s)." % rng.choice(["true", "false"]))
    return "\n".join(lines)


def cnf_of(src):
    def go():
        from problog.program import PrologString
        from problog.formula import LogicFormula, LogicDAG
        from problog.cnf_formula import CNF
        lf = LogicFormula.create_from(PrologString(src))
        dag = LogicDAG.create_from(lf)
        cnf = CNF.create_from(dag)
        txt = cnf.to_dimacs()
        cl = [list(c) for c in cnf.clauses]
        return cnf.atomcount, cl, txt
    try:
        return ("ok",) + pl.with_timeout(go, 20)
    except BaseException as e:  # noqa
        return ("err", pl.err_class(e))


def ref_read_dimacs(txt):
    """Independent reader (judge)."""
    lines = txt.split("\n")
    hdr = lines[0].split()
    assert hdr[0] == "p" and hdr[1] == "cnf"
    nat, ncl = int(hdr[2]), int(hdr[3])
    cls = []
    for ln in lines[1:]:
        if not ln.strip() or ln.startswith("c"):
            continue
        toks = [int(t) for t in ln.split()]
        assert toks[-1] == 0 and 0 not in toks[:-1]
        cls.append(toks[:-1])
    assert ncl == len(cls)
    return nat, cls


def coq_head(h):
    if h is None:
        return "HNone"
    if isinstance(h, bool):
        return "(HBool %s)" % vf.coq_bool(h)
    return "(HInt %s)" % vf.coq_Z(h)


def run_dimacs(ctx):
    n = ctx.n(150, 3000)
    srcs = [gen_program(ctx.rng) for _ in range(n)]
    res = pl.pmap(cnf_of, srcs)
    cases, metas, gen_cases = [], [], []
    for src, r in zip(srcs, res):
        if r[0] == "err":
            ctx.count("dimacs_skip_" + r[1])
            continue
        _, atomcount, clauses, txt = r
        nontrivial = len(clauses) >= 4
        ctx.case(("dimacs", src), nontrivial, sample={"program": src, "dimacs": txt[:300]})
        ctx.count("dimacs_programs")
        internal = []
        for c in clauses:
            h, body = c[0], c[1:]
            internal.append(list(body) if (h is None or isinstance(h, bool)) else [h] + list(body))
        try:
            nat, cls = ref_read_dimacs(txt)
            ok = (nat == atomcount and cls == internal)
        except Exception as e:
            ok = False
            cls = repr(e)
        if not ok:
            ctx.violation("DIMACS export does not read back as the internal CNF for\n%s\n dimacs=%r internal=%r" % (src, txt, internal),
                          {"program": src, "dimacs": txt, "internal": internal, "atomcount": atomcount}, klass=None)
        lines_ = txt.split("\n")
        if not clauses and lines_[-1:] == [""]:
            lines_ = lines_[:-1]      # "\n".join([]) == "": header line is followed by an empty string
        toks = [ln.split(" ") for ln in lines_]
        coq_f = "{| atomcount := %s; clauses := %s |}" % (
            vf.coq_Z(atomcount),
            vf.coq_list(["(%s, %s)" % (coq_head(c[0]), vf.coq_list([vf.coq_Z(x) for x in c[1:]])) for c in clauses]))
        coq_t = vf.coq_list([vf.coq_list([vf.coq_string(t) + "%string" for t in ln]) for ln in toks])
        cases.append("leq (leq String.eqb) (to_dimacs_lines %s) %s" % (coq_f, coq_t))
        metas.append(src)
        # the translated code, string level: the exact text (no str.split in between)
        gen_cases.append("String.eqb (to_dimacs_str_gen %s) %s%%string && leq (leq String.eqb) (to_dimacs_lines_gen %s) %s"
                         % (coq_f, vf.coq_string(txt), coq_f, coq_t))
    try:
        bad = ctx.coq_failing(HEADER, cases, name="dimacs")
    except RuntimeError as e:
        ctx.broken.append("correspondence:ModelDimacs does not evaluate")
        ctx.notes.append(str(e))
        return
    ctx.cov["dimacs_model_vs_impl_agree"] = len(cases) - len(bad)
    for i in bad[:5]:
        ctx.broken.append("correspondence:ModelDimacs.to_dimacs_lines vs CNF.to_dimacs on program %r" % (metas[i],))
    # the GENERATED definitions (translator output) against the same observed outputs: validates the translator's
    # reading of the Python constructs (DimacsPrelude.v) independently of the equality proof in ProofsGen.v
    try:
        bad = ctx.coq_failing(HEADER_GEN, gen_cases, name="dimacsgen")
    except RuntimeError as e:
        ctx.broken.append("correspondence:GenDimacs does not evaluate")
        ctx.notes.append(str(e)[-1500:])
        return
    ctx.cov["dimacs_generated_vs_impl_agree"] = len(gen_cases) - len(bad)
    for i in bad[:5]:
        ctx.broken.append("correspondence:GenDimacs.to_dimacs_str_gen/to_dimacs_lines_gen vs CNF.to_dimacs on program %r" % (metas[i],))


# ------------------------------------------------------------------ to_prolog (validation by re-evaluation)
def export_and_eval(src):
    def go():
        from problog.program import PrologString
        from problog.formula import LogicFormula, LogicDAG
        # exactly what problog/tasks/ground.py main() does for --format pl with default flags
        from problog.parser import DefaultPrologParser
        from problog.program import ExtendedPrologFactory
        out = {}
        for kind, target in (("pl", LogicFormula), ("pl_break_cycles", LogicDAG)):
            gp = target.createFrom(PrologString(src, parser=DefaultPrologParser(ExtendedPrologFactory())),
                                   label_all=True, avoid_name_clash=True, keep_order=True,
                                   keep_all=False, keep_duplicates=False, hide_builtins=False,
                                   propagate_evidence=False, propagate_weights=None, args=None)
            out[kind] = gp.to_prolog()
        return out
    try:
        exported = pl.with_timeout(go, 20)
    except BaseException as e:  # noqa
        return ("err", pl.err_class(e), None)
    orig = pl.evaluate(src, timeout=60)
    re = {k: pl.evaluate(v, timeout=60) for k, v in exported.items()}
    return ("ok", orig, exported, re)


def run_to_prolog(ctx):
    n = ctx.n(100, 2500)
    srcs = [gen_program(ctx.rng) for _ in range(n)]
    res = pl.pmap(export_and_eval, srcs)
    for src, r in zip(srcs, res):
        if r[0] == "err":
            ctx.count("toprolog_skip_" + r[1])
            continue
        _, orig, exported, re = r
        ctx.case(("toprolog", src), orig[0] == "ok" and len(orig[1]) >= 2,
                 sample={"program": src, "exported": exported["pl"][:400]})
        ctx.count("toprolog_programs")
        for kind, out in re.items():
            if ("err", "Timeout") in (orig, out):
                ctx.count("toprolog_timeout")
                continue
            if not pl.same_result(orig, out):
                ctx.violation("ground export (%s) evaluates differently:\n--- original\n%s\n--- exported\n%s\n original=%r exported=%r"
                              % (kind, src, exported[kind], orig, out),
                              {"program": src, "kind": kind, "exported": exported[kind], "original_result": orig, "exported_result": out},
                              klass=None)


def run(ctx):
    ctx.cov["rule"] = ("random propositional programs (1-5 facts, optional AD with body, 1-4 derived atoms with 1-3 clauses, optional positive cycles, stratified negation, optional evidence); "
                       "DIMACS: non-trivial = CNF with >=4 clauses; to_prolog: non-trivial = >=2 queries answered")
    ctx.assumptions += ["to_dimacs/_contents (default options): translated from the source on every run (gen/c25_dimacs.py, unverified fail-closed "
                        "glue + DimacsPrelude.v readings of the Python constructs; arms not taken under the default options are not read) and "
                        "PROVED equal to the hand model; hand and generated model additionally tied by sampled differential runs "
                        "(generated: exact text equality)",
                        "stored clauses are [head] + body with head an int, None or a bool (comment clauses ['c', text] are not modelled)",
                        "to_prolog is validated per instance by re-evaluation, not proved"]
    try:
        generate(ctx)
    except Exception as e:  # translator failed closed: recorded, the judges below still run
        ctx.broken.append("translator:gen/c25_dimacs.py: %s" % (str(e)[:300],))
        ctx.notes.append(str(e))
    ctx.prove("C25/Props.v")
    run_dimacs(ctx)
    run_to_prolog(ctx)
